#!/usr/bin/env python3-vt
"""validate MANIFEST.json and all evidence files against the harness schemas (tooling venv has jsonschema)"""
import json, glob, sys, jsonschema
ok = True
jsonschema.validate(json.load(open('/verif/MANIFEST.json')), json.load(open('/root/.vp/MANIFEST.schema.json')))
es = json.load(open('/root/.vp/EVIDENCE.schema.json'))
for f in sorted(glob.glob('/verif/evidence/C*.json')):
    try:
        jsonschema.validate(json.load(open(f)), es)
    except Exception as e:
        ok = False
        print('INVALID', f, str(e)[:300])
print('valid' if ok else 'INVALID')
sys.exit(0 if ok else 1)
