#!/bin/bash
# usage: run.sh <out_dir> <cargo check args...>   — runs the extractor over /repo's current tree
set -e
OUT=$1; shift
REPO=${LRS_REPO:-/repo}
TD=${LRS_TARGET:-/verif/.cache/target}
mkdir -p "$OUT" "$TD"
# force workspace members to be re-checked through the wrapper (cargo's freshness cache would skip it)
rm -rf "$TD"/debug/.fingerprint/lora-* "$TD"/debug/.fingerprint/lorawan-* 2>/dev/null || true
export LD_LIBRARY_PATH=$(rustc +nightly --print sysroot)/lib
export RUSTFLAGS="-Zmir-opt-level=0 -Awarnings"
export RUSTC_WORKSPACE_WRAPPER=/verif/extract/target/release/lrs-extract
export LRS_OUT=$OUT
export CARGO_TARGET_DIR=$TD
export CARGO_NET_OFFLINE=true
cd "$REPO"
cargo +nightly check --offline "$@"
