// lrs-extract: rustc_private driver that dumps borrowck-stage MIR ("LIR") of every body of a
// workspace crate as JSON lines. Used as RUSTC_WORKSPACE_WRAPPER under `cargo +nightly check`.
#![feature(rustc_private)]
#![allow(rustc::internal)]

extern crate rustc_abi;
extern crate rustc_borrowck;
extern crate rustc_driver;
extern crate rustc_hir;
extern crate rustc_interface;
extern crate rustc_middle;
extern crate rustc_session;
extern crate rustc_span;

use std::fmt::Write as _;

use rustc_driver::{Callbacks, Compilation};
use rustc_hir::def::DefKind;
use rustc_hir::def_id::{DefId, LocalDefId, LOCAL_CRATE};
use rustc_middle::mir::{
    self, AggregateKind, AssertKind, BasicBlock, Body, BorrowKind, CastKind, Const, Operand, Place,
    PlaceElem, Rvalue, StatementKind, TerminatorKind, UnwindAction,
};
use rustc_middle::ty::print::{with_no_trimmed_paths, with_no_visible_paths, with_resolve_crate_name};

macro_rules! pp {
    ($e:expr) => {
        with_resolve_crate_name!(with_no_visible_paths!(with_no_trimmed_paths!($e)))
    };
}
use rustc_middle::ty::{self, GenericArgsRef, Instance, Ty, TyCtxt, TypingEnv};
use rustc_span::Span;

struct Cb;

fn esc(s: &str, out: &mut String) {
    out.push('"');
    for c in s.chars() {
        match c {
            '"' => out.push_str("\\\""),
            '\\' => out.push_str("\\\\"),
            '\n' => out.push_str("\\n"),
            '\r' => out.push_str("\\r"),
            '\t' => out.push_str("\\t"),
            c if (c as u32) < 0x20 => {
                let _ = write!(out, "\\u{:04x}", c as u32);
            }
            c => out.push(c),
        }
    }
    out.push('"');
}

fn js(s: &str) -> String {
    let mut o = String::new();
    esc(s, &mut o);
    o
}

struct Cx<'tcx> {
    tcx: TyCtxt<'tcx>,
}

impl<'tcx> Cx<'tcx> {
    fn path(&self, d: DefId) -> String {
        pp!(self.tcx.def_path_str(d))
    }

    fn span(&self, sp: Span) -> String {
        let sm = self.tcx.sess.source_map();
        let sp2 = if sp.from_expansion() { sp.source_callsite() } else { sp };
        let lo = sm.lookup_char_pos(sp2.lo());
        let f = match &lo.file.name {
            rustc_span::FileName::Real(r) => match r.local_path() {
                Some(p) => p.display().to_string(),
                None => format!("{:?}", lo.file.name),
            },
            o => format!("{:?}", o),
        };
        format!("{}:{}", f, lo.line)
    }

    fn expn(&self, sp: Span) -> Option<String> {
        if sp.from_expansion() {
            let d = sp.ctxt().outer_expn_data();
            Some(format!("{}", d.kind.descr()))
        } else {
            None
        }
    }

    fn ty(&self, t: Ty<'tcx>) -> String {
        match t.kind() {
            ty::Closure(d, _) => format!("closure:{}", self.path(*d)),
            ty::Coroutine(d, _) => format!("coroutine:{}", self.path(*d)),
            ty::CoroutineClosure(d, _) => format!("coroutine_closure:{}", self.path(*d)),
            ty::FnDef(d, _) => format!("fndef:{}", self.path(*d)),
            ty::Ref(_, inner, m) => {
                format!("&{}{}", if m.is_mut() { "mut " } else { "" }, self.ty(*inner))
            }
            _ => pp!(t.to_string()),
        }
    }

    fn adt_of(&self, t: Ty<'tcx>) -> Option<String> {
        match t.kind() {
            ty::Adt(a, _) => Some(self.path(a.did())),
            _ => None,
        }
    }

    fn place(&self, body: &Body<'tcx>, p: &Place<'tcx>, out: &mut String) {
        let _ = write!(out, "{{\"l\":{},\"p\":[", p.local.as_usize());
        let mut pty = mir::PlaceTy::from_ty(body.local_decls[p.local].ty);
        let mut first = true;
        for elem in p.projection.iter() {
            if !first {
                out.push(',');
            }
            first = false;
            match elem {
                PlaceElem::Deref => out.push_str("\"*\""),
                PlaceElem::Field(f, fty) => {
                    let mut name = String::new();
                    let mut adt = String::new();
                    if let ty::Adt(a, _) = pty.ty.kind() {
                        adt = self.path(a.did());
                        let v = match pty.variant_index {
                            Some(v) => v,
                            None => rustc_abi::FIRST_VARIANT,
                        };
                        if a.variants().len() > v.as_usize() {
                            let vd = a.variant(v);
                            if vd.fields.len() > f.as_usize() {
                                name = vd.fields[f].name.to_string();
                            }
                        }
                    }
                    let _ = write!(
                        out,
                        "{{\"f\":{},\"n\":{},\"adt\":{},\"ty\":{}}}",
                        f.as_usize(),
                        js(&name),
                        js(&adt),
                        js(&self.ty(fty))
                    );
                }
                PlaceElem::Index(l) => {
                    let _ = write!(out, "{{\"i\":{}}}", l.as_usize());
                }
                PlaceElem::ConstantIndex { offset, min_length, from_end } => {
                    let _ = write!(
                        out,
                        "{{\"ci\":{},\"min\":{},\"fe\":{}}}",
                        offset, min_length, from_end
                    );
                }
                PlaceElem::Subslice { from, to, from_end } => {
                    let _ = write!(out, "{{\"sub\":[{},{},{}]}}", from, to, from_end);
                }
                PlaceElem::Downcast(name, v) => {
                    let n = match name {
                        Some(s) => s.to_string(),
                        None => String::new(),
                    };
                    let _ = write!(out, "{{\"dc\":{},\"n\":{}}}", v.as_usize(), js(&n));
                }
                PlaceElem::OpaqueCast(_) => out.push_str("\"opaque\""),
                PlaceElem::UnwrapUnsafeBinder(_) => out.push_str("\"unwrap_binder\""),
            }
            pty = pty.projection_ty(self.tcx, elem);
        }
        let _ = write!(out, "],\"ty\":{}}}", js(&self.ty(pty.ty)));
    }

    fn fn_ref(&self, env: TypingEnv<'tcx>, d: DefId, args: GenericArgsRef<'tcx>, out: &mut String) {
        let _ = write!(out, "\"fn\":{}", js(&self.path(d)));
        out.push_str(",\"ga\":[");
        let mut first = true;
        for a in args.iter() {
            if !first {
                out.push(',');
            }
            first = false;
            let s = match a.kind() {
                ty::GenericArgKind::Type(t) => self.ty(t),
                ty::GenericArgKind::Lifetime(_) => "'_".to_string(),
                ty::GenericArgKind::Const(c) => pp!(c.to_string()),
            };
            out.push_str(&js(&s));
        }
        out.push(']');
        let _ = write!(out, ",\"local\":{}", d.is_local());
        if let Some(tr) = self.tcx.trait_of_assoc(d) {
            let _ = write!(out, ",\"trait\":{}", js(&self.path(tr)));
        }
        // try to resolve trait methods
        if let Ok(Some(inst)) = Instance::try_resolve(self.tcx, env, d, args) {
            let rd = inst.def_id();
            if rd != d {
                let _ = write!(out, ",\"res\":{}", js(&self.path(rd)));
                let _ = write!(out, ",\"res_local\":{}", rd.is_local());
            }
        }
    }

    fn constant(&self, env: TypingEnv<'tcx>, c: &mir::ConstOperand<'tcx>, out: &mut String) {
        let ty = c.const_.ty();
        let _ = write!(out, "{{\"k\":{{\"ty\":{}", js(&self.ty(ty)));
        match ty.kind() {
            ty::FnDef(d, args) => {
                out.push(',');
                self.fn_ref(env, *d, args, out);
            }
            _ => {
                if let Const::Unevaluated(u, _) = c.const_ {
                    if let Some(p) = u.promoted {
                        let _ = write!(
                            out,
                            ",\"promoted\":{},\"def\":{}",
                            p.as_usize(),
                            js(&self.path(u.def))
                        );
                    } else {
                        let _ = write!(out, ",\"cdef\":{}", js(&self.path(u.def)));
                    }
                }
                let is_scalar = ty.is_integral() || ty.is_bool() || ty.is_char();
                let mut done = false;
                if is_scalar {
                    if let Some(si) = c.const_.try_eval_scalar_int(self.tcx, env) {
                        let size = si.size();
                        if ty.is_signed() {
                            let v = si.to_int(size);
                            let _ = write!(out, ",\"v\":{}", v);
                        } else {
                            let v = si.to_uint(size);
                            let _ = write!(out, ",\"v\":{}", v);
                        }
                        done = true;
                    }
                }
                if !done {
                    let s = pp!(format!("{}", c.const_));
                    let _ = write!(out, ",\"s\":{}", js(&s));
                }
            }
        }
        out.push_str("}}");
    }

    fn operand(&self, env: TypingEnv<'tcx>, body: &Body<'tcx>, o: &Operand<'tcx>, out: &mut String) {
        match o {
            Operand::Copy(p) => {
                out.push_str("{\"c\":");
                self.place(body, p, out);
                out.push('}');
            }
            Operand::Move(p) => {
                out.push_str("{\"m\":");
                self.place(body, p, out);
                out.push('}');
            }
            Operand::Constant(c) => self.constant(env, c, out),
            #[allow(unreachable_patterns)]
            _ => {
                let _ = write!(out, "{{\"x\":{}}}", js(&format!("{:?}", o)));
            }
        }
    }

    fn rvalue(&self, env: TypingEnv<'tcx>, body: &Body<'tcx>, rv: &Rvalue<'tcx>, out: &mut String) {
        match rv {
            Rvalue::Use(o, ..) => {
                out.push_str("{\"k\":\"use\",\"o\":");
                self.operand(env, body, o, out);
                out.push('}');
            }
            Rvalue::Repeat(o, n) => {
                out.push_str("{\"k\":\"rep\",\"o\":");
                self.operand(env, body, o, out);
                let nv = n.try_to_target_usize(self.tcx);
                match nv {
                    Some(v) => {
                        let _ = write!(out, ",\"n\":{}}}", v);
                    }
                    None => out.push_str(",\"n\":null}"),
                }
            }
            Rvalue::Ref(_, bk, p) => {
                let m = matches!(bk, BorrowKind::Mut { .. });
                let _ = write!(out, "{{\"k\":\"ref\",\"mut\":{},\"p\":", m);
                self.place(body, p, out);
                out.push('}');
            }
            Rvalue::RawPtr(k, p) => {
                let _ = write!(out, "{{\"k\":\"rawptr\",\"mut\":{},\"p\":", js(&format!("{:?}", k)));
                self.place(body, p, out);
                out.push('}');
            }
            Rvalue::Cast(ck, o, t) => {
                let cks = match ck {
                    CastKind::IntToInt => "IntToInt".to_string(),
                    CastKind::PointerCoercion(pc, _) => format!("Ptr:{:?}", pc),
                    CastKind::Transmute => "Transmute".to_string(),
                    o => format!("{:?}", o),
                };
                let _ = write!(out, "{{\"k\":\"cast\",\"ck\":{},\"o\":", js(&cks));
                self.operand(env, body, o, out);
                let _ = write!(out, ",\"ty\":{},\"from\":{}}}", js(&self.ty(*t)), js(&self.ty(o.ty(body, self.tcx))));
            }
            Rvalue::BinaryOp(op, ab) => {
                let (a, b) = &**ab;
                let _ = write!(out, "{{\"k\":\"bin\",\"op\":{},\"a\":", js(&format!("{:?}", op)));
                self.operand(env, body, a, out);
                out.push_str(",\"b\":");
                self.operand(env, body, b, out);
                let _ = write!(out, ",\"ty\":{}}}", js(&self.ty(a.ty(body, self.tcx))));
            }
            Rvalue::UnaryOp(op, a) => {
                let _ = write!(out, "{{\"k\":\"un\",\"op\":{},\"a\":", js(&format!("{:?}", op)));
                self.operand(env, body, a, out);
                let _ = write!(out, ",\"ty\":{}}}", js(&self.ty(a.ty(body, self.tcx))));
            }
            Rvalue::Discriminant(p) => {
                out.push_str("{\"k\":\"discr\",\"p\":");
                self.place(body, p, out);
                out.push('}');
            }
            Rvalue::Aggregate(ak, ops) => {
                out.push_str("{\"k\":\"agg\"");
                match &**ak {
                    AggregateKind::Array(t) => {
                        let _ = write!(out, ",\"ak\":\"array\",\"ety\":{}", js(&self.ty(*t)));
                    }
                    AggregateKind::Tuple => out.push_str(",\"ak\":\"tuple\""),
                    AggregateKind::Adt(d, v, _, _, active) => {
                        let a = self.tcx.adt_def(*d);
                        let vd = a.variant(*v);
                        let _ = write!(
                            out,
                            ",\"ak\":\"adt\",\"adt\":{},\"variant\":{},\"vidx\":{},\"is_enum\":{}",
                            js(&self.path(*d)),
                            js(&vd.name.to_string()),
                            v.as_usize(),
                            a.is_enum()
                        );
                        out.push_str(",\"fields\":[");
                        let mut first = true;
                        for f in vd.fields.iter() {
                            if !first {
                                out.push(',');
                            }
                            first = false;
                            out.push_str(&js(&f.name.to_string()));
                        }
                        out.push(']');
                        if let Some(af) = active {
                            let _ = write!(out, ",\"active\":{}", af.as_usize());
                        }
                    }
                    AggregateKind::Closure(d, _) => {
                        let _ = write!(out, ",\"ak\":\"closure\",\"def\":{}", js(&self.path(*d)));
                    }
                    AggregateKind::Coroutine(d, _) => {
                        let _ = write!(out, ",\"ak\":\"coroutine\",\"def\":{}", js(&self.path(*d)));
                    }
                    AggregateKind::CoroutineClosure(d, _) => {
                        let _ = write!(out, ",\"ak\":\"coroutine_closure\",\"def\":{}", js(&self.path(*d)));
                    }
                    AggregateKind::RawPtr(..) => out.push_str(",\"ak\":\"rawptr\""),
                }
                out.push_str(",\"ops\":[");
                let mut first = true;
                for o in ops.iter() {
                    if !first {
                        out.push(',');
                    }
                    first = false;
                    self.operand(env, body, o, out);
                }
                out.push_str("]}");
            }
            Rvalue::CopyForDeref(p) => {
                out.push_str("{\"k\":\"use\",\"o\":{\"c\":");
                self.place(body, p, out);
                out.push_str("}}");
            }
            other => {
                let _ = write!(out, "{{\"k\":\"other\",\"s\":{}}}", js(&format!("{:?}", other)));
            }
        }
    }

    fn real_target(&self, body: &Body<'tcx>, bb: BasicBlock) -> usize {
        bb.as_usize()
    }

    fn body(
        &self,
        crate_name: &str,
        owner: DefId,
        path: &str,
        stage: &str,
        body: &Body<'tcx>,
        out: &mut String,
    ) {
        let tcx = self.tcx;
        let env = TypingEnv::post_analysis(tcx, owner);
        let _ = write!(
            out,
            "{{\"k\":\"body\",\"crate\":{},\"path\":{},\"stage\":{},\"span\":{},\"argc\":{}",
            js(crate_name),
            js(path),
            js(stage),
            js(&self.span(body.span)),
            body.arg_count
        );
        if let Some(e) = self.expn(body.span) {
            let _ = write!(out, ",\"exp\":{}", js(&e));
        }
        let is_co = body.coroutine.is_some();
        let _ = write!(out, ",\"coroutine\":{}", is_co);
        out.push_str(",\"locals\":[");
        for (i, ld) in body.local_decls.iter().enumerate() {
            if i > 0 {
                out.push(',');
            }
            out.push_str(&js(&self.ty(ld.ty)));
        }
        out.push_str("],\"dbg\":[");
        let mut first = true;
        for vdi in body.var_debug_info.iter() {
            if let mir::VarDebugInfoContents::Place(p) = &vdi.value {
                if !first {
                    out.push(',');
                }
                first = false;
                let _ = write!(out, "[{},", js(&vdi.name.to_string()));
                self.place(body, p, out);
                out.push(']');
            }
        }
        out.push_str("],\"blocks\":[");
        for (bi, bbd) in body.basic_blocks.iter().enumerate() {
            if bi > 0 {
                out.push(',');
            }
            let _ = write!(out, "{{\"cleanup\":{},\"s\":[", bbd.is_cleanup);
            let mut first = true;
            for st in bbd.statements.iter() {
                match &st.kind {
                    StatementKind::Assign(b) => {
                        let (p, rv) = &**b;
                        if !first {
                            out.push(',');
                        }
                        first = false;
                        out.push_str("{\"k\":\"assign\",\"lhs\":");
                        self.place(body, p, out);
                        out.push_str(",\"rv\":");
                        self.rvalue(env, body, rv, out);
                        let _ = write!(out, ",\"sp\":{}", js(&self.span(st.source_info.span)));
                        if let Some(e) = self.expn(st.source_info.span) {
                            let _ = write!(out, ",\"exp\":{}", js(&e));
                        }
                        out.push('}');
                    }
                    StatementKind::SetDiscriminant { place, variant_index } => {
                        if !first {
                            out.push(',');
                        }
                        first = false;
                        out.push_str("{\"k\":\"setdiscr\",\"lhs\":");
                        self.place(body, place, out);
                        let _ = write!(out, ",\"v\":{}}}", variant_index.as_usize());
                    }
                    _ => {}
                }
            }
            out.push_str("],\"t\":");
            let term = bbd.terminator();
            let sp = js(&self.span(term.source_info.span));
            let exp = match self.expn(term.source_info.span) {
                Some(e) => format!(",\"exp\":{}", js(&e)),
                None => String::new(),
            };
            match &term.kind {
                TerminatorKind::Goto { target } => {
                    let _ = write!(out, "{{\"k\":\"goto\",\"t\":{}}}", self.real_target(body, *target));
                }
                TerminatorKind::FalseEdge { real_target, .. } => {
                    let _ = write!(out, "{{\"k\":\"goto\",\"t\":{}}}", real_target.as_usize());
                }
                TerminatorKind::FalseUnwind { real_target, .. } => {
                    let _ = write!(out, "{{\"k\":\"goto\",\"t\":{}}}", real_target.as_usize());
                }
                TerminatorKind::SwitchInt { discr, targets } => {
                    out.push_str("{\"k\":\"switch\",\"d\":");
                    self.operand(env, body, discr, out);
                    let _ = write!(out, ",\"dty\":{}", js(&self.ty(discr.ty(body, tcx))));
                    out.push_str(",\"ts\":[");
                    let mut first = true;
                    for (v, t) in targets.iter() {
                        if !first {
                            out.push(',');
                        }
                        first = false;
                        let _ = write!(out, "[{},{}]", v, t.as_usize());
                    }
                    let _ = write!(out, "],\"o\":{},\"sp\":{}{}}}", targets.otherwise().as_usize(), sp, exp);
                }
                TerminatorKind::Return => out.push_str("{\"k\":\"return\"}"),
                TerminatorKind::Unreachable => out.push_str("{\"k\":\"unreachable\"}"),
                TerminatorKind::UnwindResume => out.push_str("{\"k\":\"resume\"}"),
                TerminatorKind::UnwindTerminate(_) => out.push_str("{\"k\":\"terminate\"}"),
                TerminatorKind::CoroutineDrop => out.push_str("{\"k\":\"codrop\"}"),
                TerminatorKind::Drop { place, target, .. } => {
                    out.push_str("{\"k\":\"drop\",\"p\":");
                    self.place(body, place, out);
                    let _ = write!(out, ",\"t\":{}}}", target.as_usize());
                }
                TerminatorKind::Call { func, args, destination, target, unwind, .. } => {
                    out.push_str("{\"k\":\"call\",\"f\":");
                    self.operand(env, body, func, out);
                    out.push_str(",\"args\":[");
                    let mut first = true;
                    for a in args.iter() {
                        if !first {
                            out.push(',');
                        }
                        first = false;
                        self.operand(env, body, &a.node, out);
                    }
                    out.push_str("],\"dest\":");
                    self.place(body, destination, out);
                    match target {
                        Some(t) => {
                            let _ = write!(out, ",\"t\":{}", t.as_usize());
                        }
                        None => out.push_str(",\"t\":null"),
                    }
                    let uw = matches!(unwind, UnwindAction::Cleanup(_));
                    let _ = write!(out, ",\"uw\":{},\"sp\":{}{}}}", uw, sp, exp);
                }
                TerminatorKind::TailCall { .. } => out.push_str("{\"k\":\"tailcall\"}"),
                TerminatorKind::Assert { cond, expected, msg, target, .. } => {
                    out.push_str("{\"k\":\"assert\",\"cond\":");
                    self.operand(env, body, cond, out);
                    let _ = write!(out, ",\"exp_val\":{},\"t\":{}", expected, target.as_usize());
                    match &**msg {
                        AssertKind::BoundsCheck { len, index } => {
                            out.push_str(",\"msg\":\"BoundsCheck\",\"len\":");
                            self.operand(env, body, len, out);
                            out.push_str(",\"index\":");
                            self.operand(env, body, index, out);
                        }
                        AssertKind::Overflow(op, a, b) => {
                            let _ = write!(out, ",\"msg\":\"Overflow\",\"op\":{},\"a\":", js(&format!("{:?}", op)));
                            self.operand(env, body, a, out);
                            out.push_str(",\"b\":");
                            self.operand(env, body, b, out);
                        }
                        AssertKind::OverflowNeg(a) => {
                            out.push_str(",\"msg\":\"OverflowNeg\",\"a\":");
                            self.operand(env, body, a, out);
                        }
                        AssertKind::DivisionByZero(a) => {
                            out.push_str(",\"msg\":\"DivisionByZero\",\"a\":");
                            self.operand(env, body, a, out);
                        }
                        AssertKind::RemainderByZero(a) => {
                            out.push_str(",\"msg\":\"RemainderByZero\",\"a\":");
                            self.operand(env, body, a, out);
                        }
                        other => {
                            let _ = write!(out, ",\"msg\":{}", js(&format!("{:?}", other)));
                        }
                    }
                    let _ = write!(out, ",\"sp\":{}{}}}", sp, exp);
                }
                TerminatorKind::Yield { value, resume, resume_arg, .. } => {
                    out.push_str("{\"k\":\"yield\",\"v\":");
                    self.operand(env, body, value, out);
                    out.push_str(",\"resume_arg\":");
                    self.place(body, resume_arg, out);
                    let _ = write!(out, ",\"t\":{}}}", resume.as_usize());
                }
                TerminatorKind::InlineAsm { .. } => out.push_str("{\"k\":\"asm\"}"),
            }
            out.push('}');
        }
        out.push_str("]}\n");
    }

    fn meta(&self, crate_name: &str, out: &mut String) {
        let tcx = self.tcx;
        for ld in tcx.hir_crate_items(()).definitions() {
            let d = ld.to_def_id();
            let kind = tcx.def_kind(d);
            match kind {
                DefKind::Struct | DefKind::Enum | DefKind::Union => {
                    let a = tcx.adt_def(d);
                    let _ = write!(
                        out,
                        "{{\"k\":\"adt\",\"crate\":{},\"path\":{},\"kind\":{},\"span\":{},\"attrs\":{},\"variants\":[",
                        js(crate_name),
                        js(&self.path(d)),
                        js(&format!("{:?}", kind)),
                        js(&self.span(tcx.def_span(d))),
                        self.attrs(d)
                    );
                    let mut firstv = true;
                    for (vi, vd) in a.variants().iter_enumerated() {
                        if !firstv {
                            out.push(',');
                        }
                        firstv = false;
                        let discr = if a.is_enum() {
                            format!("{}", a.discriminant_for_variant(tcx, vi).val)
                        } else {
                            "0".to_string()
                        };
                        let _ = write!(out, "{{\"name\":{},\"discr\":{},\"fields\":[", js(&vd.name.to_string()), discr);
                        let mut firstf = true;
                        for f in vd.fields.iter() {
                            if !firstf {
                                out.push(',');
                            }
                            firstf = false;
                            let fty0 = tcx.type_of(f.did).instantiate_identity().skip_norm_wip();
                            // evaluate array-length constants etc. where possible
                            let fty = match tcx.try_normalize_erasing_regions(TypingEnv::post_analysis(tcx, d), rustc_middle::ty::Unnormalized::new_wip(fty0)) {
                                Ok(t) => t,
                                Err(_) => fty0,
                            };
                            let _ = write!(
                                out,
                                "{{\"name\":{},\"ty\":{},\"vis\":{},\"attrs\":{}}}",
                                js(&f.name.to_string()),
                                js(&self.ty(fty)),
                                js(&format!("{:?}", f.vis)),
                                self.attrs(f.did)
                            );
                        }
                        out.push_str("]}");
                    }
                    out.push_str("]}\n");
                }
                DefKind::Impl { of_trait } => {
                    let self_ty = tcx.type_of(d).instantiate_identity().skip_norm_wip();
                    let tr = if of_trait {
                        let tref = tcx.impl_trait_ref(d).instantiate_identity().skip_norm_wip();
                        Some((self.path(tref.def_id), pp!(tref.to_string())))
                    } else {
                        None
                    };
                    let _ = write!(
                        out,
                        "{{\"k\":\"impl\",\"crate\":{},\"path\":{},\"self_ty\":{},\"self_adt\":{},\"span\":{}",
                        js(crate_name),
                        js(&self.path(d)),
                        js(&self.ty(self_ty)),
                        js(&self.adt_of(self_ty).unwrap_or_default()),
                        js(&self.span(tcx.def_span(d)))
                    );
                    if let Some(e) = self.expn(tcx.def_span(d)) {
                        let _ = write!(out, ",\"exp\":{}", js(&e));
                    }
                    if let Some((tp, ts)) = tr {
                        let _ = write!(out, ",\"trait\":{},\"trait_ref\":{}", js(&tp), js(&ts));
                    }
                    out.push_str(",\"items\":[");
                    let mut first = true;
                    for it in tcx.associated_items(d).in_definition_order() {
                        if !first {
                            out.push(',');
                        }
                        first = false;
                        let _ = write!(
                            out,
                            "{{\"name\":{},\"path\":{},\"kind\":{}}}",
                            js(&it.opt_name().map(|n| n.to_string()).unwrap_or_default()),
                            js(&self.path(it.def_id)),
                            js(&format!("{:?}", it.tag()))
                        );
                    }
                    out.push_str("]}\n");
                }
                DefKind::Fn | DefKind::AssocFn => {
                    let vis = tcx.visibility(d);
                    let parent = tcx.parent(d);
                    let pk = tcx.def_kind(parent);
                    let _ = write!(
                        out,
                        "{{\"k\":\"fn\",\"crate\":{},\"path\":{},\"vis\":{},\"span\":{},\"parent\":{},\"parent_kind\":{},\"const\":{},\"async\":{},\"name\":{}",
                        js(crate_name),
                        js(&self.path(d)),
                        js(&format!("{:?}", vis)),
                        js(&self.span(tcx.def_span(d))),
                        js(&self.path(parent)),
                        js(&format!("{:?}", pk)),
                        tcx.is_const_fn(d),
                        tcx.asyncness(d).is_async(),
                        js(&tcx.item_name(d).to_string())
                    );
                    if let Some(e) = self.expn(tcx.def_span(d)) {
                        let _ = write!(out, ",\"exp\":{}", js(&e));
                    }
                    let _ = write!(out, ",\"exported\":{}", tcx.effective_visibilities(()).is_reachable(ld));
                    {
                        // generic parameter names in substitution order (parents first)
                        let mut names: Vec<String> = Vec::new();
                        let mut chain = Vec::new();
                        let mut g = Some(tcx.generics_of(d));
                        while let Some(gg) = g {
                            chain.push(gg);
                            g = gg.parent.map(|p| tcx.generics_of(p));
                        }
                        for gg in chain.iter().rev() {
                            for prm in gg.own_params.iter() {
                                names.push(prm.name.to_string());
                            }
                        }
                        out.push_str(",\"generics\":[");
                        for (i, n) in names.iter().enumerate() {
                            if i > 0 {
                                out.push(',');
                            }
                            out.push_str(&js(n));
                        }
                        out.push(']');
                    }
                    let sig = tcx.fn_sig(d).instantiate_identity().skip_norm_wip().skip_binder();
                    out.push_str(",\"inputs\":[");
                    let mut first = true;
                    for t in sig.inputs().iter() {
                        if !first {
                            out.push(',');
                        }
                        first = false;
                        out.push_str(&js(&self.ty(*t)));
                    }
                    let _ = write!(out, "],\"output\":{}", js(&self.ty(sig.output())));
                    if let DefKind::Impl { .. } = pk {
                        let self_ty = tcx.type_of(parent).instantiate_identity().skip_norm_wip();
                        let _ = write!(
                            out,
                            ",\"self_ty\":{},\"self_adt\":{}",
                            js(&self.ty(self_ty)),
                            js(&self.adt_of(self_ty).unwrap_or_default())
                        );
                        if let DefKind::Impl { of_trait: true } = pk {
                            let tref = tcx.impl_trait_ref(parent).instantiate_identity().skip_norm_wip();
                            let _ = write!(out, ",\"impl_trait\":{}", js(&self.path(tref.def_id)));
                        }
                    }
                    out.push_str("}\n");
                }
                DefKind::Const { .. } | DefKind::AssocConst { .. } | DefKind::Static { .. } => {
                    let t = tcx.type_of(d).instantiate_identity().skip_norm_wip();
                    let parent = tcx.parent(d);
                    let _ = write!(
                        out,
                        "{{\"k\":\"const\",\"crate\":{},\"path\":{},\"ty\":{},\"kind\":{},\"parent\":{},\"span\":{}",
                        js(crate_name),
                        js(&self.path(d)),
                        js(&self.ty(t)),
                        js(&format!("{:?}", kind)),
                        js(&self.path(parent)),
                        js(&self.span(tcx.def_span(d)))
                    );
                    // scalar value when closed and evaluable
                    let is_scalar = t.is_integral() || t.is_bool();
                    if is_scalar && !matches!(kind, DefKind::Static { .. }) {
                        let generics = tcx.generics_of(d);
                        let pgen = match tcx.def_kind(parent) {
                            DefKind::Impl { .. } | DefKind::Trait => tcx.generics_of(parent).count(),
                            _ => 0,
                        };
                        if generics.count() == 0 && pgen == 0 {
                            let env = TypingEnv::fully_monomorphized();
                            if let Ok(v) = tcx.const_eval_poly(d) {
                                if let Some(si) = v.try_to_scalar_int() {
                                    let size = si.size();
                                    if t.is_signed() {
                                        let _ = write!(out, ",\"v\":{}", si.to_int(size));
                                    } else {
                                        let _ = write!(out, ",\"v\":{}", si.to_uint(size));
                                    }
                                }
                            }
                            let _ = env;
                        }
                    }
                    out.push_str("}\n");
                }
                _ => {}
            }
        }
    }

    fn attrs(&self, d: DefId) -> String {
        let tcx = self.tcx;
        let mut s = String::from("[");
        if let Some(ld) = d.as_local() {
            let hid = tcx.local_def_id_to_hir_id(ld);
            let sm = tcx.sess.source_map();
            let mut first = true;
            for a in tcx.hir_attrs(hid) {
                let sp = match a {
                    rustc_hir::Attribute::Unparsed(u) => u.span,
                    _ => continue,
                };
                if let Ok(snip) = sm.span_to_snippet(sp) {
                    if !first {
                        s.push(',');
                    }
                    first = false;
                    s.push_str(&js(&snip));
                }
            }
        }
        s.push(']');
        s
    }
}

impl Callbacks for Cb {
    fn after_expansion<'tcx>(
        &mut self,
        _compiler: &rustc_interface::interface::Compiler,
        tcx: TyCtxt<'tcx>,
    ) -> Compilation {
        let out_dir = match std::env::var("LRS_OUT") {
            Ok(d) => d,
            Err(_) => return Compilation::Continue,
        };
        let crate_name = tcx.crate_name(LOCAL_CRATE).to_string();
        if crate_name.starts_with("build_script") {
            return Compilation::Continue;
        }
        if tcx.crate_types().iter().any(|t| matches!(t, rustc_session::config::CrateType::ProcMacro)) {
            return Compilation::Continue;
        }
        let cx = Cx { tcx };
        let mut out = String::with_capacity(1 << 24);
        // phase 1: collect bodies (const-like owners first: see DESIGN 2.1 "stolen" note)
        let mut owners: Vec<LocalDefId> = tcx.hir_body_owners().collect();
        owners.sort_by_key(|d| {
            let k = tcx.def_kind(d.to_def_id());
            match k {
                DefKind::Const { .. } | DefKind::AssocConst { .. } | DefKind::Static { .. } => 0,
                DefKind::AnonConst | DefKind::InlineConst => 1,
                _ => 2,
            }
        });
        let mut collected: Vec<(DefId, String, String, Body<'tcx>)> = Vec::new();
        let mut n_stolen = 0usize;
        for ld in owners {
            let d = ld.to_def_id();
            if tcx.is_typeck_child(d) {
                continue;
            }
            let kind = tcx.def_kind(d);
            if matches!(kind, DefKind::AnonConst | DefKind::InlineConst) {
                continue;
            }
            // constructors have no MIR built from HIR
            if matches!(kind, DefKind::Ctor(..)) {
                continue;
            }
            let stolen = tcx.mir_promoted(ld).0.is_stolen();
            if stolen {
                n_stolen += 1;
                let b = match kind {
                    DefKind::Const { .. } | DefKind::AssocConst { .. } | DefKind::Static { .. } => tcx.mir_for_ctfe(d).clone(),
                    _ => tcx.optimized_mir(d).clone(),
                };
                collected.push((d, cx.path(d), "opt".to_string(), b));
                continue;
            }
            let map = rustc_borrowck::consumers::get_bodies_with_borrowck_facts(
                tcx,
                ld,
                rustc_borrowck::consumers::ConsumerOptions::RegionInferenceContext,
            );
            for (bld, facts) in map.into_iter() {
                let bd = bld.to_def_id();
                let p = cx.path(bd);
                for (pi, pb) in facts.promoted.iter_enumerated() {
                    collected.push((bd, format!("{}::promoted[{}]", p, pi.as_usize()), "promoted".to_string(), pb.clone()));
                }
                collected.push((bd, p, "borrowck".to_string(), facts.body));
            }
        }
        // phase 2: serialise
        let _ = write!(
            out,
            "{{\"k\":\"crate\",\"crate\":{},\"bodies\":{},\"stolen\":{}}}\n",
            js(&crate_name),
            collected.len(),
            n_stolen
        );
        cx.meta(&crate_name, &mut out);
        for (d, p, stage, b) in collected.iter() {
            cx.body(&crate_name, *d, p, stage, b, &mut out);
        }
        let file = format!("{}/{}-{}.jsonl", out_dir, crate_name, std::process::id());
        std::fs::write(&file, out).expect("lrs-extract: cannot write facts");
        Compilation::Continue
    }
}

fn main() {
    let mut args: Vec<String> = std::env::args().collect();
    // wrapper mode: argv[1] is the path of the real rustc
    if args.len() > 1 && (args[1].ends_with("rustc") || args[1].contains("/rustc")) {
        args.remove(1);
    }
    rustc_driver::run_compiler(&args, &mut Cb);
}
