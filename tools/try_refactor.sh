#!/bin/bash
# usage: try_refactor.sh <refactor.diff> — apply a behaviour-preserving change to /repo, run every quick check, report alarms, undo
P=$1
cd /repo && git diff --quiet || { echo "/repo not clean"; exit 2; }
git -C /repo apply $P || { echo "does not apply: $P"; exit 2; }
IDS="C01 C02 C03 C05 C06 C07 C08 C09 C10 C11 C12 C13 C14 C15 C16 C17 C18 C19 C20"
if grep -q "lorawan-device/\|lorawan-encoding/\|lora-modulation/" $P; then IDS="$IDS C04"; fi
for id in $IDS; do
  (cd /verif && LRS_EVIDENCE_DIR=/tmp/ev-scratch ./check $id 2>&1 | awk '/^  C[0-9]|ERROR|Traceback|Error:/{print substr($0,1,330); n++} END{}' | head -5)
done
git -C /repo checkout -- .
(cd /verif && git checkout -q evidence 2>/dev/null)
