#!/bin/bash
# usage: try_seed.sh <patch.diff> <check ids...> — apply a seeded change to /repo, run the checks, undo it
P=$1; shift
cd /repo && git diff --quiet || { echo "/repo not clean"; exit 2; }
git -C /repo apply $P || exit 2
for id in "$@"; do
  (cd /verif && LRS_EVIDENCE_DIR=/tmp/ev-scratch ./check $id 2>&1 | grep -E "VIOLATION|^  C[0-9]|rule instances|ERROR" | head -12)
done
git -C /repo checkout -- .
