#!/usr/bin/env python3
"""every stored seed must still be reported by at least one of the checks that caught it (meta.json: property + caught_by)"""
import json, glob, os, subprocess, sys, re
os.chdir('/verif')
REPO = os.environ.get('LRS_REPO', '/repo')
only = sys.argv[1:]
bad = []
for d in sorted(glob.glob('/verif/seeded/*/')):
    sid = os.path.basename(d.rstrip('/'))
    if only and not any(sid.startswith(o) for o in only):
        continue
    m = json.load(open(d + 'meta.json'))
    ids = set(re.findall(r'\bC\d\d\b', m.get('check_result', ''))) | {m['property']}
    # checks named as "missed by" do not count, but running them is harmless
    if subprocess.call(['git', '-C', REPO, 'diff', '--quiet']) != 0:
        print('/repo not clean'); sys.exit(2)
    if subprocess.call(['git', '-C', REPO, 'apply', d + 'patch.diff']) != 0:
        print('%s: patch does not apply' % sid); bad.append(sid); continue
    caught = []
    for cid in sorted(ids):
        if cid == 'C04' and m['property'] != 'C04' and len(ids) > 1:
            continue
        out = subprocess.run(['./check', cid], stdout=subprocess.PIPE, stderr=subprocess.STDOUT, text=True).stdout
        if 'VIOLATION property=' in out:
            caught.append(cid)
    subprocess.call(['git', '-C', REPO, 'checkout', '--', '.'])
    print('%s: %s' % (sid, 'caught by ' + ','.join(caught) if caught else 'MISSED (ran %s)' % sorted(ids)))
    if not caught:
        bad.append(sid)
if not os.environ.get('LRS_EVIDENCE_DIR'):
    subprocess.call(['git', 'checkout', '-q', 'evidence'])
print('missed:', bad)
