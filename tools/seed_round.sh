#!/bin/bash
# usage: seed_round.sh <agent id> <check ids...> — confirm a sub-agent mutation, then run the named checks against it
AID=$1; shift
echo "######## $AID"
/verif/tools/confirm_seed.sh /tmp/wt/$AID $AID 2>&1 | grep -vE "^ +[0-9]+ test result: ok" | tail -8
/verif/tools/try_seed.sh /tmp/wt/$AID.mutation.saved/patch.diff "$@" 2>&1 | cut -c1-420
