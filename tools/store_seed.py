#!/usr/bin/env python3
"""usage: store_seed.py <saved mutation dir> <seed id> <check_result text> — record a confirmed sub-agent change under seeded/"""
import json, os, shutil, sys
src, sid, cr = sys.argv[1], sys.argv[2], sys.argv[3]
dst = os.path.join(os.path.dirname(os.path.dirname(os.path.abspath(__file__))), 'seeded', sid)
os.makedirs(dst, exist_ok=True)
for f in ('patch.diff', 'demo.diff'):
    shutil.copy(os.path.join(src, f), os.path.join(dst, f))
m = json.load(open(os.path.join(src, 'meta.json')))
m['confirmed'] = 'suite passes with the patch; demo fails with it and passes without (tools/confirm_seed.sh, 2026-09-24)'
m['check_result'] = cr
json.dump(m, open(os.path.join(dst, 'meta.json'), 'w'), indent=1)
print('stored', dst)
