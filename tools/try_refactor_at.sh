#!/bin/bash
# usage: try_refactor_at.sh <worktree> <refactor.diff> — like try_refactor.sh but against a scratch worktree (LRS_REPO), for parallel runs
WT=$1; P=$2
cd $WT && git checkout -q -- . && git apply $P || { echo "does not apply: $P"; exit 2; }
IDS=${LRS_IDS:-"C01 C02 C03 C05 C06 C07 C08 C09 C10 C11 C12 C13 C14 C15 C16 C17 C18 C19 C20"}
if [ -z "$LRS_IDS" ] && grep -q "lorawan-device/\|lorawan-encoding/\|lora-modulation/" $P; then IDS="$IDS C04"; fi
for id in $IDS; do
  (cd ${VERIF_DIR:-/verif} && LRS_REPO=$WT LRS_TARGET=$WT/lrs-target LRS_EVIDENCE_DIR=$WT/lrs-ev ./check $id 2>&1 | awk '/^  C[0-9]|ERROR|Traceback|Error:/{print substr($0,1,330); n++} END{}' | head -5)
done
cd $WT && git checkout -q -- .
