#!/bin/bash
# re-run only the demo of a stored seed: with and without the patch
ID=$1
WT=/tmp/wt/re-$ID
git -C /repo worktree add --detach $WT HEAD -f >/dev/null 2>&1
cd $WT
DEMO=$(python3 -c "import json,re;d=json.load(open('/verif/seeded/$ID/meta.json'))['demo_cmd'];d=re.sub(r'cd \S+ && ','',d);d=re.sub(r'CARGO_TARGET_DIR=\S+ ','',d);print(d)")
export CARGO_TARGET_DIR=$WT/target CARGO_NET_OFFLINE=true
git apply /verif/seeded/$ID/patch.diff && git apply /verif/seeded/$ID/demo.diff
echo "== $ID with patch: $DEMO"; eval "$DEMO" 2>&1 | grep -E "^test result|FAILED|panicked" | head -4
git apply -R /verif/seeded/$ID/patch.diff
echo "== $ID without patch"; eval "$DEMO" 2>&1 | grep -E "^test result|FAILED|panicked" | head -4
cd /; git -C /repo worktree remove --force $WT
