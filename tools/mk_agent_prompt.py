#!/usr/bin/env python3
"""usage: mk_agent_prompt.py <PID> <agent id> "<hint>" — create the scratch worktree /tmp/wt/<agent id> and print the prompt"""
import json, os, subprocess, sys
pid, aid, hint = sys.argv[1], sys.argv[2], sys.argv[3]
here = os.path.dirname(os.path.abspath(__file__))
prop = None
for l in open(os.path.join(os.path.dirname(here), 'properties.jsonl')):
    p = json.loads(l)
    if p['id'] == pid:
        prop = p
wt = '/tmp/wt/' + aid
os.makedirs('/tmp/wt', exist_ok=True)
if not os.path.isdir(wt):
    subprocess.check_call(['git', '-C', '/repo', 'worktree', 'add', '--detach', '-q', wt, 'HEAD'])
text = '%s — %s\n\n%s\n\nQuantified over: %s\n\nWhy the existing tests cannot settle it: %s\n\nCode it is anchored in: %s' % (
    pid, prop['title'], prop['statement'], prop['quantifier']['text'], prop['why_tests_cant'], '; '.join('%s (%s)' % (m['name'], m['where']) for m in prop['anchors']['mechanism']))
t = open(os.path.join(here, 'agent_prompt.tmpl')).read()
out = t.replace('{WT}', wt).replace('{PROP}', text).replace('{HINT}', hint).replace('{PID}', pid)
open('/tmp/wt/%s.prompt.txt' % aid, 'w').write(out)
print(out)
