#!/bin/bash
# usage: at.sh <worktree> <diff|-> <ID...> — apply diff to a scratch worktree (or keep as is with -) and run the given checks there
WT=$1; P=$2; shift 2
if [ "$P" != "-" ]; then (cd $WT && git checkout -q -- . && git apply $P) || exit 2; fi
for id in "$@"; do (cd /verif && LRS_REPO=$WT LRS_TARGET=$WT/lrs-target ./check $id 2>&1 | grep -E "^  C[0-9]|ERROR|^C[0-9]+ " | head -8 | cut -c1-600); done
