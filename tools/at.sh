#!/bin/bash
# usage: at.sh <worktree> <diff|-> <ID...> — apply diff to a scratch worktree (or keep as is with -) and run the given checks there
WT=$1; P=$2; shift 2
if [ "$P" != "-" ]; then (cd $WT && git checkout -q -- . && git apply $P) || exit 2; fi
for id in "$@"; do (cd ${VERIF_DIR:-/verif} && LRS_REPO=$WT LRS_TARGET=$WT/lrs-target ./check $id 2>&1 | awk '/^  C[0-9]|ERROR|Traceback|Error:|^C[0-9]+: /{print substr($0,1,600)}' | head -9); done
