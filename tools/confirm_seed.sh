#!/bin/bash
# usage: confirm_seed.sh <worktree> <id>  — confirm a sub-agent mutation: suite passes with the patch, demo fails with it and passes without
WT=$1; ID=$2
set -u
cd $WT || exit 2
M=$WT/mutation
[ -f $M/patch.diff ] && [ -f $M/demo.diff ] && [ -f $M/meta.json ] || { echo "missing mutation files"; exit 2; }
cp -r $M /tmp/wt/$ID.mutation.saved
git checkout -q -- . && git clean -fdq -e mutation -e target
git apply $M/patch.diff || { echo "patch does not apply"; exit 2; }
echo "== suite with patch"
cargo test --offline --workspace 2>&1 | grep -E "^test result|FAILED|error(\[|:)" | sort | uniq -c
DEMO=$(python3 -c "import json;print(json.load(open('$M/meta.json'))['demo_cmd'])")
DEMO=${DEMO#cd $WT && }
git apply $M/demo.diff || { echo "demo does not apply"; exit 2; }
echo "== demo with patch (expect FAIL): $DEMO"
( eval "$DEMO" 2>&1 | grep -E "^test result|FAILED|panicked" | head -5 )
git apply -R $M/patch.diff
echo "== demo without patch (expect ok)"
( eval "$DEMO" 2>&1 | grep -E "^test result|FAILED|panicked" | head -5 )
git checkout -q -- . && git clean -fdq -e mutation -e target
