#!/usr/bin/env python3
"""generates MANIFEST.json from the table below (kept in one place so it stays valid)"""
import json, os
CLAIMS = {}
def claim(pid, category, text, note, technique, design_ref, engine='lrs'):
    CLAIMS[pid] = dict(category=category, text=text, note=note, technique=technique, design_ref=design_ref, engine=engine)

exec(open(os.path.join(os.path.dirname(os.path.abspath(__file__)), 'claims.py')).read())

ALL = ['C%02d' % i for i in range(1, 21)]
checks = []
for pid in ALL:
    if pid not in CLAIMS:
        continue
    c = CLAIMS[pid]
    checks.append({
        'property_id': pid,
        'quick_cmd': './check %s --tier quick' % pid,
        'thorough_cmd': './check %s --tier thorough' % pid,
        'evidence_file': '/verif/evidence/%s.json' % pid,
        'replay_cmd_template': './check %s --replay {path}' % pid,
        'engine': c['engine'],
        'level_claimed': {'category': c['category'], 'text': c['text'], 'design_ref': c['design_ref']},
        'level_note': c['note'],
        'technique': c['technique'],
    })
na = [{'property_id': p, 'reason': r} for p, r in NOT_APPLICABLE.items() if p not in CLAIMS]
m = {
    'version': 1,
    'setup_cmd': 'cd /verif/extract && CARGO_NET_OFFLINE=true cargo +nightly build --offline --release',
    'hooks': {'guard': 'lora_rs_verif', 'enable': 'none needed: the static analysis reads private items directly (guard name reserved, unused)',
              'baseline_off_cmd': 'cd /repo && cargo test --workspace --no-fail-fast --offline', 'source_commits': [], 'add_only': True},
    'engines': [
        {'name': 'lrs-extract', 'path': '/verif/extract', 'serves_properties': sorted(CLAIMS), 'kind_free_text': 'rustc_private driver dumping borrowck-stage MIR (incl. async bodies) with resolved callees as JSON lines'},
        {'name': 'lrs', 'path': '/verif/lrs', 'serves_properties': sorted(CLAIMS), 'kind_free_text': 'Python static analyses over the extracted MIR: CFG dominance / must-pass-through / effect summaries / who-writes (flow), abstract interpretation with obligations (absint), bit-provenance (layout), decision tables over finite enums (dtable)'},
    ],
    'checks': checks,
    'not_applicable': na,
    'notes': 'Static analysis only. Every check re-extracts MIR from /repo\'s current working tree (cached by content hash). See DESIGN.md.',
}
json.dump(m, open(os.path.join(os.path.dirname(os.path.abspath(__file__)), 'MANIFEST.json'), 'w'), indent=1)
print('claims:', sorted(CLAIMS), 'n/a:', [x['property_id'] for x in na])
