# table of claims (read by gen_manifest.py)
NOT_APPLICABLE = {p: 'check under construction in this round (see DESIGN.md section 4 for the planned static rules)' for p in ['C%02d' % i for i in range(1, 21)]}
NOT_APPLICABLE['C17'] = ('numerical adequacy of fixed-point / mantissa-exponent encodings over 1e8-1e9 values: no sound static argument in reach '
                         'bounds the rounding error tightly enough; anything that could is evaluation, not static analysis (DESIGN.md section 6)')

claim('C07', 'other',
      'Static dominance/effect analysis on MIR: every persistent effect in the frame handlers (Session::handle_rx, Otaa::handle_rx, Mac::handle_rx/handle_rxc, delegated multicast handler) is dominated by the accepting edge; NoUpdate arms of both front-ends perform no effect and return the unchanged state. Decides the mechanism ("no persistent write before acceptance"), for all frames and histories; not 2-safety of all later behaviour.',
      'Trusted: rustc MIR construction; may-write summaries (unknown externals with &mut are writers except listed reference adapters); receive-buffer-only state out of scope per the property.',
      'static analysis: CFG dominance + interprocedural may-write effect summaries on borrowck-stage MIR', 'DESIGN.md 4/C07')

claim('C05', 'other',
      'Static SAME-VALUE / dominance analysis of Session::handle_rx on MIR: one reconstructed counter flows to MIC check, store and decryption; MIC key is the network session key; all effects behind the MIC-true edge; stale counter returns NoUpdate without effect; size test is len > window max_payload_len + 5 with the limit bound to the receiving window in both front-ends; complete writer set of fcnt_down; arithmetic post-condition of next_fcnt_down by abstract interpretation (when the absint clause is present in the evidence). Decides these structural clauses for all frames/histories; not MIC arithmetic, not completeness of the reconstruction.',
      'Trusted: rustc MIR construction; SAME-VALUE over single-assignment def chains; may-write summaries.',
      'static analysis: def-chain SAME-VALUE + CFG dominance + who-writes on MIR', 'DESIGN.md 4/C05')
claim('C06', 'other',
      'Static who-writes / shape / must-pass-through analysis: complete writer set of Session.fcnt_up with +1 shape and exhaustion guard (SessionExpired instead of wrap); prepare_buffer uses the full 32-bit counter; on every path of both front-ends between handing a frame to the radio and the next frame preparation an increment occurs - exits where it does not are enumerated individually (known findings: error exits of the async send chain, two nb Idle exits).',
      'Trusted: rustc MIR construction incl. coroutine bodies; await recognition (into_future/poll/yield pattern). External writes to the pub field fcnt_up are not analysed.',
      'static analysis: who-writes + forward may-dataflow (must-pass-through) over async and nb state-machine MIR', 'DESIGN.md 4/C06')

claim('C12', 'other',
      'Static provenance / who-writes / path-condition analysis on MIR: every DataFrame header field built by Session::prepare_buffer has the required source (session address, application message type, adr_enabled, ADRACKReq = adr ∧ cnt>=64 ∧ lower rate exists, ACK = owed flag cleared on use); complete writer sets of the owed-ACK flag, the ADR counter, data_rate and adr_enabled with each writer\'s guard and value; back-off store under cnt>=96 ∧ (cnt-64)%32==0 ∧ Some(lower). Per-step facts for all histories; not counting over long histories.',
      'Trusted: rustc MIR construction; path conditions = branch edges every path must take; constants 64/32 frozen from the specification.',
      'static analysis: value provenance (def chains), path conditions from dominating branch edges, who-writes', 'DESIGN.md 4/C12')
claim('C08', 'other',
      'Static path-condition analysis of the MAC command handler: each state write of each request arm is guarded by every acknowledgement bit reported in the answer; channel-plan mutations inside NewChannel/DlChannel handling only on paths returning all-true acknowledgements; written values are the commanded ones (or "keep" for 15); exactly one answer site per request (LinkADR: per-request counter); answers appended whole under the capacity guard; retained-answer set extracted as a decision table; RFU verdict of channel_mask_update not discarded. Decides these for all command byte values; not trailing-drop over sequences.',
      'Trusted: rustc MIR construction; effect summaries; sticky set / FOpts limit frozen from the specification.',
      'static analysis: path conditions vs acknowledgement provenance, decision table of the sticky filter, who-calls', 'DESIGN.md 4/C08')

claim('C03', 'proof',
      'Abstract interpretation of the MIR of every exported parse-side function of the lorawan crate (1380+ entry points incl. all six generated command sets, views, accessors, iterators, wire newtypes, text forms): every panic-capable site (bounds/overflow/div assertions, range slicing, copy_from_slice, unwrap/expect, explicit panics) is an obligation discharged in every analysed context by intervals + finite sets + linear constraints with per-variant facts; view-type invariants are inferred from all construction sites (sound by field privacy) and the data-frame layout invariant is checked at each construction; loops reach a fixpoint; iterator fusing/advance rules and absence of recursion checked on the CFG/call graph. All byte strings and lengths are symbolic: this is a proof over all inputs modulo the trusted base.',
      'Trusted base: rustc MIR construction; models of core/heapless/hex/aes-keyinit functions (lrs/absint_models.py); soundness of the abstract domains; field privacy of view types; entry exclusions are documented-contract functions (new_from_raw, parse_one, Crypto block callbacks, set_channel) analysed in all workspace calling contexts; sites depending only on caller-chosen indices / const generics are listed as preconditions.',
      'static analysis: abstract interpretation (intervals, value sets, linear constraints, variant-guarded facts) with inferred type invariants; proof obligations per panic site', 'DESIGN.md 4/C03', engine='lrs/absint')

claim('C16', 'other',
      'Interval abstract interpretation of BaseBandModulationParams::new / time_on_air_us (all SF x BW x CR x len x preamble x header as ranges, t_sym_us through the inferred invariant of the private field): every overflow / division obligation discharged, all casts value-preserving; monotonicity typing shows the result non-decreasing in len; the (n-1)/d+1 ceiling idiom is only allowed with numerator >= 1; shape of t_sym and of the airtime LDRO threshold. Decides these necessary conditions for all 42M parameter tuples; not value equality with the formula.',
      'Trusted: rustc MIR construction, interval domain and models; with feature serde a deserialised t_sym_us is outside the quantifier.',
      'static analysis: interval abstract interpretation + monotonicity typing + idiom/shape rules on MIR terms', 'DESIGN.md 4/C16', engine='lrs/absint')
claim('C18', 'other',
      'Abstract interpretation of the packet-fetch path (SX126x, SX127x incl. both variants by class-hierarchy join, LR11xx through the generic layer, LoRa::complete_rx/get_rx_result/rx, LorawanRadio::rx_single/rx_continuous) with all chip-reported bytes unconstrained: every bounds/slice/overflow/unwrap site discharged (payload_length <= buffer.len() proven at the slice); structural rules: single write through the caller buffer, slice [0..len], returned length = slice bound, length/offset provenance, error status before use, adapter and MAC front-end pass on exactly that length. For all status bytes; not the content equality of the copied bytes with the chip FIFO.',
      'Trusted: rustc MIR construction incl. coroutine bodies; await modelled as a call that returns; embedded-hal bus traits return unconstrained data; foreign PhyRxTx impls must honour len <= buffer.len().',
      'static analysis: abstract interpretation over async MIR (obligations) + SAME-VALUE / effect rules', 'DESIGN.md 4/C18', engine='lrs/absint')

claim('C15', 'other',
      'Exhaustive decision-table extraction: for all 8 x 10 (SF, BW) pairs the LDRO decision of the airtime calculator and of the SX126x, SX127x (both variants joined) and LR11xx create_modulation_params is computed by abstract interpretation of their MIR with the enum parameters fixed per partition (pure loop-free code -> one constant per cell), then compared pairwise and with the 16.38 ms definition (nominal bandwidths; the straddling pair accepts either). The domain is finite and fully enumerated.',
      'Trusted: rustc MIR construction; value-set abstract interpreter; bandwidth nominal values; tables extracted at 868.1 MHz. Placement of the flag in the chip register is C13.',
      'static analysis: decision tables over finite enum domains by partitioned abstract interpretation of MIR', 'DESIGN.md 4/C15', engine='lrs/absint')
