# table of claims (read by gen_manifest.py)
NOT_APPLICABLE = {p: 'check under construction in this round (see DESIGN.md section 4 for the planned static rules)' for p in ['C%02d' % i for i in range(1, 21)]}
NOT_APPLICABLE['C17'] = ('numerical adequacy of fixed-point / mantissa-exponent encodings over 1e8-1e9 values: no sound static argument in reach '
                         'bounds the rounding error tightly enough; anything that could is evaluation, not static analysis (DESIGN.md section 6)')

claim('C07', 'other',
      'Static dominance/effect analysis on MIR: every persistent effect in the frame handlers (Session::handle_rx, Otaa::handle_rx, Mac::handle_rx/handle_rxc, delegated multicast handler) is dominated by the accepting edge; NoUpdate arms of both front-ends perform no effect and return the unchanged state. Decides the mechanism ("no persistent write before acceptance"), for all frames and histories; not 2-safety of all later behaviour.',
      'Trusted: rustc MIR construction; may-write summaries (unknown externals with &mut are writers except listed reference adapters); receive-buffer-only state out of scope per the property.',
      'static analysis: CFG dominance + interprocedural may-write effect summaries on borrowck-stage MIR', 'DESIGN.md 4/C07')

claim('C05', 'other',
      'Static SAME-VALUE / dominance analysis of Session::handle_rx on MIR: one reconstructed counter flows to MIC check, store and decryption; MIC key is the network session key; all effects behind the MIC-true edge; stale counter returns NoUpdate without effect; size test is len > window max_payload_len + 5 with the limit bound to the receiving window in both front-ends; complete writer set of fcnt_down; arithmetic post-condition of next_fcnt_down by abstract interpretation (when the absint clause is present in the evidence). Decides these structural clauses for all frames/histories; not MIC arithmetic, not completeness of the reconstruction.',
      'Trusted: rustc MIR construction; SAME-VALUE over single-assignment def chains; may-write summaries.',
      'static analysis: def-chain SAME-VALUE + CFG dominance + who-writes on MIR', 'DESIGN.md 4/C05')
claim('C06', 'other',
      'Static who-writes / shape / must-pass-through analysis: complete writer set of Session.fcnt_up with +1 shape and exhaustion guard (SessionExpired instead of wrap); prepare_buffer uses the full 32-bit counter; on every path of both front-ends between handing a frame to the radio and the next frame preparation an increment occurs - exits where it does not are enumerated individually (known findings: error exits of the async send chain, two nb Idle exits).',
      'Trusted: rustc MIR construction incl. coroutine bodies; await recognition (into_future/poll/yield pattern). External writes to the pub field fcnt_up are not analysed.',
      'static analysis: who-writes + forward may-dataflow (must-pass-through) over async and nb state-machine MIR', 'DESIGN.md 4/C06')
