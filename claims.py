# table of claims (read by gen_manifest.py)
NOT_APPLICABLE = {p: 'check under construction in this round (see DESIGN.md section 4 for the planned static rules)' for p in ['C%02d' % i for i in range(1, 21)]}
NOT_APPLICABLE['C17'] = ('numerical adequacy of fixed-point / mantissa-exponent encodings over 1e8-1e9 values: no sound static argument in reach '
                         'bounds the rounding error tightly enough; anything that could is evaluation, not static analysis (DESIGN.md section 6)')

claim('C07', 'other',
      'Static dominance/effect analysis on MIR: every persistent effect in the frame handlers (Session::handle_rx, Otaa::handle_rx, Mac::handle_rx/handle_rxc, delegated multicast handler) is dominated by the accepting edge; NoUpdate arms of both front-ends perform no effect and return the unchanged state. Decides the mechanism ("no persistent write before acceptance"), for all frames and histories; not 2-safety of all later behaviour.',
      'Trusted: rustc MIR construction; may-write summaries (unknown externals with &mut are writers except listed reference adapters); receive-buffer-only state out of scope per the property.',
      'static analysis: CFG dominance + interprocedural may-write effect summaries on borrowck-stage MIR', 'DESIGN.md 4/C07')
