#!/usr/bin/env python3
"""debug helper: dump.py <facts dir> <regex> — pretty-print matching bodies"""
import sys
from lrs import lir
p = lir.Program()
p.load_dir(sys.argv[1])
for b in p.find(sys.argv[2]):
    print(b.dump())
    print()
