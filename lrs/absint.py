"""absint: abstract interpretation of LIR (DESIGN 3.2).

Domain: integer values are linear expressions over symbols; the state carries interval bounds and small
finite value sets per symbol plus a set of linear constraints (`lin <= 0`, a zone-like relational part).
Aggregates (tuples, ADTs with variant sets, arrays), references to locals / symbolic objects and slice
references (base, offset, length) are tracked structurally. Calls to workspace functions are analysed
context-sensitively by inlining (bounded depth); selected core/heapless functions are modelled; everything
else havocs. Every panic-capable site met is recorded as an obligation, discharged iff the abstract state
implies it in every context in which the site was analysed.
"""
import os
import re
from .lir import strip_turbofish, strip_generics

INT_RANGES = {
    'u8': (0, 2**8 - 1), 'u16': (0, 2**16 - 1), 'u32': (0, 2**32 - 1), 'u64': (0, 2**64 - 1), 'u128': (0, 2**128 - 1),
    'usize': (0, 2**64 - 1),
    'i8': (-2**7, 2**7 - 1), 'i16': (-2**15, 2**15 - 1), 'i32': (-2**31, 2**31 - 1), 'i64': (-2**63, 2**63 - 1),
    'i128': (-2**127, 2**127 - 1), 'isize': (-2**63, 2**63 - 1),
    'char': (0, 0x10FFFF),
}
MAX_SET = 24


def is_int_ty(t):
    return t in INT_RANGES


# ---------------------------------------------------------------------------------- linear expressions
class Lin:
    __slots__ = ('co', 'k')

    def __init__(self, co=None, k=0):
        self.co = co or {}
        self.k = k

    @staticmethod
    def const(k):
        return Lin({}, k)

    @staticmethod
    def sym(s):
        return Lin({s: 1}, 0)

    def is_const(self):
        return not self.co

    def single(self):
        """(sym, coef) if exactly one symbol"""
        if len(self.co) == 1:
            (s, c), = self.co.items()
            return s, c
        return None

    def __add__(self, o):
        co = dict(self.co)
        for s, c in o.co.items():
            v = co.get(s, 0) + c
            if v:
                co[s] = v
            else:
                co.pop(s, None)
        return Lin(co, self.k + o.k)

    def __neg__(self):
        return Lin({s: -c for s, c in self.co.items()}, -self.k)

    def __sub__(self, o):
        return self + (-o)

    def scale(self, n):
        if n == 0:
            return Lin.const(0)
        return Lin({s: c * n for s, c in self.co.items()}, self.k * n)

    def addk(self, n):
        return Lin(self.co, self.k + n)

    def key(self):
        return (tuple(sorted(self.co.items())), self.k)

    def __eq__(self, o):
        return isinstance(o, Lin) and self.co == o.co and self.k == o.k

    def __hash__(self):
        return hash(self.key())

    def __repr__(self):
        parts = []
        for s, c in sorted(self.co.items()):
            parts.append(('%s' % s) if c == 1 else ('%d*%s' % (c, s)))
        if self.k or not parts:
            parts.append(str(self.k))
        return ' + '.join(parts)


# ---------------------------------------------------------------------------------- values
TOP = ('top',)


def V_int(lin):
    return ('int', lin)


def V_const(k):
    return ('int', Lin.const(k))


def V_bool(cond):
    return ('bool', cond)


B_UNK = ('unk',)


def cond_not(c):
    if c[0] == 'const':
        return ('const', not c[1])
    if c[0] == 'not':
        return c[1]
    if c[0] == 'cmp':
        inv = {'Lt': 'Ge', 'Ge': 'Lt', 'Le': 'Gt', 'Gt': 'Le', 'Eq': 'Ne', 'Ne': 'Eq'}
        return ('cmp', inv[c[1]], c[2], c[3])
    if c[0] == 'unk':
        return c
    return ('not', c)


class Obligation:
    __slots__ = ('fn', 'kind', 'desc', 'span', 'ok', 'bad', 'detail', 'ord', 'bad_entries', 'details', 'subsumed')

    def __init__(self, fn, kind, desc, span):
        self.fn = fn
        self.kind = kind
        self.desc = desc
        self.span = span
        self.ok = 0
        self.bad = 0
        self.detail = None
        self.ord = 0
        self.bad_entries = {}
        self.details = []
        self.subsumed = 0

    def key(self):
        return '%s:%s:%s#%d' % (self.fn, self.kind, self.desc, self.ord)


class Infeasible(Exception):
    pass


class State:
    __slots__ = ('env', 'mem', 'lo', 'hi', 'sets', 'cons', 'dead')

    def __init__(self):
        self.env = {}     # (frame, local) -> value
        self.mem = {}     # object path tuple -> value
        self.lo = {}
        self.hi = {}
        self.sets = {}
        self.cons = set()  # Lin meaning lin <= 0
        self.dead = False

    def copy(self):
        s = State()
        s.env = dict(self.env)
        s.mem = dict(self.mem)
        s.lo = dict(self.lo)
        s.hi = dict(self.hi)
        s.sets = dict(self.sets)
        s.cons = set(self.cons)
        return s

    # ---- bounds
    def lb(self, lin):
        t = lin.k
        for s, c in lin.co.items():
            b = self.lo.get(s) if c > 0 else self.hi.get(s)
            if b is None:
                return None
            t += c * b
        return t

    def ub(self, lin):
        t = lin.k
        for s, c in lin.co.items():
            b = self.hi.get(s) if c > 0 else self.lo.get(s)
            if b is None:
                return None
            t += c * b
        return t

    def values(self, lin):
        """finite set of possible values or None"""
        if lin.is_const():
            return frozenset([lin.k])
        sg = lin.single()
        if sg:
            s, c = sg
            st = self.sets.get(s)
            if st is None:
                lo, hi = self.lo.get(s), self.hi.get(s)
                if lo is not None and hi is not None and hi - lo < MAX_SET:
                    st = frozenset(range(lo, hi + 1))
            if st is not None:
                return frozenset(c * v + lin.k for v in st)
        return None

    def set_bounds(self, s, lo, hi):
        if lo is not None:
            old = self.lo.get(s)
            if old is None or lo > old:
                self.lo[s] = lo
        if hi is not None:
            old = self.hi.get(s)
            if old is None or hi < old:
                self.hi[s] = hi
        st = self.sets.get(s)
        if st is not None:
            l2, h2 = self.lo.get(s), self.hi.get(s)
            st = frozenset(v for v in st if (l2 is None or v >= l2) and (h2 is None or v <= h2))
            if not st:
                raise Infeasible()
            self.sets[s] = st
            self.lo[s] = min(st)
            self.hi[s] = max(st)
        l2, h2 = self.lo.get(s), self.hi.get(s)
        if l2 is not None and h2 is not None and l2 > h2:
            raise Infeasible()

    # ---- proving
    def prove_le0(self, lin, fast=False):
        u = self.ub(lin)
        if u is not None and u <= 0:
            return True
        if lin.is_const():
            return False
        cons = [c for c in self.cons if any(s in lin.co for s in c.co)]
        for c in cons:
            u = self.ub(lin - c)
            if u is not None and u <= 0:
                return True
        if fast:
            return False
        # scaled combinations: lin - k*c (k > 1 chosen so that a shared symbol cancels), then one more constraint the same way
        def scaled(l_, c_, least=2):
            for s_, a_ in l_.co.items():
                b_ = c_.co.get(s_)
                if b_ and (a_ > 0) == (b_ > 0) and a_ % b_ == 0 and a_ // b_ >= least:
                    return c_.scale(a_ // b_)
            return None
        if len(self.cons) <= 60:
            for c in cons:
                for ck in (scaled(lin, c), c):
                    if ck is None:
                        continue
                    d1 = lin - ck
                    if ck is not c:
                        u = self.ub(d1)
                        if u is not None and u <= 0:
                            return True
                    for c2 in self.cons:
                        if c2 is c or not any(s in d1.co for s in c2.co):
                            continue
                        c2k = scaled(d1, c2, 1 if ck is not c else 2)
                        if c2k is None:
                            continue
                        u = self.ub(d1 - c2k)
                        if u is not None and u <= 0:
                            return True
        n = len(cons)
        if n <= 40:
            for i in range(n):
                d1 = lin - cons[i]
                for j in range(i, n):
                    u = self.ub(d1 - cons[j])
                    if u is not None and u <= 0:
                        return True
        # two-step: constraints sharing symbols with a first-level remainder
        if len(self.cons) > 120:
            return False
        for c in cons:
            d1 = lin - c
            for c2 in self.cons:
                if c2 is c or not any(s in d1.co for s in c2.co):
                    continue
                u = self.ub(d1 - c2)
                if u is not None and u <= 0:
                    return True
        return False

    def prove_cmp(self, op, a, b):
        if op == 'Lt':
            return self.prove_le0(a - b + Lin.const(1))
        if op == 'Le':
            return self.prove_le0(a - b)
        if op == 'Gt':
            return self.prove_le0(b - a + Lin.const(1))
        if op == 'Ge':
            return self.prove_le0(b - a)
        if op == 'Eq':
            return self.prove_le0(a - b) and self.prove_le0(b - a)
        if op == 'Ne':
            if self.prove_le0(a - b + Lin.const(1)) or self.prove_le0(b - a + Lin.const(1)):
                return True
            va = self.values(a - b)
            return va is not None and 0 not in va
        return False

    def add_con(self, lin):
        """assume lin <= 0"""
        if lin.is_const():
            if lin.k > 0:
                raise Infeasible()
            return
        sg = lin.single()
        if sg:
            s, c = sg
            # c*s + k <= 0
            if c > 0:
                self.set_bounds(s, None, (-lin.k) // c)
            else:
                # s >= ceil(k / -c)
                self.set_bounds(s, -((-lin.k) // (-c)) if False else _ceil_div(lin.k, -c), None)
            return
        l = self.lb(lin)
        if l is not None and l > 0:
            raise Infeasible()
        self.cons.add(lin)
        # derive simple bounds for symbols with known other-side bounds
        for s, c in lin.co.items():
            rest = Lin({x: y for x, y in lin.co.items() if x != s}, lin.k)
            rl = self.lb(rest)
            if rl is not None:
                # c*s + rest <= 0  =>  c*s <= -rl
                if c > 0:
                    self.set_bounds(s, None, (-rl) // c)
                else:
                    self.set_bounds(s, _ceil_div(rl, -c), None)

    def apply_fact(self, f):
        if isinstance(f, Lin):
            self.add_con(f)
        elif f[0] == 'inset':
            s_, vals = f[1], f[2]
            cur = self.sets.get(s_)
            lo, hi = self.lo.get(s_), self.hi.get(s_)
            vals = frozenset(v for v in vals if (lo is None or v >= lo) and (hi is None or v <= hi))
            if cur is not None:
                vals = vals & cur
            if not vals:
                raise Infeasible()
            self.sets[s_] = vals
            self.lo[s_] = min(vals)
            self.hi[s_] = max(vals)

    def assume(self, cond):
        k = cond[0]
        if k == 'const':
            if not cond[1]:
                raise Infeasible()
            return
        if k == 'cmp':
            op, a, b = cond[1], cond[2], cond[3]
            if op == 'Lt':
                self.add_con(a - b + Lin.const(1))
            elif op == 'Le':
                self.add_con(a - b)
            elif op == 'Gt':
                self.add_con(b - a + Lin.const(1))
            elif op == 'Ge':
                self.add_con(b - a)
            elif op == 'Eq':
                self.add_con(a - b)
                self.add_con(b - a)
            elif op == 'Ne':
                d = a - b
                sg = d.single()
                if sg and abs(sg[1]) == 1:
                    s, c = sg
                    # c*s + k != 0  => s != -k/c
                    v = -d.k * c
                    st = self.sets.get(s)
                    if st is None:
                        lo, hi = self.lo.get(s), self.hi.get(s)
                        if lo is not None and hi is not None and hi - lo < MAX_SET:
                            st = frozenset(range(lo, hi + 1))
                    if st is not None:
                        st = st - {v}
                        if not st:
                            raise Infeasible()
                        self.sets[s] = st
                        self.lo[s] = min(st)
                        self.hi[s] = max(st)
                    else:
                        if self.lo.get(s) == v:
                            self.set_bounds(s, v + 1, None)
                        if self.hi.get(s) == v:
                            self.set_bounds(s, None, v - 1)
                elif d.is_const() and d.k == 0:
                    raise Infeasible()
                else:
                    # a != b together with a known a <= b (or b <= a) is the strict inequality
                    try:
                        if self.prove_le0(d, fast=True):
                            self.add_con(d + Lin.const(1))
                        elif self.prove_le0(Lin.const(0) - d, fast=True):
                            self.add_con(Lin.const(1) - d)
                    except Infeasible:
                        raise
                    except Exception:
                        pass
            return
        if k == 'and':
            self.assume(cond[1])
            self.assume(cond[2])
            return
        if k == 'not':
            inner = cond[1]
            if inner[0] == 'and':
                return  # disjunction: no refinement
            return
        return


def _ceil_div(a, b):
    return -((-a) // b)


def syms_of_value(v, out):
    """collect symbols referenced by an abstract value"""
    if not isinstance(v, tuple):
        if isinstance(v, Lin):
            out.update(v.co)
        elif isinstance(v, dict):
            for x in v.values():
                syms_of_value(x, out)
        elif isinstance(v, frozenset):
            for y in v:
                if isinstance(y, Lin):
                    out.update(y.co)
                elif isinstance(y, tuple) and y and y[0] == 'inset':
                    out.add(y[1])
        return
    for x in v:
        if isinstance(x, Lin):
            out.update(x.co)
        elif isinstance(x, (tuple, dict)):
            syms_of_value(x, out)
        elif isinstance(x, frozenset):
            for y in x:
                if isinstance(y, Lin):
                    out.update(y.co)
                elif isinstance(y, tuple) and y and y[0] == 'inset':
                    out.add(y[1])


_INPUT_SYM = re.compile(r'^(p\d+_|G:)')


def gc_state(st):
    """drop bounds / sets / constraints of symbols no longer referenced by any value (sound weakening)"""
    live = set()
    for v in st.env.values():
        syms_of_value(v, live)
    for k, v in st.mem.items():
        syms_of_value(v, live)
        syms_of_value(k, live)
    # constraints keep symbols alive only if all their symbols are live; one-step closure: a constraint over live
    # symbols only is kept
    # symbols naming the entry's inputs (lazily materialised, deterministic names) and const generics stay alive
    def keep(x):
        return x in live or _INPUT_SYM.match(x) is not None
    st.cons = {c for c in st.cons if all(keep(x) for x in c.co)}
    for d in (st.lo, st.hi, st.sets):
        for k in [k for k in d if not keep(k)]:
            del d[k]


# ---------------------------------------------------------------------------------- join
class Joiner:
    def __init__(self, an, frame, bb):
        self.an = an
        self.frame = frame
        self.bb = bb
        self.cnt = 0

    def phi_sym(self, tag):
        return 'phi(%s,bb%d,%s)' % (self.frame, self.bb, tag)


def join_states(an, a, b, frame, bb, widen=False):
    """join b into a (returns new state, changed flag relative to a)"""
    if a is None:
        return b.copy(), True
    gc_state(b)
    r = State()
    changed = False
    # symbols
    syms = set(a.lo) | set(a.hi) | set(b.lo) | set(b.hi)
    for s in syms:
        ina = s in a.lo or s in a.hi
        inb = s in b.lo or s in b.hi
        if ina and inb:
            la, lb_ = a.lo.get(s), b.lo.get(s)
            ha, hb = a.hi.get(s), b.hi.get(s)
            lo = None if la is None or lb_ is None else min(la, lb_)
            hi = None if ha is None or hb is None else max(ha, hb)
            if widen:
                if lo != la:
                    lo = None if la is None else _widen_lo(an, s, lo)
                if hi != ha:
                    hi = None if ha is None else _widen_hi(an, s, hi)
            if lo != la or hi != ha:
                changed = True
                if os.environ.get('LRS_DBG_JOIN'):
                    print('   bounds-change bb%s %s: [%s,%s] -> [%s,%s] widen=%s' % (bb, s, la, ha, lo, hi, widen))
            if lo is not None:
                r.lo[s] = lo
            if hi is not None:
                r.hi[s] = hi
            sa, sb = a.sets.get(s), b.sets.get(s)
            if sa is None and la is not None and la == ha:
                sa = frozenset([la])
            if sb is None and lb_ is not None and lb_ == hb:
                sb = frozenset([lb_])
            if sa is not None and sb is not None and len(sa | sb) <= MAX_SET and not widen:
                r.sets[s] = sa | sb
        else:
            src = a if ina else b
            if s in src.lo:
                r.lo[s] = src.lo[s]
            if s in src.hi:
                r.hi[s] = src.hi[s]
            if s in src.sets:
                r.sets[s] = src.sets[s]
    # values
    ctr = [0]

    dbg = os.environ.get('LRS_DBG_JOIN')

    def jv(x, y, tag):
        nonlocal changed
        if x == y:
            return x
        if dbg:
            c0 = changed
            r_ = jv2(x, y, tag)
            if changed and not c0:
                print('   join-change bb%s %s: %s | %s' % (bb, tag, str(x)[:80], str(y)[:80]))
            elif dbg == '2' and r_ != x and x[0] not in ('adt', 'array', 'tuple'):
                print('   join-diff bb%s %s: %s | %s -> %s' % (bb, tag, str(x)[:120], str(y)[:120], str(r_)[:120]))
            return r_
        return jv2(x, y, tag)

    def jv2(x, y, tag):
        nonlocal changed
        if x == y:
            return x
        if x is None or y is None:
            return None
        kx, ky = x[0], y[0]
        if kx == 'int' and ky == 'int':
            s = 'phi(%s,bb%d,%s)' % (frame, bb, tag)
            la, lb_ = a.lb(x[1]), b.lb(y[1])
            ha, hb = a.ub(x[1]), b.ub(y[1])
            lo = None if la is None or lb_ is None else min(la, lb_)
            hi = None if ha is None or hb is None else max(ha, hb)
            va, vb = a.values(x[1]), b.values(y[1])
            # already this phi on the a-side: compare with existing bounds (loop re-join)
            if x[1] == Lin.sym(s):
                ola, oha = a.lo.get(s), a.hi.get(s)
                if widen:
                    if lo != ola:
                        lo = None if ola is None else _widen_lo(an, s, lo)
                    if hi != oha:
                        hi = None if oha is None else _widen_hi(an, s, hi)
                if lo != ola or hi != oha:
                    changed = True
            else:
                changed = True
            r.lo.pop(s, None)
            r.hi.pop(s, None)
            r.sets.pop(s, None)
            if lo is not None:
                r.lo[s] = lo
            if hi is not None:
                r.hi[s] = hi
            if va is not None and vb is not None and len(va | vb) <= MAX_SET and not widen:
                r.sets[s] = va | vb
            # relational facts about the phi: keep constraints c(x) that hold for both inputs
            r_phi_rel.append((s, x[1], y[1]) + ctx[-1])
            # bit-level definition of the merged value (bits equal on both sides stay known); a phi that is re-joined with
            # itself (loop head) stands for more values than its first two inputs: no definition
            bd = getattr(an, 'bitdef', None)
            if bd is not None:
                poison = an.__dict__.setdefault('_bitdef_poison', set())
                if x[1] == Lin.sym(s) or y[1] == Lin.sym(s) or s in x[1].co or s in y[1].co:
                    bd.pop(s, None)
                    poison.add(s)
                elif s not in poison:
                    if s in bd and bd[s] != ('join', x[1], y[1], None):
                        bd.pop(s, None)
                        poison.add(s)
                    else:
                        bd[s] = ('join', x[1], y[1], None)
            return ('int', Lin.sym(s))
        if kx == 'bool' and ky == 'bool':
            changed = True
            return ('bool', B_UNK)
        if kx == ky == 'tuple' and len(x[1]) == len(y[1]):
            return ('tuple', tuple(jv(p, q, '%s.%d' % (tag, i)) or TOP for i, (p, q) in enumerate(zip(x[1], y[1]))))
        if kx == ky == 'adt' and x[1] == y[1]:
            va_, vb_ = x[2], y[2]
            vs = None if va_ is None or vb_ is None else (va_ | vb_)
            if vs != va_:
                changed = True
            guards = {}
            gx = x[6][1] if len(x) > 6 and x[6] is not None and x[6][0] == 'guard' else {}
            gy = y[6][1] if len(y) > 6 and y[6] is not None and y[6][0] == 'guard' else {}
            if va_ is not None and vb_ is not None:
                for v_ in (va_ | vb_):
                    ina_, inb_ = v_ in va_, v_ in vb_
                    ca_, cb_ = ctx[-1][0], ctx[-1][1]
                    if ina_ and not inb_:
                        # facts of side a hold whenever the value has variant v_ (incl. the guards of the enclosing variants)
                        guards[v_] = ('A', (gx.get(v_) or frozenset()) | ca_)
                    elif inb_ and not ina_:
                        guards[v_] = ('B', (gy.get(v_) or frozenset()) | cb_)
                    else:
                        # present on both sides: the facts of this variant are those that hold on both sides (each side: what
                        # its state knows beyond the join result, plus its own guard for the variant)
                        guards[v_] = ('AB', ((gx.get(v_) or frozenset()) | ca_, (gy.get(v_) or frozenset()) | cb_))
            pending_guards.append((tag, guards))
            fl = {}
            for k in set(x[3]) | set(y[3]):
                p, q = x[3].get(k), y[3].get(k)
                if p is None or q is None:
                    # field known on one side only (other side has a different variant): keep if the variant
                    # is excluded on the side lacking it
                    side_lacking = y if p is not None else x
                    if side_lacking[2] is not None and k[0] not in side_lacking[2]:
                        fl[k] = p if p is not None else q
                    else:
                        # explicit on one side, still lazily-unknown on the other: materialise the original value
                        # (deterministic name) for the lacking side and join; otherwise the join is unknown and must
                        # not be re-materialised under the original name
                        lack, lack_st = (y, b) if p is not None else (x, a)
                        orig = None
                        if len(lack) > 5 and lack[4] is not None:
                            fty = an.adt_field_ty(lack[1], list(lack[5]), k[0], k[1])
                            if fty in INT_RANGES or fty == 'bool' or (fty and parse_ty(fty)[0] in ('adt', 'tuple', 'array')):
                                single = lack[2] == frozenset([0]) and lack[1] not in ('core::option::Option', 'core::result::Result')
                                orig = an.materialize(fty, '%s.%s%s' % (lack[4], '' if single else 'v%d.' % k[0], k[1]), lack_st, None)
                                late_syms.append(orig)
                        if orig is not None:
                            v = jv(p if p is not None else orig, q if q is not None else orig, '%s.%s.%s' % (tag, k[0], k[1]))
                            fl[k] = v if v is not None else TOP
                        else:
                            fl[k] = TOP
                    continue
                ctx.append((ctx[-1][0] | (gx.get(k[0]) or frozenset()), ctx[-1][1] | (gy.get(k[0]) or frozenset()), ctx[-1][2] or (tag, k[0])))
                try:
                    v = jv(p, q, '%s.%s.%s' % (tag, k[0], k[1]))
                finally:
                    ctx.pop()
                if v is not None:
                    fl[k] = v
            nm_ = x[4] if len(x) > 4 and len(y) > 4 and x[4] == y[4] else None
            ta_ = x[5] if len(x) > 5 and len(y) > 5 and x[5] == y[5] else ()
            return ('adt', x[1], vs, fl, nm_, ta_, ('guardref', tag))
        if kx == ky == 'sref' and x[1] == y[1]:
            off = jv(('int', x[2]), ('int', y[2]), tag + '.off')
            ln = jv(('int', x[3]), ('int', y[3]), tag + '.len')
            return ('sref', x[1], off[1], ln[1])
        if kx == ky == 'sref':
            # slices of different objects: an opaque phi object that remembers its sources (a write through it
            # weakly updates every source; its own element knowledge starts empty)
            def srcs(bs):
                return list(bs[2]) if bs[0] == 'P' else [bs]
            ss = []
            for z in srcs(x[1]) + srcs(y[1]):
                if z not in ss:
                    ss.append(z)
            if len(ss) <= 6:
                nm = 'phi(%s,bb%d,%s)*' % (frame, bb, tag)
                base = ('P', nm, tuple(ss))
                if x[1] != base:
                    changed = True
                phi_objs.add(nm)
                ln = jv(('int', x[3]), ('int', y[3]), tag + '.len')
                return ('sref', base, Lin.const(0), ln[1])
        if kx == ky == 'array' and x[1] == y[1]:
            el = {}
            for k in set(x[2]) & set(y[2]):
                v = jv(x[2][k], y[2][k], '%s[%s]' % (tag, k))
                if v is not None:
                    el[k] = v
            d = jv(x[3], y[3], tag + '[*]') if x[3] is not None and y[3] is not None else None
            nm_ = x[4] if len(x) > 4 and len(y) > 4 and x[4] == y[4] and x[3] is None and y[3] is None else None
            ety_ = x[5] if len(x) > 5 else (y[5] if len(y) > 5 else None)
            if nm_ is not None:
                for k in set(x[2]) ^ set(y[2]):
                    el[k] = TOP
            return ('array', x[1], el, d, nm_, ety_)
        if kx in ('closure', 'anyof') and ky in ('closure', 'anyof'):
            alts = list(x[1]) if kx == 'anyof' else [x]
            for z in (list(y[1]) if ky == 'anyof' else [y]):
                if z not in alts:
                    alts.append(z)
            if len(alts) <= 8:
                return ('anyof', tuple(alts))
        if kx == ky == 'iter' and x[1] == y[1]:
            return x
        if kx == ky == 'hvec' and x[1] == y[1]:
            ln = jv(('int', x[2]), ('int', y[2]), tag + '.hvlen')
            return ('hvec', x[1], ln[1], x[3])
        changed = True
        return TOP

    r_phi_rel = []
    phi_objs = set()
    pending_guards = []
    late_syms = []
    ctx = [(frozenset(), frozenset(), None)]     # guard facts of the enclosing variants on side a / side b, owner (tag, variant)
    for k in set(a.env) & set(b.env):
        v = jv(a.env[k], b.env[k], 'f%s_%d' % (k[0], k[1]))
        if v is not None:
            r.env[k] = v
    if set(a.env) - set(b.env):
        changed = True
        if os.environ.get('LRS_DBG_JOIN'):
            print('   env-keys-change bb%s %s' % (bb, sorted(set(a.env) - set(b.env))[:5]))
    for k in set(a.mem) & set(b.mem):
        if k[0] == 'el' and k[1][0] == 'P' and k[1][1] in phi_objs:
            continue
        v = jv(a.mem[k], b.mem[k], 'm' + '.'.join(map(str, k)))
        if v is not None:
            r.mem[k] = v
    if set(a.mem) - set(b.mem):
        # memoised reads present on one side only are dropped (re-materialised on demand)
        pass
    # constraints: keep those valid in both
    for c in a.cons:
        if c in b.cons or b.prove_le0(c, fast=True):
            r.cons.add(c)
        else:
            changed = True
            if os.environ.get('LRS_DBG_JOIN'):
                print('   cons-drop bb%s %r' % (bb, c))
    if not widen:
        for c in b.cons:
            if c not in a.cons and a.prove_le0(c, fast=True):
                r.cons.add(c)
    # relational facts on fresh phis: for each constraint of a mentioning the a-input (as lin_a + rest <= 0 form is
    # hard in general) we only transfer facts of the shape  x - e <= k  where e is a symbol-expression common to both
    diff_syms = [x for x in (set(a.lo) | set(a.hi)) & (set(b.lo) | set(b.hi))
                 if (a.lo.get(x) != b.lo.get(x) or a.hi.get(x) != b.hi.get(x)) and not x.startswith('phi(')][:40] if r_phi_rel and not widen else []
    ctx_states = {}
    guard_extra = {}

    def with_facts(st_, facts, key):
        if not facts:
            return st_
        k_ = (key, facts)
        if k_ not in ctx_states:
            s2_ = st_.copy()
            try:
                for f_ in facts:
                    s2_.apply_fact(f_)
            except Infeasible:
                s2_ = None
            ctx_states[k_] = s2_
        return ctx_states[k_]
    for ent in (r_phi_rel if not widen else []):
        (s, la_, lb_) = ent[:3]
        ca_, cb_, owner = ent[3:] if len(ent) > 3 else (frozenset(), frozenset(), None)
        sa_, sb_ = with_facts(a, ca_, 'a'), with_facts(b, cb_, 'b')
        if sa_ is None or sb_ is None:
            continue
        ps = Lin.sym(s)
        cands = set()
        for st, lin in ((sa_, la_), (sb_, lb_)):
            for c in st.cons:
                # c = lin*m + rest  (m = 1)
                d = c - lin
                if all(x not in d.co for x in lin.co):
                    cands.add(d)   # fact: lin + d <= 0
        for d in cands:
            if sa_.prove_le0(la_ + d, fast=True) and sb_.prove_le0(lb_ + d, fast=True):
                if (ca_ or cb_) and owner is not None:
                    # established under the guards of the enclosing variant: the fact belongs to that guard
                    guard_extra.setdefault(owner, set()).add(ps + d)
                elif not (ca_ or cb_):
                    r.cons.add(ps + d)
        # interval-only relations that the join would lose: phi <= x / x <= phi for symbols x whose bounds differ
        if ca_ or cb_:
            dsy = [x for x in (set(sa_.lo) | set(sa_.hi)) & (set(sb_.lo) | set(sb_.hi))
                   if (sa_.lo.get(x) != sb_.lo.get(x) or sa_.hi.get(x) != sb_.hi.get(x)) and not x.startswith('phi(')][:40]
        else:
            dsy = diff_syms
        for x in dsy:
            lx = Lin.sym(x)
            ua, ub_ = sa_.ub(la_ - lx), sb_.ub(lb_ - lx)
            if ua is not None and ub_ is not None and ua <= 0 and ub_ <= 0:
                if (ca_ or cb_) and owner is not None:
                    guard_extra.setdefault(owner, set()).add(ps - lx)
                elif not (ca_ or cb_):
                    r.cons.add(ps - lx)
            ua, ub_ = sa_.ub(lx - la_), sb_.ub(lx - lb_)
            if ua is not None and ub_ is not None and ua <= 0 and ub_ <= 0:
                if (ca_ or cb_) and owner is not None:
                    guard_extra.setdefault(owner, set()).add(lx - ps)
                elif not (ca_ or cb_):
                    r.cons.add(lx - ps)
    # symbols materialised during the join: bounds from the side states
    for v_ in late_syms:
        sy_ = set()
        syms_of_value(v_, sy_)
        for s_ in sy_:
            if s_ in r.lo or s_ in r.hi:
                continue
            for st_ in (a, b):
                if s_ in st_.lo and (s_ not in r.lo or st_.lo[s_] < r.lo[s_]):
                    r.lo[s_] = st_.lo[s_]
                if s_ in st_.hi and (s_ not in r.hi or st_.hi[s_] > r.hi[s_]):
                    r.hi[s_] = st_.hi[s_]
    if pending_guards:
        _resolve_guards(r, a, b, pending_guards, guard_extra, widen)
    gc_state(r)
    gc_state(a)
    changed = not (r.env == a.env and r.mem == a.mem and r.lo == a.lo and r.hi == a.hi and r.sets == a.sets and r.cons == a.cons)
    if changed and dbg:
        why = []
        if r.env != a.env:
            why.append('env:%s' % [k for k in set(r.env) | set(a.env) if r.env.get(k) != a.env.get(k)][:4])
            if dbg == '2':
                def _d(p_, u, v):
                    if u == v:
                        return
                    if isinstance(u, tuple) and isinstance(v, tuple) and len(u) == len(v):
                        for i_, (m_, n_) in enumerate(zip(u, v)):
                            _d(p_ + '.%d' % i_, m_, n_)
                    elif isinstance(u, dict) and isinstance(v, dict):
                        for k_ in set(u) | set(v):
                            _d(p_ + '{%s}' % (k_,), u.get(k_), v.get(k_))
                    else:
                        print('      env-diff %s: %s  ->  %s' % (p_, str(u)[:150], str(v)[:150]))
                for k in set(r.env) | set(a.env):
                    _d(str(k), a.env.get(k), r.env.get(k))
        if r.lo != a.lo or r.hi != a.hi:
            why.append('bounds:%s' % [(k, a.lo.get(k), a.hi.get(k), r.lo.get(k), r.hi.get(k)) for k in set(r.lo) | set(a.lo) | set(r.hi) | set(a.hi)
                                       if r.lo.get(k) != a.lo.get(k) or r.hi.get(k) != a.hi.get(k)][:4])
        if r.cons != a.cons:
            why.append('cons:-%s +%s' % (list(a.cons - r.cons)[:3], list(r.cons - a.cons)[:3]))
        if r.sets != a.sets:
            why.append('sets')
        if r.mem != a.mem:
            why.append('mem:%s' % [k for k in set(r.mem) | set(a.mem) if r.mem.get(k) != a.mem.get(k)][:3])
        print('   CHANGED bb%s widen=%s %s' % (bb, widen, '; '.join(why)))
    return r, changed


def _side_facts(side, r):
    """constraints that hold in `side` but are not retained in the join result r (as a frozenset of Lin <= 0)"""
    out = set()
    for c in side.cons:
        if c not in r.cons:
            out.add(c)
    for s_, hi in side.hi.items():
        rh = r.hi.get(s_)
        if (rh is None or hi < rh) and (s_ in r.lo or s_ in r.hi):
            out.add(Lin({s_: 1}, -hi))
    for s_, lo in side.lo.items():
        rl = r.lo.get(s_)
        if (rl is None or lo > rl) and (s_ in r.lo or s_ in r.hi):
            out.add(Lin({s_: -1}, lo))
    if len(out) > 80:
        out = set(sorted(out, key=lambda l: l.key())[:80])
    for s_, st_ in side.sets.items():
        if r.sets.get(s_) != st_ and (s_ in r.lo or s_ in r.hi):
            out.add(('inset', s_, st_))
    # point values that became intervals
    for s_, lo in side.lo.items():
        if side.hi.get(s_) == lo and s_ not in side.sets and (r.lo.get(s_) != lo or r.hi.get(s_) != lo) and (s_ in r.lo or s_ in r.hi):
            out.add(('inset', s_, frozenset([lo])))
    return frozenset(out)


def _with_facts(st_, facts):
    if not facts:
        return st_
    s2_ = st_.copy()
    try:
        for f_ in facts:
            s2_.apply_fact(f_)
    except Infeasible:
        return None
    return s2_


def _resolve_guards(r, a, b, pending, extra=None, widen=False):
    fa = fb = None
    table = {}
    for tag, guards in pending:
        g = {}
        for v_, (side, old) in guards.items():
            if side == 'A':
                if fa is None:
                    fa = _side_facts(a, r)
                facts = fa | (old or frozenset())
            elif side == 'B':
                if fb is None:
                    fb = _side_facts(b, r)
                facts = fb | (old or frozenset())
            elif side == 'AB':
                if fa is None:
                    fa = _side_facts(a, r)
                if fb is None:
                    fb = _side_facts(b, r)
                FA = fa | (old[0] or frozenset())
                FB = fb | (old[1] or frozenset())
                if widen:
                    # widening join at a loop head (a = the previous head state): the guard may only lose facts, so that the
                    # chain of guards is descending - a fact with a constant that moves every iteration must not be re-derived
                    FA = old[0] or frozenset()
                    FB = frozenset(x for x in FB if x in FA)
                keep = set(FA & FB)
                sa_, sb_ = _with_facts(a, old[0]), _with_facts(b, old[1])
                for f_, other in [(x, sb_) for x in FA - FB] + ([] if widen else [(x, sa_) for x in FB - FA]):
                    if isinstance(f_, Lin) and other is not None:
                        try:
                            if other.prove_le0(f_, fast=True):
                                keep.add(f_)
                        except Exception:
                            pass
                facts = frozenset(keep)
            else:
                facts = old
            ex_ = (extra or {}).get((tag, v_))
            if ex_ and widen and side == 'AB':
                ex_ = [x for x in ex_ if x in (old[0] or frozenset())]
            if ex_:
                facts = frozenset(facts or ()) | frozenset(ex_)
            if facts:
                g[v_] = facts
        table[tag] = g

    def fix(v):
        if not isinstance(v, tuple):
            return v
        if v and v[0] == 'adt':
            fl = {k: fix(x) for k, x in v[3].items()}
            tagv = v[6] if len(v) > 6 else None
            if tagv is not None and tagv[0] == 'guardref':
                g = table.get(tagv[1])
                tagv = ('guard', g) if g else None
            return ('adt', v[1], v[2], fl) + tuple(v[4:6]) + (tagv,) if len(v) > 4 else ('adt', v[1], v[2], fl)
        if v and v[0] == 'tuple':
            return ('tuple', tuple(fix(x) for x in v[1]))
        return v
    for k in list(r.env):
        r.env[k] = fix(r.env[k])
    for k in list(r.mem):
        r.mem[k] = fix(r.mem[k])


def _widen_lo(an, s, lo):
    for t in sorted(an.wthresholds, reverse=True):
        if lo is not None and t <= lo:
            return t
    return None


def _widen_hi(an, s, hi):
    for t in sorted(an.wthresholds):
        if hi is not None and t >= hi:
            return t
    return None


# ---------------------------------------------------------------------------------- type helpers
def parse_array_ty(ty):
    """'[u8; 16]' -> ('u8', '16')"""
    if ty.startswith('[') and ty.endswith(']') and ';' in ty:
        i = ty.rfind(';')
        return ty[1:i].strip(), ty[i + 1:-1].strip()
    return None


def strip_ref(ty):
    if ty.startswith('&mut '):
        return ty[5:]
    if ty.startswith('&'):
        return ty[1:]
    return None


def split_generic_args(s):
    out = []
    depth = 0
    cur = ''
    for ch in s:
        if ch in '<([':
            depth += 1
        elif ch in '>)]':
            depth -= 1
        if ch == ',' and depth == 0:
            out.append(cur.strip())
            cur = ''
        else:
            cur += ch
    if cur.strip():
        out.append(cur.strip())
    return out


def adt_head_and_args(ty):
    i = ty.find('<')
    if i < 0 or not ty.endswith('>'):
        return ty, []
    return ty[:i], split_generic_args(ty[i + 1:-1])


# ---------------------------------------------------------------------------------- type strings
def parse_ty(ty):
    """returns a small AST: ('int', name) | ('bool',) | ('ref', mut, inner) | ('slice', elem) | ('array', elem, n)
    | ('tuple', [..]) | ('adt', head, [args]) | ('str',) | ('other', ty)"""
    ty = ty.strip()
    if ty in INT_RANGES:
        return ('int', ty)
    if ty == 'bool':
        return ('bool',)
    if ty == 'str':
        return ('str',)
    if ty == '()':
        return ('tuple', [])
    if ty.startswith('&'):
        rest = ty[1:].lstrip()
        if rest.startswith("'"):
            # lifetime
            j = rest.find(' ')
            rest = rest[j + 1:] if j > 0 else rest
        mut = False
        if rest.startswith('mut '):
            mut = True
            rest = rest[4:]
        return ('ref', mut, parse_ty(rest))
    if ty.startswith('*const ') or ty.startswith('*mut '):
        return ('other', ty)
    if ty.startswith('['):
        a = parse_array_ty(ty)
        if a:
            return ('array', parse_ty(a[0]), a[1])
        if ty.endswith(']'):
            return ('slice', parse_ty(ty[1:-1]))
    if ty.startswith('(') and ty.endswith(')'):
        return ('tuple', [parse_ty(x) for x in split_generic_args(ty[1:-1])])
    if ty.startswith('closure:') or ty.startswith('coroutine:') or ty.startswith('fndef:'):
        return ('other', ty)
    head, args = adt_head_and_args(ty)
    if re.match(r'^[A-Za-z_][A-Za-z0-9_:]*$', head) and '::' in head:
        return ('adt', head, args)
    return ('other', ty)


class Frame:
    _n = 0

    def __init__(self, body, subst, depth, parent=None, site=None):
        Frame._n += 1
        self.id = Frame._n
        self.body = body
        self.subst = subst
        self.depth = depth
        self.parent = parent
        self.site = site

    def chain(self):
        c = []
        f = self
        while f is not None:
            c.append(f.body.path)
            f = f.parent
        return c


class Analyzer:
    def __init__(self, prog, max_depth=7, invariants=None, assume_fn=None):
        from .cfg import CFG
        self.CFG = CFG
        self.prog = prog
        self.max_depth = max_depth
        self.obl = {}
        self.thresholds = {0, 1, 255, 256, 65535, 65536, 2**31 - 1, 2**32 - 1, 2**63 - 1, 2**64 - 1,
                           -1, -128, -2**15, -2**31, -2**63}
        self.wthresholds = set(self.thresholds)
        self.objtypes = {}
        self.invariants = invariants or {}     # adt path -> fn(an, st, val, name)
        self.constructions = {}                # adt path -> list of facts recorded at aggregate sites
        self.assume_fn = assume_fn
        self._cfg = {}
        self._ord = {}
        self.havoc_log = {}
        self.loops = {}
        self.stack = []
        self.fn_contexts = {}
        self.subsume = None
        self.models = {}
        from . import absint_models
        absint_models.register(self)

    # ------------------------------------------------------------------ obligations
    def obligation(self, frame, kind, desc, span, ok, detail=None, lins=()):
        fn = frame.body.path
        k0 = (fn, kind, desc, span)
        o = self.obl.get(k0)
        if o is None:
            o = Obligation(fn, kind, desc, span)
            self.obl[k0] = o
        if not ok and self.subsume:
            # modular judgement: a context that passes through another analysed entry point g is covered by the
            # analysis rooted at g (unconstrained arguments under the type invariants over-approximate this call)
            ch = frame.chain()
            if any(f in self.subsume for f in ch[:-1]):
                o.subsumed += 1
                return ok
        if ok:
            o.ok += 1
        else:
            o.bad += 1
            ent = frame.chain()[-1]
            if ent not in o.bad_entries:
                sy0 = set()
                for l_ in lins:
                    if isinstance(l_, Lin):
                        sy0.update(l_.co)
                # transitive provenance through freshly created symbols
                deps = getattr(self, 'sym_deps', {})
                work = list(sy0)
                seen_ = set(sy0)
                while work:
                    x_ = work.pop()
                    for y_ in deps.get(x_, ()):
                        if y_ not in seen_:
                            seen_.add(y_)
                            work.append(y_)
                o.bad_entries[ent] = {'context': frame.chain()[:6], 'why': detail, 'entry': ent, 'syms': sorted(seen_)}
            if o.detail is None:
                sy = set()
                for l_ in lins:
                    if isinstance(l_, Lin):
                        sy.update(l_.co)
                o.detail = {'context': frame.chain()[:6], 'why': detail, 'entry': frame.chain()[-1], 'syms': sorted(sy)}
        return ok

    def finalize_obligations(self):
        """assign ordinals (per function+kind+desc, in span order) so that keys carry no line numbers"""
        groups = {}
        for (fn, kind, desc, span), o in self.obl.items():
            groups.setdefault((fn, kind, desc), []).append(o)

        def ln(o):
            try:
                return int((o.span or '0:0').rsplit(':', 1)[1])
            except ValueError:
                return 0
        for g in groups.values():
            g.sort(key=ln)
            for i, o in enumerate(g):
                o.ord = i + 1
        return list(self.obl.values())

    # ------------------------------------------------------------------ helpers
    def cfg(self, body):
        c = self._cfg.get(body.raw_path)
        if c is None:
            c = self.CFG(body)
            c.loop_heads = set(h for (t, h) in c.back_edges())
            self._cfg[body.raw_path] = c
        return c

    def subst_ty(self, ty, frame):
        if not frame.subst:
            return ty
        for n, v in frame.subst.items():
            if n in ty:
                ty = re.sub(r'(?<![A-Za-z0-9_:])%s(?![A-Za-z0-9_])' % re.escape(n), v, ty)
        return ty

    def const_usize(self, s, frame):
        s = self.subst_ty(s.strip(), frame) if frame is not None else s.strip()
        m = re.match(r'^(-?\d+)(_[a-z0-9]+)?$', s)
        if m:
            return int(m.group(1))
        # named const
        c = self.prog.consts.get(s)
        if c is not None and 'v' in c:
            return c['v']
        return None

    def generic_const(self, nm, st):
        """symbolic value of an uninstantiated const generic parameter (same symbol everywhere)"""
        nm = nm.strip()
        if not re.match(r'^[A-Z][A-Z0-9_]*$', nm):
            return None
        s_ = 'G:' + nm
        if s_ not in st.lo and s_ not in st.hi:
            st.lo[s_] = 0
            st.hi[s_] = 2**63 - 1
        return Lin.sym(s_)

    def fresh_int(self, st, name, ty):
        lo, hi = INT_RANGES[ty]
        if name not in st.lo and name not in st.hi:
            st.lo[name] = lo
            st.hi[name] = hi
        return ('int', Lin.sym(name))

    def bool_sym(self, st, name):
        if name not in st.lo and name not in st.hi:
            st.lo[name] = 0
            st.hi[name] = 1
        return ('bool', ('cmp', 'Ne', Lin.sym(name), Lin.const(0)))

    def materialize(self, ty, name, st, frame=None, depth=0):
        """abstract value of an unknown inhabitant of type `ty`, with deterministic symbol names"""
        if frame is not None:
            ty = self.subst_ty(ty, frame)
        if ty.startswith('heapless::vec::VecInner') or ty.startswith('heapless::Vec<'):
            return self.make_hvec(self, ty, st)
        t = parse_ty(ty)
        k = t[0]
        if k == 'int':
            return self.fresh_int(st, name, t[1])
        if k == 'bool':
            return self.bool_sym(st, name)
        if k == 'ref':
            inner = t[2]
            if inner[0] == 'slice' or inner[0] == 'str':
                ln = name + '.len'
                if ln not in st.lo and ln not in st.hi:
                    st.lo[ln] = 0
                    st.hi[ln] = 2**63 - 1
                return ('sref', ('O', name + '*'), Lin.const(0), Lin.sym(ln))
            tgt = name + '*'
            self.objtypes[tgt] = ty[ty.index(' ') + 1:] if ty.startswith('&mut ') else ty[1:]
            # strip lifetime
            ot = self.objtypes[tgt].strip()
            if ot.startswith("'"):
                ot = ot[ot.index(' ') + 1:]
                if ot.startswith('mut '):
                    ot = ot[4:]
            self.objtypes[tgt] = ot
            return ('ref', ('O', tgt, ()))
        if k == 'array':
            n = self.const_usize(t[2], frame)
            if n is None:
                n = self.generic_const(t[2], st)
            return ('array', n, {}, None, name, _ty_str(t[1]))
        if k == 'tuple':
            return ('tuple', tuple(self.materialize(_ty_str(x), '%s.%d' % (name, i), st, frame, depth + 1) for i, x in enumerate(t[1])))
        if k == 'adt':
            return self.materialize_adt(t[1], t[2], name, st, frame, depth)
        return TOP

    def materialize_adt(self, head, args, name, st, frame, depth):
        adt = self.prog.adts.get(head)
        if head == 'core::option::Option' and args:
            return ('adt', head, None, {}, name, tuple(args))
        if head == 'core::result::Result' and args:
            return ('adt', head, None, {}, name, tuple(args))
        if adt is None:
            return TOP
        nv = len(adt['variants'])
        vs = frozenset([0]) if adt['kind'] != 'Enum' else None
        val = ('adt', head, vs, {}, name, tuple(args))
        inv = self.invariants.get(head)
        if inv is not None:
            val = inv(self, st, val, name, frame) or val
        return val

    def adt_field_ty(self, head, args, variant, fname):
        if head == 'core::option::Option':
            return args[0] if variant == 1 and args else None
        if head == 'core::result::Result':
            return args[variant] if len(args) > variant else None
        adt = self.prog.adts.get(head)
        if adt is None:
            return None
        if variant >= len(adt['variants']):
            return None
        for i, f in enumerate(adt['variants'][variant]['fields']):
            if f['name'] == fname or str(i) == fname:
                ty = f['ty']
                # substitute the ADT's own generic parameters positionally (type params only, best effort)
                gp = adt.get('_gparams')
                return ty
        return None

    def field_of(self, val, variant, fname, st, frame):
        """read field `fname` of variant `variant` of an ADT/tuple value (materialising lazily)"""
        if val[0] == 'tuple':
            try:
                return val[1][int(fname)]
            except (ValueError, IndexError):
                return TOP
        if val[0] == 'adt':
            v = val[3].get((variant, fname))
            if v is not None:
                return v
            if len(val) > 4 and val[4] is not None:
                fty = self.adt_field_ty(val[1], list(val[5]), variant, fname)
                if fty is not None:
                    return self.materialize(fty, '%s.%s%s' % (val[4], '' if val[2] == frozenset([0]) and val[1] not in ('core::option::Option', 'core::result::Result') else 'v%d.' % variant, fname), st, frame)
            return TOP
        if val[0] == 'closure':
            try:
                return val[2][int(fname)]
            except (ValueError, IndexError):
                return TOP
        return TOP

    def with_field(self, val, variant, fname, newv):
        if val[0] == 'tuple':
            l = list(val[1])
            i = int(fname)
            while len(l) <= i:
                l.append(TOP)
            l[i] = newv
            return ('tuple', tuple(l))
        if val[0] == 'adt':
            fl = dict(val[3])
            fl[(variant, fname)] = newv
            return ('adt', val[1], val[2], fl) + tuple(val[4:])
        return val


def _ty_str(t):
    k = t[0]
    if k == 'int':
        return t[1]
    if k == 'bool':
        return 'bool'
    if k == 'str':
        return 'str'
    if k == 'ref':
        return '&' + ('mut ' if t[1] else '') + _ty_str(t[2])
    if k == 'slice':
        return '[%s]' % _ty_str(t[1])
    if k == 'array':
        return '[%s; %s]' % (_ty_str(t[1]), t[2])
    if k == 'tuple':
        return '(%s)' % ', '.join(_ty_str(x) for x in t[1])
    if k == 'adt':
        return t[1] + ('<%s>' % ', '.join(t[2]) if t[2] else '')
    return t[1]
