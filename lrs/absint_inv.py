"""type invariants for the abstract interpreter: inferred length invariants of view types (hull over all
construction sites, fixpoint over passes) and the declared relational invariant of the data-frame views"""
from .absint import Lin, INT_RANGES, parse_ty, Infeasible
from .runner import CheckError

DATA_VIEWS = ('lorawan::parser::EncryptedDataPayload', 'lorawan::parser::DecryptedDataPayload')


def slice_fields(adt):
    """fields (variant idx, name) whose type is a reference to a slice"""
    out = []
    for vi, v in enumerate(adt['variants']):
        for i, f in enumerate(v['fields']):
            t = parse_ty(f['ty'])
            if t[0] == 'ref' and t[2][0] == 'slice':
                out.append((vi, f['name'] if not f['name'].isdigit() else f['name']))
    return out


def int_fields(adt):
    out = []
    for vi, v in enumerate(adt['variants']):
        for f in v['fields']:
            if f['ty'] in INT_RANGES and f['vis'] != 'Public':
                out.append((vi, f['name'], f['ty']))
    return out


class Invariants:
    def __init__(self, prog, crates):
        self.prog = prog
        self.tracked = {}
        self.rel = {}          # (head, int field, slice field) -> True while `int <= len(slice)` holds at every site
        self.rel_pending = {}
        self.int_of = {}
        # integer fields that are also stored to in place (not only at construction) keep no interval invariant
        self.mutated_in_place = {}
        for b in prog.bodies.values():
            for blk in b.blocks:
                for st_ in blk.stmts:
                    if st_.k == 'assign' and st_.lhs.proj:
                        last = st_.lhs.proj[-1]
                        if isinstance(last, dict) and 'f' in last and last.get('adt'):
                            from .lir import strip_turbofish as _stf
                            self.mutated_in_place[(_stf(last['adt']), last['n'])] = True
        for p, a in prog.adts.items():
            if a['crate'] in crates and a['kind'] == 'Struct':
                sf = slice_fields(a)
                inf = int_fields(a)
                if sf or inf:
                    self.tracked[p] = sf
                    self.int_of[p] = inf
        self.len_inv = {}      # head -> {field: (lo, hi, set|None)}
        self.pending = {}      # recorded in the current pass
        self.changed = False

    # ---- recorder (called at every Aggregate construction of a tracked ADT)
    def recorder(self, an, head, val, frame, st):
        self.record_rel(an, head, lambda vi, n: val[3].get((vi, n)), frame, st)
        rec = self.pending.setdefault(head, {})
        for (vi, iname, ity) in self.int_of.get(head, ()):
            iv = val[3].get((vi, iname))
            il = an.as_int(iv, st) if iv is not None else None
            tl, th = INT_RANGES[ity]
            if il is None:
                cur = (tl, th, None)
            else:
                lo, hi = st.lb(il), st.ub(il)
                cur = (tl if lo is None else lo, th if hi is None else hi, st.values(il))
            old = rec.get('#' + iname)
            if old is None:
                rec['#' + iname] = cur + ([(frame.body.path, cur[0], cur[1])],)
            else:
                vs = None if old[2] is None or cur[2] is None or len(old[2] | cur[2]) > 24 else (old[2] | cur[2])
                rec['#' + iname] = (min(old[0], cur[0]), max(old[1], cur[1]), vs, old[3] + [(frame.body.path, cur[0], cur[1])])
        for (vi, fname) in self.tracked[head]:
            fv = val[3].get((vi, fname))
            if fv is None or fv[0] != 'sref':
                cur = (0, 2**63 - 1, None)
            else:
                ln = fv[3]
                lo, hi = st.lb(ln), st.ub(ln)
                vs = st.values(ln)
                cur = (0 if lo is None else max(lo, 0), 2**63 - 1 if hi is None else hi, vs)
            old = rec.get(fname)
            if old is None:
                rec[fname] = cur + ([(frame.body.path, cur[0], cur[1])],)
            else:
                vs = None if old[2] is None or cur[2] is None or len(old[2] | cur[2]) > 24 else (old[2] | cur[2])
                rec[fname] = (min(old[0], cur[0]), max(old[1], cur[1]), vs, old[3] + [(frame.body.path, cur[0], cur[1])])

    def record_rel(self, an, head, getf, frame, st):
        """template `int_field <= len(slice_field)` at a construction site or at the exit of a `&mut self` method"""
        for (vi, iname, ity) in self.int_of.get(head, ()):
            iv = getf(vi, iname)
            il = an.as_int(iv, st) if iv is not None else None
            for (vs, sname) in self.tracked[head]:
                sv = getf(vs, sname)
                ok = il is not None and sv is not None and sv[0] == 'sref' and st.prove_le0(il - sv[3])
                key = (head, iname, sname)
                self.rel_pending[key] = self.rel_pending.get(key, True) and ok

    def merge_pass(self):
        """fold the facts recorded during a pass into the invariants; returns True if anything changed"""
        ch = False
        for key, ok in self.rel_pending.items():
            new = self.rel.get(key, True) and ok
            if self.rel.get(key) != new:
                ch = True
            self.rel[key] = new
        self.rel_pending = {}
        for head, rec in self.pending.items():
            inv = self.len_inv.setdefault(head, {})
            for f, cur in rec.items():
                old = inv.get(f)
                if old is None:
                    inv[f] = cur
                    ch = True
                else:
                    vs = None if old[2] is None or cur[2] is None or len(old[2] | cur[2]) > 24 else (old[2] | cur[2])
                    new = (min(old[0], cur[0]), max(old[1], cur[1]), vs, cur[3])
                    if new[:3] != old[:3]:
                        ch = True
                    inv[f] = new
        self.pending = {}
        return ch

    # ---- assumption at materialisation
    def apply(self, an, st, val, name, frame):
        head = val[1]
        inv = self.len_inv.get(head)
        if inv is None:
            return None
        for (vi, fname) in self.tracked[head]:
            rec = inv.get(fname)
            if rec is None:
                continue
            sym = '%s.%s.len' % (name, fname)
            if sym not in st.lo and sym not in st.hi:
                st.lo[sym] = 0
                st.hi[sym] = 2**63 - 1
            try:
                st.set_bounds(sym, rec[0], rec[1])
                if rec[2] is not None:
                    st.sets[sym] = frozenset(rec[2])
            except Infeasible:
                pass
        for (vi, iname, ity) in self.int_of.get(head, ()):
            rec = inv.get('#' + iname)
            if rec is not None and not self.mutated_in_place.get((head, iname)):
                isym = '%s.%s' % (name, iname)
                if isym not in st.lo and isym not in st.hi:
                    lo_, hi_ = INT_RANGES[ity]
                    st.lo[isym] = lo_
                    st.hi[isym] = hi_
                try:
                    st.set_bounds(isym, rec[0], rec[1])
                except Infeasible:
                    pass
        for (vi, iname, ity) in self.int_of.get(head, ()):
            for (vs, sname) in self.tracked[head]:
                if self.rel.get((head, iname, sname), True):   # optimistic start; falsified templates are dropped (inductive)
                    isym = '%s.%s' % (name, iname)
                    if isym not in st.lo and isym not in st.hi:
                        lo_, hi_ = INT_RANGES[ity]
                        st.lo[isym] = lo_
                        st.hi[isym] = hi_
                    try:
                        st.add_con(Lin.sym(isym) - Lin.sym('%s.%s.len' % (name, sname)))
                    except Infeasible:
                        pass
        if head in DATA_VIEWS:
            self.apply_data_view(an, st, val, name, frame)
        return None

    def check_mut_self_exit(self, an, body, fr, out):
        """after analysing an entry whose first parameter is `&mut T` for a tracked T with integer fields: the
        relational template must hold again on exit (it was assumed on entry)"""
        if out is None or body.argc < 1:
            return
        ty = body.locals[1]
        if not ty.startswith('&mut '):
            return
        head = ty[5:].split('<')[0]
        if head not in self.int_of or not self.int_of[head]:
            return
        name = 'p1_%s*' % (body.local_name(1) or 'arg1')
        obj = out.mem.get(('obj', name))
        if obj is None or obj[0] != 'adt':
            return
        self.record_rel(an, head, lambda vi, n: an.field_of(obj, vi, n, out, fr), fr, out)

    def known(self, head):
        return head in self.len_inv

    # ---- the declared relational invariant of EncryptedDataPayload / DecryptedDataPayload
    #   L = len(bytes):  L >= 12; 7 <= fhdr_len; 1 + fhdr_len <= L - 4; frm_start <= frm_end; frm_end == L - 4;
    #   frm_start >= 8; f_port_offset = Some(off) => 8 <= off <= L - 5
    def data_view_terms(self, name):
        L = Lin.sym('%s.bytes.len' % name)
        fh = Lin.sym('%s.layout.fhdr_len' % name)
        fs = Lin.sym('%s.layout.frm_start' % name)
        fe = Lin.sym('%s.layout.frm_end' % name)
        off = Lin.sym('%s.layout.f_port_offset.v1.0' % name)
        return L, fh, fs, fe, off

    @staticmethod
    def data_view_constraints(L, fh, fs, fe, off):
        """list of (description, lin <= 0, only_if_some)"""
        c = Lin.const
        return [
            ('len >= 12', c(12) - L, False),
            ('fhdr_len >= 7', c(7) - fh, False),
            ('1 + fhdr_len <= len - 4', fh + c(5) - L, False),
            ('frm_start <= frm_end', fs - fe, False),
            ('frm_end <= len - 4', fe + c(4) - L, False),
            ('frm_end >= len - 4', L - c(4) - fe, False),
            ('frm_start >= 8', c(8) - fs, False),
            ('f_port_offset < len - 4', off + c(5) - L, True),
            ('f_port_offset >= 8', c(8) - off, True),
        ]

    def apply_data_view(self, an, st, val, name, frame):
        L, fh, fs, fe, off = self.data_view_terms(name)
        for lin in (fh, fs, fe, off):
            s = list(lin.co)[0]
            if s not in st.lo and s not in st.hi:
                st.lo[s] = 0
                st.hi[s] = 2**64 - 1
        s = list(L.co)[0]
        if s not in st.lo and s not in st.hi:
            st.lo[s] = 0
            st.hi[s] = 2**63 - 1
        for desc, lin, _ in self.data_view_constraints(L, fh, fs, fe, off):
            try:
                st.add_con(lin)
            except Infeasible:
                pass

    def check_data_view(self, an, head, val, frame, st):
        """obligation at every construction site of a data view: the declared invariant holds"""
        b = val[3].get((0, 'bytes'))
        lay = val[3].get((0, 'layout'))
        if b is None or b[0] != 'sref' or lay is None or lay[0] != 'adt':
            an.obligation(frame, 'invariant', 'data view', frame.body.span, False, 'fields not tracked')
            return
        L = b[3]
        g = lambda n: an.as_int(an.field_of(lay, 0, n, st, frame), st)
        fh, fs, fe = g('fhdr_len'), g('frm_start'), g('frm_end')
        fpo = an.field_of(lay, 0, 'f_port_offset', st, frame)
        off = None
        may_some = True
        st_some = st
        if fpo[0] == 'adt':
            if fpo[2] is not None and 1 not in fpo[2]:
                may_some = False
            else:
                off = an.as_int(an.field_of(fpo, 1, '0', st, frame), st)
                # facts guarded by the Some variant
                if len(fpo) > 6 and fpo[6] is not None and fpo[6][0] == 'guard':
                    st_some = st.copy()
                    try:
                        for f in fpo[6][1].get(1, ()):
                            st_some.apply_fact(f)
                    except Infeasible:
                        may_some = False
        if None in (fh, fs, fe):
            an.obligation(frame, 'invariant', 'data view', frame.body.span, False, 'layout fields unknown')
            return
        for desc, lin, only_some in self.data_view_constraints(L, fh, fs, fe, off if off is not None else Lin.const(8)):
            if only_some:
                if not may_some:
                    continue
                if off is None:
                    an.obligation(frame, 'invariant', desc, frame.body.span, False, 'offset unknown')
                    continue
            ok = (st_some if only_some else st).prove_le0(lin)
            an.obligation(frame, 'invariant', desc, frame.body.span, ok, None if ok else 'cannot prove %r <= 0' % lin)


def install(an, inv):
    for head in inv.tracked:
        an.invariants[head] = inv.apply
        an.construct_recorders[head] = inv.recorder
    for head in DATA_VIEWS:
        if head in inv.tracked:
            an.construct_checks[head] = inv.check_data_view
