"""bit-provenance view of the abstract interpreter's integer values: for an integer value (a linear expression over
symbols whose bit-level definitions were recorded when they were created) compute, for every bit of the result,
where it comes from: a constant 0/1, bit k of an input symbol, its negation, or unknown. Definitions are a pure
function of the symbol (value numbering), only the ranges of the inputs come from the abstract state."""
from .absint import Lin, INT_RANGES

WIDTH = {'u8': 8, 'u16': 16, 'u32': 32, 'u64': 64, 'usize': 64, 'u128': 128, 'i8': 8, 'i16': 16, 'i32': 32, 'i64': 64, 'isize': 64, 'i128': 128, 'bool': 1}
UNK = '?'


def signed(ty):
    return ty.startswith('i')


def const_bits(v, w):
    v &= (1 << w) - 1
    return [(v >> k) & 1 for k in range(w)]


def neg(e):
    if e == 0:
        return 1
    if e == 1:
        return 0
    if isinstance(e, tuple) and e[0] == 'n':
        return e[1]
    if e == UNK:
        return UNK
    return ('n', e)


def b_and(x, y):
    if x == 0 or y == 0:
        return 0
    if x == 1:
        return y
    if y == 1:
        return x
    if x == y:
        return x
    if x == neg(y) and x != UNK:
        return 0
    return UNK


def b_or(x, y):
    if x == 1 or y == 1:
        return 1
    if x == 0:
        return y
    if y == 0:
        return x
    if x == y:
        return x
    if x == neg(y) and x != UNK:
        return 1
    return UNK


def b_xor(x, y):
    if x == 0:
        return y
    if y == 0:
        return x
    if x == 1:
        return neg(y)
    if y == 1:
        return neg(x)
    if x == y and x != UNK:
        return 0
    return UNK


def extend(bits, w, sign):
    bits = list(bits)
    if len(bits) >= w:
        return bits[:w]
    fill = bits[-1] if (sign and bits) else 0
    return bits + [fill] * (w - len(bits))


class BitView:
    def __init__(self, an, st, assign=None):
        self.an = an
        self.st = st
        self.cache = {}
        self.assign = assign or {}         # symbol -> value: case split over a merged value with few members
        self.joins = set()                  # merged symbols with 2..4 members met while computing bits

    def sym_bits(self, s, w, depth):
        key = (s, w)
        if key in self.cache:
            return self.cache[key]
        d = self.an.bitdef.get(s)
        st = self.st
        if s in self.assign:
            r = const_bits(self.assign[s], w)
            self.cache[key] = r
            return r
        if d is None or depth > 40:
            lo, hi = st.lo.get(s), st.hi.get(s)
            vals = st.sets.get(s)
            if vals is not None and len(vals) == 1:
                r = const_bits(next(iter(vals)), w)
            elif lo is not None and lo >= 0 and hi is not None:
                n = hi.bit_length()
                r = [('i', s, k) if k < n else 0 for k in range(w)]
            elif lo is not None and hi is not None and lo < 0:
                n = max((-lo - 1).bit_length(), hi.bit_length()) + 1      # two's complement width of the input
                r = [('i', s, k) if k < n else ('i', s, n - 1) for k in range(w)]
            else:
                r = [('i', s, k) for k in range(w)]
            if s.startswith(('phi(', 'join#', 'sel#', 'set#')) and not (vals is not None and len(vals) == 1):
                # merged values: only the range is known; bits equal in every member are known
                if vals is not None and 2 <= len(vals) <= 4:
                    self.joins.add(s)
                    mb = [const_bits(x, w) for x in vals]
                    r = [mb[0][k] if all(m[k] == mb[0][k] for m in mb) else UNK for k in range(w)]
                else:
                    r = [UNK if isinstance(e, tuple) else e for e in r]
            self.cache[key] = r
            return r
        op = d[0]
        if op == 'join':
            a = self.lin_bits(d[1], {8: 'u8', 16: 'u16', 32: 'u32', 64: 'u64', 128: 'u128', 1: 'bool'}.get(w, 'u64'), depth + 1)
            b = self.lin_bits(d[2], {8: 'u8', 16: 'u16', 32: 'u32', 64: 'u64', 128: 'u128', 1: 'bool'}.get(w, 'u64'), depth + 1)
            r = [x if x == y else UNK for x, y in zip(a, b)]
            vals = st.sets.get(s)
            if vals is not None and 2 <= len(vals) <= 4 and all(e == UNK or e in (0, 1) for e in r):
                self.joins.add(s)
            lo, hi = st.lo.get(s), st.hi.get(s)
            if lo is not None and lo >= 0 and hi is not None:
                n = hi.bit_length()
                r = [e if k < n else (0 if e == UNK else e) for k, e in enumerate(r)]
            self.cache[key] = r
            return r
        if op == 'cast':
            _, lin, from_ty, to_ty = d
            fw = WIDTH.get(from_ty, 64)
            src = self.lin_bits(lin, from_ty if from_ty in WIDTH else 'u64', depth + 1)
            r = extend(src[:fw], WIDTH.get(to_ty, w), signed(from_ty))
            r = extend(r, w, signed(to_ty))
        else:
            _, la, lb, ty = d
            tw = WIDTH.get(ty, w)
            a = self.lin_bits(la, ty, depth + 1)
            if op in ('Shl', 'Shr'):
                if not lb.is_const():
                    r = [UNK] * tw
                else:
                    k = lb.k
                    if op == 'Shl':
                        r = ([0] * k + a)[:tw]
                    else:
                        fill = a[-1] if signed(ty) else 0
                        r = (a[k:] + [fill] * k)[:tw]
            else:
                b = self.lin_bits(lb, ty, depth + 1)
                if op == 'BitAnd':
                    r = [b_and(x, y) for x, y in zip(a, b)]
                elif op == 'BitOr':
                    r = [b_or(x, y) for x, y in zip(a, b)]
                elif op == 'BitXor':
                    r = [b_xor(x, y) for x, y in zip(a, b)]
                elif op == 'Add' and all(x == 0 or y == 0 for x, y in zip(a, b)):
                    r = [b_or(x, y) for x, y in zip(a, b)]
                elif op == 'Mul' and lb.is_const() and lb.k > 0 and lb.k & (lb.k - 1) == 0:
                    k = lb.k.bit_length() - 1
                    r = ([0] * k + a)[:tw]
                elif op == 'Rem' and lb.is_const() and lb.k > 0 and lb.k & (lb.k - 1) == 0 and not signed(ty):
                    k = lb.k.bit_length() - 1
                    r = a[:k] + [0] * (tw - k)
                elif op == 'Div' and lb.is_const() and lb.k > 0 and lb.k & (lb.k - 1) == 0 and not signed(ty):
                    k = lb.k.bit_length() - 1
                    r = (a[k:] + [0] * k)[:tw]
                else:
                    r = [UNK] * tw
            r = extend(r, w, signed(ty))
        # known range of the result narrows unknown high bits
        lo, hi = st.lo.get(s), st.hi.get(s)
        if lo is not None and lo >= 0 and hi is not None:
            n = hi.bit_length()
            r = [e if k < n else (0 if e == UNK else e) for k, e in enumerate(r)]
        self.cache[key] = r
        return r

    def lin_bits(self, lin, ty, depth=0):
        """bits (LSB first, width of ty) of the value of `lin` reduced modulo 2^width"""
        w = WIDTH.get(ty, 64)
        if lin.is_const():
            return const_bits(lin.k, w)
        # every symbol fixed by the current case split: the value is a constant (also for differences / negative offsets)
        if self.assign and all(s in self.assign for s in lin.co):
            return const_bits(sum(c * self.assign[s] for s, c in lin.co.items()) + lin.k, w)
        # merged values with few members inside an arithmetic expression: candidates for the case split
        for s in lin.co:
            if s not in self.assign and s.startswith(('phi(', 'join#', 'sel#', 'set#')) and (self.an.bitdef.get(s) is None or self.an.bitdef[s][0] == 'join'):
                vals = self.st.sets.get(s)
                if vals is not None and 2 <= len(vals) <= 4:
                    self.joins.add(s)
        terms = []
        for s, c in sorted(lin.co.items()):
            if c > 0 and c & (c - 1) == 0:
                k = c.bit_length() - 1
                sb = self.sym_bits(s, w, depth)
                terms.append(([0] * k + sb)[:w])
            elif c == -1 and len(lin.co) == 1 and lin.k == 0:
                return [UNK] * w
            else:
                return [UNK] * w
        if lin.k:
            if lin.k < 0:
                return [UNK] * w
            terms.append(const_bits(lin.k, w))
        out = [0] * w
        for t in terms:
            if any(x != 0 and y != 0 for x, y in zip(out, t)):
                return [UNK] * w
            out = [b_or(x, y) for x, y in zip(out, t)]
        return out


def fmt(bits):
    """compact rendering: groups of bits MSB first"""
    def one(e):
        if e in (0, 1):
            return str(e)
        if e == UNK:
            return '?'
        if e[0] == 'n':
            return '~' + one(e[1])
        return '%s.%d' % (e[1], e[2])
    return '[' + ' '.join(one(e) for e in reversed(bits)) + ']'


def lin_of_bits(st, bl):
    """exact linear expression denoted by a bit vector when every bit is a constant or bit k of a non-negative input
    symbol placed at a fixed shift, and every possibly-set bit of each symbol is present; else None"""
    by_sym = {}
    const = 0
    for p, e in enumerate(bl):
        if e == 0:
            continue
        if e == 1:
            const |= 1 << p
            continue
        if not (isinstance(e, tuple) and e[0] == 'i'):
            return None
        by_sym.setdefault(e[1], []).append((p, e[2]))
    lin = Lin.const(const)
    for s_, pairs in by_sym.items():
        shifts = {p - k for p, k in pairs}
        if len(shifts) != 1:
            return None
        sh = next(iter(shifts))
        if sh < 0:
            return None
        lo, hi = st.lo.get(s_), st.hi.get(s_)
        if lo is None or lo < 0 or hi is None:
            return None
        need = set(range(hi.bit_length()))
        if not need <= {k for p, k in pairs}:
            return None
        lin = lin + Lin.sym(s_).scale(1 << sh)
    return lin
