"""MIR-level inlining of helper functions that did not exist on the reviewed tree.

The rule tables of the property checks name functions (anchors, reviewed writers, call sites). A routine clean-up
that moves a few lines of such a function into a new private helper must not change any verdict: the helper is
part of the function it was extracted from. This pass restores that view: every call to a workspace function
whose path is NOT in the frozen list of function paths of the reviewed tree (lrs/known_functions.txt) is replaced
by the callee's blocks (locals and blocks renumbered, parameters assigned from the arguments, `return` turned into
an assignment of the destination and a goto). Functions of the reviewed tree are never inlined, so every anchor
keeps its meaning. Async helpers (coroutines), recursive helpers and indirect calls are left alone.

Works on the raw JSON records of the extractor, before the typed LIR is built."""
import copy
import os

MAX_DEPTH = 4
_known = None


def known_functions():
    global _known
    if _known is None:
        p = os.path.join(os.path.dirname(os.path.abspath(__file__)), 'known_functions.txt')
        with open(p) as f:
            _known = set(l.strip() for l in f if l.strip())
    return _known


def _shift_place(pl, loff):
    pl['l'] += loff
    for e in pl.get('p', []):
        if isinstance(e, dict) and 'i' in e:
            e['i'] += loff


def _shift_operand(o, loff):
    for k in ('c', 'm'):
        if k in o:
            _shift_place(o[k], loff)


def _shift_rv(rv, loff):
    k = rv['k']
    if k in ('use', 'rep', 'cast'):
        _shift_operand(rv['o'], loff)
    elif k in ('ref', 'rawptr', 'discr'):
        _shift_place(rv['p'], loff)
    elif k == 'bin':
        _shift_operand(rv['a'], loff)
        _shift_operand(rv['b'], loff)
    elif k == 'un':
        _shift_operand(rv['a'], loff)
    elif k == 'agg':
        for o in rv['ops']:
            _shift_operand(o, loff)
    elif k in ('len',) and 'p' in rv:
        _shift_place(rv['p'], loff)


def _shift_block(b, loff, boff):
    for s in b['s']:
        _shift_place(s['lhs'], loff)
        if s['k'] == 'assign':
            _shift_rv(s['rv'], loff)
    t = b['t']
    k = t['k']
    if 't' in t and t['t'] is not None:
        t['t'] += boff
    if k == 'call':
        _shift_operand(t['f'], loff)
        for a in t['args']:
            _shift_operand(a, loff)
        _shift_place(t['dest'], loff)
    elif k == 'switch':
        _shift_operand(t['d'], loff)
        t['ts'] = [[v, x + boff] for v, x in t['ts']]
        t['o'] += boff
    elif k == 'assert':
        _shift_operand(t['cond'], loff)
        for key in ('len', 'index', 'a', 'b'):
            if key in t:
                _shift_operand(t[key], loff)
    elif k == 'drop':
        _shift_place(t['p'], loff)
    elif k == 'yield':
        _shift_place(t['resume_arg'], loff)
        if isinstance(t.get('v'), dict):
            _shift_operand(t['v'], loff)


def _callee_path(t):
    f = t.get('f') or {}
    c = f.get('k')
    if not c:
        return None
    return c.get('res') or c.get('fn')


def _fn_path(t):
    """the generic (unresolved) callee path of a call terminator"""
    f = t.get('f') or {}
    c = f.get('k')
    return (c.get('fn') if c else None) or ''


def _split_args(ty):
    """generic arguments of `Head<A, B>` (top level commas only)"""
    i = ty.find('<')
    if i < 0 or not ty.endswith('>'):
        return []
    out, depth, cur = [], 0, ''
    for ch in ty[i + 1:-1]:
        if ch in '<([':
            depth += 1
        elif ch in '>)]':
            depth -= 1
        if ch == ',' and depth == 0:
            out.append(cur.strip())
            cur = ''
        else:
            cur += ch
    if cur.strip():
        out.append(cur.strip())
    return out


def _sg(path):
    """strip generic arguments"""
    out, depth = '', 0
    for ch in path:
        if ch == '<':
            depth += 1
        elif ch == '>':
            depth -= 1
        elif depth == 0:
            out += ch
    out = out.replace('::::', '::')
    return out[:-2] if out.endswith('::') else out


# combinator -> (scrutinee kind, arms): each arm maps a variant to what becomes of it
#   'call'  : dest = f(payload)            'wrap:V' : dest = V(f(payload))
#   'keep'  : dest = the scrutinee's own variant with its payload (Some(x) / Ok(x) / Err(e) / None)
#   'payload': dest = payload              'rewrap:V': dest = V(payload)      'call0': dest = f()    'wrap0:V': dest = V(f())
COMBINATORS = {
    'core::option::Option::map': ('Option', {'Some': 'wrap:Some', 'None': 'none'}),
    'core::option::Option::and_then': ('Option', {'Some': 'call', 'None': 'none'}),
    'core::option::Option::unwrap_or_else': ('Option', {'Some': 'payload', 'None': 'call0'}),
    'core::option::Option::ok_or_else': ('Option', {'Some': 'rewrap:Ok', 'None': 'wrap0:Err'}),
    'core::option::Option::map_or': ('Option', {'Some': 'call', 'None': 'default'}),
    'core::result::Result::map_or': ('Result', {'Ok': 'call', 'Err': 'default'}),
    'core::result::Result::map': ('Result', {'Ok': 'wrap:Ok', 'Err': 'rewrap:Err'}),
    'core::result::Result::and_then': ('Result', {'Ok': 'call', 'Err': 'rewrap:Err'}),
    'core::result::Result::map_err': ('Result', {'Ok': 'rewrap:Ok', 'Err': 'wrap:Err'}),
    'core::result::Result::unwrap_or_else': ('Result', {'Ok': 'payload', 'Err': 'call'}),
}
VIDX = {'None': 0, 'Some': 1, 'Ok': 0, 'Err': 1}
ADT = {'None': 'core::option::Option', 'Some': 'core::option::Option', 'Ok': 'core::result::Result', 'Err': 'core::result::Result'}


def _splice(body, b, callee, arg_rvs, dest, target, sp, exp):
    """append the callee's blocks to `body`, entered from block b (its terminator becomes a goto), parameters assigned from the
    rvalues arg_rvs, `return` turned into `dest = _0; goto target`. Returns (local offset, block offset)."""
    loff = len(body['locals'])
    boff = len(body['blocks'])
    body['locals'] = body['locals'] + callee['locals']
    for cb in callee['blocks']:
        _shift_block(cb, loff, boff)
    for ai, rv in enumerate(arg_rvs):
        ty = callee['locals'][ai + 1]
        b['s'].append({'k': 'assign', 'lhs': {'l': loff + ai + 1, 'p': [], 'ty': ty}, 'rv': rv, 'sp': sp, 'exp': exp})
    ret_ty = callee['locals'][0]
    for cb in callee['blocks']:
        if cb['t']['k'] == 'return':
            if dest is not None:
                cb['s'].append({'k': 'assign', 'lhs': dest, 'rv': {'k': 'use', 'o': {'m': {'l': loff, 'p': [], 'ty': ret_ty}}}, 'sp': sp, 'exp': exp})
            cb['t'] = {'k': 'goto', 't': target, 'sp': sp}
    b['t'] = {'k': 'goto', 't': boff, 'sp': sp}
    body['blocks'] = body['blocks'] + callee['blocks']
    for n_, pl in callee.get('dbg', []):
        pl2 = copy.deepcopy(pl)
        _shift_place(pl2, loff)
        if pl2['l'] > loff + callee['argc']:
            body['dbg'].append([n_, pl2])
    return loff, boff


def expand_combinators(records, strip):
    """`opt.map(|x| ..)`, `res.map_err(|e| ..)`, `opt.unwrap_or_else(|| ..)` ... whose closure did not exist on the reviewed tree are
    rewritten into the `match` they abbreviate, with the closure body in the arm: code moved from an `if let` / `match` arm into a
    combinator closure is judged where it came from. Closures of the reviewed tree are left alone."""
    known = known_functions()
    by_path = {}
    for r in records:
        by_path.setdefault(strip(r['path']), []).append(r)
    log = {}

    def new_local(body, ty):
        body['locals'] = body['locals'] + [ty]
        return len(body['locals']) - 1

    def plain_local(o):
        pl = o.get('m') or o.get('c')
        if pl is None or pl.get('p'):
            return None
        return pl

    for r in records:
        if r.get('stage') == 'promoted':
            continue
        i = 0
        guard = 0
        while i < len(r['blocks']) and guard < 64:
            b = r['blocks'][i]
            t = b['t']
            i += 1
            if t['k'] != 'call' or b.get('cleanup') or t.get('t') is None:
                continue
            cp = _callee_path(t)
            comb = COMBINATORS.get(_sg(cp)) if cp else None
            if comb is None or len(t['args']) != (3 if 'default' in comb[1].values() else 2):
                continue
            scr, clo = plain_local(t['args'][0]), plain_local(t['args'][-1])
            default_op = t['args'][1] if len(t['args']) == 3 else None
            if scr is None or clo is None:
                continue
            cty = r['locals'][clo['l']]
            if not (isinstance(cty, str) and cty.startswith('closure:')):
                continue
            cpath = strip(cty[len('closure:'):])
            if cpath in known or len(by_path.get(cpath, [])) != 1:
                continue
            crec = by_path[cpath][0]
            if crec.get('coroutine') or len(crec['blocks']) > 400:
                continue
            kind, arms = comb
            need = {2 if (w == 'call' or w.startswith('wrap:')) else 1 for w in arms.values() if w in ('call', 'call0') or w.startswith(('wrap:', 'wrap0:'))}
            if need != {crec['argc']}:
                continue
            sty = r['locals'][scr['l']]
            targs = _split_args(sty)
            if (kind == 'Option' and len(targs) != 1) or (kind == 'Result' and len(targs) != 2):
                continue
            payload_ty = {'Some': targs[0], 'Ok': targs[0], 'Err': targs[-1]}
            sp, exp = t.get('sp'), t.get('exp')
            dest, target = t['dest'], t['t']
            dty = dest.get('ty')
            # scrutinee discriminant and switch
            dl = new_local(r, 'isize')
            b['s'].append({'k': 'assign', 'lhs': {'l': dl, 'p': [], 'ty': 'isize'}, 'rv': {'k': 'discr', 'p': {'l': scr['l'], 'p': [], 'ty': sty}}, 'sp': sp, 'exp': exp})
            arm_blocks = {}
            for vn in arms:
                r['blocks'].append({'s': [], 't': {'k': 'goto', 't': target, 'sp': sp}, 'cleanup': False})
                arm_blocks[vn] = len(r['blocks']) - 1
            r['blocks'].append({'s': [], 't': {'k': 'unreachable', 'sp': sp}, 'cleanup': False})
            unreach = len(r['blocks']) - 1
            b['t'] = {'k': 'switch', 'd': {'m': {'l': dl, 'p': [], 'ty': 'isize'}}, 'dty': 'isize', 'ts': [[VIDX[vn], bi] for vn, bi in sorted(arm_blocks.items(), key=lambda x: VIDX[x[0]])], 'o': unreach, 'sp': sp}

            def agg(vn, ops):
                return {'k': 'agg', 'ak': 'adt', 'adt': ADT[vn], 'variant': vn, 'vidx': VIDX[vn], 'is_enum': True, 'fields': ['0'] if ops else [], 'ops': ops}

            def payload_place(vn):
                return {'l': scr['l'], 'p': [{'dc': VIDX[vn], 'n': vn}, {'f': 0, 'n': '0', 'adt': ADT[vn], 'ty': payload_ty[vn]}], 'ty': payload_ty[vn]}
            env_ty = crec['locals'][1] if len(crec['locals']) > 1 else ''
            if isinstance(env_ty, str) and env_ty.startswith('&'):
                env_rv = {'k': 'ref', 'mut': env_ty.startswith('&mut'), 'p': {'l': clo['l'], 'p': [], 'ty': cty}}
            else:
                env_rv = {'k': 'use', 'o': {'m': {'l': clo['l'], 'p': [], 'ty': cty}}}
            ok = True
            for vn, what in arms.items():
                ab = r['blocks'][arm_blocks[vn]]
                if what == 'none':
                    ab['s'].append({'k': 'assign', 'lhs': dest, 'rv': agg('None', []), 'sp': sp, 'exp': exp})
                elif what == 'default':
                    ab['s'].append({'k': 'assign', 'lhs': dest, 'rv': {'k': 'use', 'o': default_op}, 'sp': sp, 'exp': exp})
                elif what == 'payload':
                    ab['s'].append({'k': 'assign', 'lhs': dest, 'rv': {'k': 'use', 'o': {'m': payload_place(vn)}}, 'sp': sp, 'exp': exp})
                elif what.startswith('rewrap:'):
                    ab['s'].append({'k': 'assign', 'lhs': dest, 'rv': agg(what[7:], [{'m': payload_place(vn)}]), 'sp': sp, 'exp': exp})
                else:
                    callee = copy.deepcopy(crec)
                    with_arg = what in ('call',) or what.startswith('wrap:')
                    if callee['argc'] != (2 if with_arg else 1):
                        ok = False
                        break
                    rvs = [env_rv] + ([{'k': 'use', 'o': {'m': payload_place(vn)}}] if with_arg else [])
                    if what in ('call', 'call0'):
                        _splice(r, ab, callee, rvs, dest, target, sp, exp)
                    else:
                        wv = what.split(':')[1]
                        # closure result into a fresh local, then wrapped
                        rl = new_local(r, callee['locals'][0])
                        r['blocks'].append({'s': [{'k': 'assign', 'lhs': dest, 'rv': agg(wv, [{'m': {'l': rl, 'p': [], 'ty': callee['locals'][0]}}]), 'sp': sp, 'exp': exp}],
                                            't': {'k': 'goto', 't': target, 'sp': sp}, 'cleanup': False})
                        wrap_bb = len(r['blocks']) - 1
                        _splice(r, ab, callee, rvs, {'l': rl, 'p': [], 'ty': callee['locals'][0]}, wrap_bb, sp, exp)
            if not ok:
                continue
            log.setdefault(strip(r['path']), []).append(cpath)
            guard += 1
    # a closure whose every use was expanded lives in its host now: it is no separate program point any more
    expanded = {c_ for v in log.values() for c_ in v}
    if expanded:
        still_used = set()
        for r in records:
            for b in r['blocks']:
                t = b['t']
                if t['k'] != 'call':
                    continue
                for a in t['args']:
                    pl = a.get('m') or a.get('c')
                    if pl is not None:
                        ty = r['locals'][pl['l']] if not pl.get('p') else pl.get('ty')
                        if isinstance(ty, str) and ty.startswith('closure:') and strip(ty[len('closure:'):]) in expanded:
                            still_used.add(strip(ty[len('closure:'):]))
        drop = expanded - still_used
        records = [r for r in records if strip(r['path']) not in drop]
    return records, log


def inline_async(records, strip):
    """a NEW `async fn` helper (its constructor and its coroutine body are not on the reviewed list) awaited by a function of the reviewed
    tree is merged into the awaiting coroutine: the constructor call becomes the coroutine aggregate, the poll of that future becomes
    the helper's body (its own awaits keep their yields), the helper's `return v` becomes `Poll::Ready(v)` on the Ready edge of the
    original await. Extracting a few awaits of `send` / `join` / a driver operation into a helper therefore changes nothing for the rules."""
    known = known_functions()
    by_path = {}
    for r in records:
        by_path.setdefault(strip(r['path']), []).append(r)
    wrappers = {}
    for p, l in by_path.items():
        if len(l) != 1 or p in known or '{closure' in p:
            continue
        r = l[0]
        ret = r['locals'][0] if r.get('locals') else ''
        if not (isinstance(ret, str) and ret.startswith('impl ') and 'future::Future<' in ret) or len(r['blocks']) > 3:
            continue
        aggs = [s_ for b in r['blocks'] for s_ in b['s'] if s_['k'] == 'assign' and s_['rv']['k'] == 'agg' and s_['rv'].get('ak') == 'coroutine' and s_['lhs']['l'] == 0 and not s_['lhs']['p']]
        if len(aggs) != 1:
            continue
        cpath = strip(aggs[0]['rv']['def'])
        if cpath in known or len(by_path.get(cpath, [])) != 1 or not by_path[cpath][0].get('coroutine'):
            continue
        ops = aggs[0]['rv']['ops']
        idx = []
        for o in ops:
            pl = o.get('m') or o.get('c')
            if pl is None or pl.get('p') or not (1 <= pl['l'] <= r['argc']):
                idx = None
                break
            idx.append(pl['l'] - 1)
        if idx is None:
            continue
        wrappers[p] = (aggs[0]['rv'], idx, by_path[cpath][0])
    log = {}
    dbg = os.environ.get('LRS_DEBUG_INLINE')
    if dbg:
        print('async wrappers:', sorted(wrappers))
    if not wrappers:
        return records, log
    for r in records:
        if strip(r['path']) in wrappers or r.get('stage') == 'promoted':
            continue
        done = 0
        i = 0
        while i < len(r['blocks']) and done < 16:
            b = r['blocks'][i]
            i += 1
            t = b['t']
            if t['k'] != 'call' or b.get('cleanup') or t.get('t') is None:
                continue
            cp = _callee_path(t)
            w = wrappers.get(strip(cp)) if cp else None
            if w is None or t['dest'].get('p') or any(k >= len(t['args']) for k in w[1]):
                continue
            rv0, idx, crec = w
            lf = t['dest']['l']
            # the future's by-value aliases, the references to them and the pins of those references
            vals, refs, pins = {lf}, set(), set()
            changed = True
            while changed:
                changed = False
                for b2 in r['blocks']:
                    for s_ in b2['s']:
                        if s_['k'] != 'assign' or s_['lhs'].get('p'):
                            continue
                        l_, rv = s_['lhs']['l'], s_['rv']
                        if rv['k'] == 'use':
                            pl = rv['o'].get('m') or rv['o'].get('c')
                            if pl is not None and not pl.get('p'):
                                for S in (vals, refs, pins):
                                    if pl['l'] in S and l_ not in S:
                                        S.add(l_)
                                        changed = True
                        elif rv['k'] == 'ref':
                            pl = rv['p']
                            if not pl.get('p') and pl['l'] in vals and l_ not in refs:
                                refs.add(l_)
                                changed = True
                            if pl.get('p') == ['*'] and pl['l'] in refs and l_ not in refs:
                                refs.add(l_)
                                changed = True
                    t2 = b2['t']
                    if t2['k'] == 'call' and not t2['dest'].get('p') and t2['args']:
                        c2 = _sg(_fn_path(t2))
                        a0 = t2['args'][0].get('m') or t2['args'][0].get('c')
                        if a0 is None or a0.get('p'):
                            continue
                        if c2.endswith('IntoFuture::into_future') and a0['l'] in vals and t2['dest']['l'] not in vals:
                            vals.add(t2['dest']['l'])
                            changed = True
                        if c2.endswith('Pin::new_unchecked') and a0['l'] in refs and t2['dest']['l'] not in pins:
                            pins.add(t2['dest']['l'])
                            changed = True
            polls = [b2 for b2 in r['blocks'] if b2['t']['k'] == 'call' and not b2.get('cleanup') and _sg(_fn_path(b2['t'])).endswith('Future::poll') and b2['t']['args'] and
                     (lambda a0: a0 is not None and not a0.get('p') and a0['l'] in pins)(b2['t']['args'][0].get('m') or b2['t']['args'][0].get('c'))]
            if dbg:
                print('await of', strip(cp), 'in', strip(r['path']), 'vals', sorted(vals), 'refs', sorted(refs), 'pins', sorted(pins), 'polls', len(polls))
            if len(polls) != 1 or polls[0]['t'].get('t') is None or polls[0]['t']['dest'].get('p'):
                continue
            pb = polls[0]
            # the local that holds the future when it is polled: the value the pinned reference points to
            held = None
            for b2 in r['blocks']:
                for s_ in b2['s']:
                    if s_['k'] == 'assign' and s_['rv']['k'] == 'ref' and not s_['rv']['p'].get('p') and s_['rv']['p']['l'] in vals and s_['lhs']['l'] in refs:
                        held = s_['rv']['p']
            if held is None:
                continue
            sp, exp = t.get('sp'), t.get('exp')
            # 1. the constructor call becomes the coroutine aggregate
            agg = copy.deepcopy(rv0)
            agg['ops'] = [copy.deepcopy(t['args'][k]) for k in idx]
            b['s'].append({'k': 'assign', 'lhs': t['dest'], 'rv': agg, 'sp': sp, 'exp': exp})
            b['t'] = {'k': 'goto', 't': t['t'], 'sp': sp}
            # 2. the poll becomes the helper's body
            pt = pb['t']
            rl, ready_bb = pt['dest'], pt['t']
            callee = copy.deepcopy(crec)
            rvs = [{'k': 'use', 'o': {'m': {'l': held['l'], 'p': [], 'ty': held.get('ty')}}}]
            if callee['argc'] >= 2:
                rvs.append({'k': 'use', 'o': {'c': {'l': 2, 'p': [], 'ty': r['locals'][2] if len(r['locals']) > 2 else 'core::future::ResumeTy'}}} if r.get('coroutine') else None)
                if rvs[-1] is None:
                    rvs.pop()
            vl = len(r['locals'])
            r['locals'] = r['locals'] + [callee['locals'][0]]
            r['blocks'].append({'s': [{'k': 'assign', 'lhs': rl, 'rv': {'k': 'agg', 'ak': 'adt', 'adt': 'core::task::poll::Poll', 'variant': 'Ready', 'vidx': 0, 'is_enum': True, 'fields': ['0'],
                                                                    'ops': [{'m': {'l': vl, 'p': [], 'ty': callee['locals'][0]}}]}, 'sp': sp, 'exp': exp}],
                                't': {'k': 'goto', 't': ready_bb, 'sp': sp}, 'cleanup': False})
            wrap_bb = len(r['blocks']) - 1
            _splice(r, pb, callee, rvs, {'l': vl, 'p': [], 'ty': callee['locals'][0]}, wrap_bb, sp, exp)
            # 3. the future is Ready when the body returns: the Pending edge of the original await is dead
            tb = r['blocks'][ready_bb]
            if tb['t']['k'] == 'switch' and any(s_['k'] == 'assign' and s_['rv']['k'] == 'discr' and s_['rv']['p']['l'] == rl['l'] for s_ in tb['s']):
                tgt = [x for v_, x in tb['t']['ts'] if v_ == 0]
                if tgt:
                    tb['t'] = {'k': 'goto', 't': tgt[0], 'sp': sp}
            log.setdefault(strip(r['path']), []).append(strip(crec['path']))
            done += 1
    merged = {c_ for v in log.values() for c_ in v}
    if merged:
        # helpers that were merged everywhere are no separate program points any more
        still = set()
        for r in records:
            for b in r['blocks']:
                if b['t']['k'] == 'call':
                    cp = _callee_path(b['t'])
                    if cp and strip(cp) in wrappers:
                        still.add(strip(wrappers[strip(cp)][2]['path']))
        drop = set()
        for p, (rv0, idx, crec) in wrappers.items():
            cpth = strip(crec['path'])
            if cpth in merged and cpth not in still:
                drop |= {p, cpth}
        records = [r for r in records if strip(r['path']) not in drop]
    return records, log


def inline_unknown(records, strip):
    """records: list of body dicts of one configuration (all crates). Returns (records, log). `strip` maps a raw path to
    the stripped path used as key."""
    known = known_functions()
    records, clog = expand_combinators(records, strip)
    if os.environ.get('LRS_ASYNC_INLINE'):
        # experimental, off by default: merging the helper's returns into one join block loses the correlation between the value
        # returned and the caller's `?` branch, which the must-pass-through rules of C06 rely on (DESIGN A.6)
        records, alog = inline_async(records, strip)
        for k_, v_ in alog.items():
            clog.setdefault(k_, []).extend(v_)
    by_path = {}
    for r in records:
        by_path.setdefault(strip(r['path']), []).append(r)
    unknown = {}
    for p, l in by_path.items():
        if len(l) != 1:
            continue
        r = l[0]
        if r.get('stage') == 'promoted' or r.get('coroutine') or '{closure' in p or '{constant' in p or '{impl' in p.split('::')[-1]:
            continue
        if p in known:
            continue
        ret = r['locals'][0] if r.get('locals') else ''
        if isinstance(ret, str) and ret.startswith('impl ') and 'future::Future<' in ret:
            continue        # constructor of an async fn: the call stays a call (the checks follow async calls by name)
        if p.split('::')[0].lstrip('<') not in ('lorawan', 'lorawan_device', 'lora_phy', 'lora_modulation'):
            continue
        unknown[p] = r
    if not unknown:
        return records, clog
    log = dict(clog)
    inlined_everywhere = set(unknown)

    def expand(body, depth, chain):
        i = 0
        while i < len(body['blocks']):
            b = body['blocks'][i]
            t = b['t']
            if t['k'] == 'call' and not b.get('cleanup'):
                cp = _callee_path(t)
                sp = strip(cp) if cp else None
                if sp in unknown and sp not in chain and depth < MAX_DEPTH and t.get('t') is not None:
                    callee = copy.deepcopy(unknown[sp])
                    if len(callee['blocks']) <= 400 and len(t['args']) == callee['argc']:
                        expand(callee, depth + 1, chain | {sp})
                        loff = len(body['locals'])
                        boff = len(body['blocks'])
                        body['locals'] = body['locals'] + callee['locals']
                        for cb in callee['blocks']:
                            _shift_block(cb, loff, boff)
                        # parameters
                        for ai, a in enumerate(t['args']):
                            ty = callee['locals'][ai + 1]
                            b['s'].append({'k': 'assign', 'lhs': {'l': loff + ai + 1, 'p': [], 'ty': ty}, 'rv': {'k': 'use', 'o': a}, 'sp': t.get('sp'), 'exp': t.get('exp')})
                        ret_ty = callee['locals'][0]
                        for cb in callee['blocks']:
                            if cb['t']['k'] == 'return':
                                cb['s'].append({'k': 'assign', 'lhs': t['dest'], 'rv': {'k': 'use', 'o': {'m': {'l': loff, 'p': [], 'ty': ret_ty}}}, 'sp': t.get('sp'), 'exp': t.get('exp')})
                                cb['t'] = {'k': 'goto', 't': t['t'], 'sp': t.get('sp')}
                        b['t'] = {'k': 'goto', 't': boff, 'sp': t.get('sp')}
                        body['blocks'] = body['blocks'] + callee['blocks']
                        for n_, pl in callee.get('dbg', []):
                            pl2 = copy.deepcopy(pl)
                            _shift_place(pl2, loff)
                            if pl2['l'] > loff + callee['argc']:
                                body['dbg'].append([n_, pl2])
                        log.setdefault(strip(body['path']), []).append(sp)
                        continue
                elif sp in unknown:
                    inlined_everywhere.discard(sp)
            i += 1
    for r in records:
        p = strip(r['path'])
        if p in unknown:
            continue
        expand(r, 0, frozenset())
    # helpers that now live inside their callers are not separate program points any more (their closures stay); a helper that is
    # only called from another dropped helper goes with it
    drop = set()
    while True:
        called = set()
        for r in records:
            if strip(r['path']) in drop:
                continue
            for b in r['blocks']:
                if b['t']['k'] == 'call':
                    cp = _callee_path(b['t'])
                    if cp:
                        called.add(strip(cp))
        more = {p for p in unknown if p in inlined_everywhere and p not in called and p not in drop
                and (any(p in v for v in log.values()) or not any(p == strip(r['path']) for r in records if strip(r['path']) not in unknown))}
        more = {p for p in more if any(p in v for v in log.values())}
        if not more:
            break
        drop |= more
    out = [r for r in records if strip(r['path']) not in drop]
    return out, log
