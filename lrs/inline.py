"""MIR-level inlining of helper functions that did not exist on the reviewed tree.

The rule tables of the property checks name functions (anchors, reviewed writers, call sites). A routine clean-up
that moves a few lines of such a function into a new private helper must not change any verdict: the helper is
part of the function it was extracted from. This pass restores that view: every call to a workspace function
whose path is NOT in the frozen list of function paths of the reviewed tree (lrs/known_functions.txt) is replaced
by the callee's blocks (locals and blocks renumbered, parameters assigned from the arguments, `return` turned into
an assignment of the destination and a goto). Functions of the reviewed tree are never inlined, so every anchor
keeps its meaning. Async helpers (coroutines), recursive helpers and indirect calls are left alone.

Works on the raw JSON records of the extractor, before the typed LIR is built."""
import copy
import os

MAX_DEPTH = 4
_known = None


def known_functions():
    global _known
    if _known is None:
        p = os.path.join(os.path.dirname(os.path.abspath(__file__)), 'known_functions.txt')
        with open(p) as f:
            _known = set(l.strip() for l in f if l.strip())
    return _known


def _shift_place(pl, loff):
    pl['l'] += loff
    for e in pl.get('p', []):
        if isinstance(e, dict) and 'i' in e:
            e['i'] += loff


def _shift_operand(o, loff):
    for k in ('c', 'm'):
        if k in o:
            _shift_place(o[k], loff)


def _shift_rv(rv, loff):
    k = rv['k']
    if k in ('use', 'rep', 'cast'):
        _shift_operand(rv['o'], loff)
    elif k in ('ref', 'rawptr', 'discr'):
        _shift_place(rv['p'], loff)
    elif k == 'bin':
        _shift_operand(rv['a'], loff)
        _shift_operand(rv['b'], loff)
    elif k == 'un':
        _shift_operand(rv['a'], loff)
    elif k == 'agg':
        for o in rv['ops']:
            _shift_operand(o, loff)
    elif k in ('len',) and 'p' in rv:
        _shift_place(rv['p'], loff)


def _shift_block(b, loff, boff):
    for s in b['s']:
        _shift_place(s['lhs'], loff)
        if s['k'] == 'assign':
            _shift_rv(s['rv'], loff)
    t = b['t']
    k = t['k']
    if 't' in t and t['t'] is not None:
        t['t'] += boff
    if k == 'call':
        _shift_operand(t['f'], loff)
        for a in t['args']:
            _shift_operand(a, loff)
        _shift_place(t['dest'], loff)
    elif k == 'switch':
        _shift_operand(t['d'], loff)
        t['ts'] = [[v, x + boff] for v, x in t['ts']]
        t['o'] += boff
    elif k == 'assert':
        _shift_operand(t['cond'], loff)
        for key in ('len', 'index', 'a', 'b'):
            if key in t:
                _shift_operand(t[key], loff)
    elif k == 'drop':
        _shift_place(t['p'], loff)
    elif k == 'yield':
        _shift_place(t['resume_arg'], loff)


def _callee_path(t):
    f = t.get('f') or {}
    c = f.get('k')
    if not c:
        return None
    return c.get('res') or c.get('fn')


def inline_unknown(records, strip):
    """records: list of body dicts of one configuration (all crates). Returns (records, log). `strip` maps a raw path to
    the stripped path used as key."""
    known = known_functions()
    by_path = {}
    for r in records:
        by_path.setdefault(strip(r['path']), []).append(r)
    unknown = {}
    for p, l in by_path.items():
        if len(l) != 1:
            continue
        r = l[0]
        if r.get('stage') == 'promoted' or r.get('coroutine') or '{closure' in p or '{constant' in p or '{impl' in p.split('::')[-1]:
            continue
        if p in known:
            continue
        ret = r['locals'][0] if r.get('locals') else ''
        if isinstance(ret, str) and ret.startswith('impl ') and 'future::Future<' in ret:
            continue        # constructor of an async fn: the call stays a call (the checks follow async calls by name)
        if p.split('::')[0].lstrip('<') not in ('lorawan', 'lorawan_device', 'lora_phy', 'lora_modulation'):
            continue
        unknown[p] = r
    if not unknown:
        return records, {}
    log = {}
    inlined_everywhere = set(unknown)

    def expand(body, depth, chain):
        i = 0
        while i < len(body['blocks']):
            b = body['blocks'][i]
            t = b['t']
            if t['k'] == 'call' and not b.get('cleanup'):
                cp = _callee_path(t)
                sp = strip(cp) if cp else None
                if sp in unknown and sp not in chain and depth < MAX_DEPTH and t.get('t') is not None:
                    callee = copy.deepcopy(unknown[sp])
                    if len(callee['blocks']) <= 400 and len(t['args']) == callee['argc']:
                        expand(callee, depth + 1, chain | {sp})
                        loff = len(body['locals'])
                        boff = len(body['blocks'])
                        body['locals'] = body['locals'] + callee['locals']
                        for cb in callee['blocks']:
                            _shift_block(cb, loff, boff)
                        # parameters
                        for ai, a in enumerate(t['args']):
                            ty = callee['locals'][ai + 1]
                            b['s'].append({'k': 'assign', 'lhs': {'l': loff + ai + 1, 'p': [], 'ty': ty}, 'rv': {'k': 'use', 'o': a}, 'sp': t.get('sp'), 'exp': t.get('exp')})
                        ret_ty = callee['locals'][0]
                        for cb in callee['blocks']:
                            if cb['t']['k'] == 'return':
                                cb['s'].append({'k': 'assign', 'lhs': t['dest'], 'rv': {'k': 'use', 'o': {'m': {'l': loff, 'p': [], 'ty': ret_ty}}}, 'sp': t.get('sp'), 'exp': t.get('exp')})
                                cb['t'] = {'k': 'goto', 't': t['t'], 'sp': t.get('sp')}
                        b['t'] = {'k': 'goto', 't': boff, 'sp': t.get('sp')}
                        body['blocks'] = body['blocks'] + callee['blocks']
                        for n_, pl in callee.get('dbg', []):
                            pl2 = copy.deepcopy(pl)
                            _shift_place(pl2, loff)
                            if pl2['l'] > loff + callee['argc']:
                                body['dbg'].append([n_, pl2])
                        log.setdefault(strip(body['path']), []).append(sp)
                        continue
                elif sp in unknown:
                    inlined_everywhere.discard(sp)
            i += 1
    for r in records:
        p = strip(r['path'])
        if p in unknown:
            continue
        expand(r, 0, frozenset())
    # helpers that now live inside their callers are not separate program points any more (their closures stay); a helper that is
    # only called from another dropped helper goes with it
    drop = set()
    while True:
        called = set()
        for r in records:
            if strip(r['path']) in drop:
                continue
            for b in r['blocks']:
                if b['t']['k'] == 'call':
                    cp = _callee_path(b['t'])
                    if cp:
                        called.add(strip(cp))
        more = {p for p in unknown if p in inlined_everywhere and p not in called and p not in drop
                and (any(p in v for v in log.values()) or not any(p == strip(r['path']) for r in records if strip(r['path']) not in unknown))}
        more = {p for p in more if any(p in v for v in log.values())}
        if not more:
            break
        drop |= more
    out = [r for r in records if strip(r['path']) not in drop]
    return out, log
