"""the interpreter part of absint: places, rvalues, terminators, calls, fixpoint"""
from .absint import (Analyzer, State, Lin, Frame, Infeasible, TOP, B_UNK, V_int, V_const, V_bool, cond_not, join_states,
                     INT_RANGES, parse_ty, _ty_str, MAX_SET, strip_ref, parse_array_ty)
from .lir import strip_turbofish, strip_generics
import os
TRACE = os.environ.get('LRS_TRACE')

CMP = {'Lt', 'Le', 'Gt', 'Ge', 'Eq', 'Ne'}


class Interp(Analyzer):

    # ------------------------------------------------------------------ pointers
    # Ptr forms: ('L', frame_id, local, path) | ('O', name, path) | ('E', sref, idxLin) | ('SL', sref) | ('T',)
    def resolve(self, place, frame, st):
        ptr = ('L', frame.id, place.local, ())
        ty = None
        for e in place.proj:
            if e == '*':
                v = self.read_ptr(ptr, frame, st)
                if v[0] == 'ref':
                    ptr = v[1]
                elif v[0] == 'sref':
                    ptr = ('SL', v)
                else:
                    ptr = ('T',)
            elif isinstance(e, str):
                pass
            elif 'f' in e:
                if ptr[0] in ('L', 'O'):
                    ptr = ptr[:-1] + (ptr[-1] + (('f', e['n'] or str(e['f']), e.get('adt')),),)
                elif ptr[0] == 'E':
                    # a field of an array / slice element (`arr[i].0`): element pointer with a path into the element
                    ptr = ('E', ptr[1], ptr[2], (ptr[3] if len(ptr) > 3 else ()) + (('f', e['n'] or str(e['f']), e.get('adt')),))
                else:
                    ptr = ('T',)
            elif 'dc' in e:
                if ptr[0] in ('L', 'O'):
                    ptr = ptr[:-1] + (ptr[-1] + (('dc', e['dc']),),)
                elif ptr[0] == 'E':
                    ptr = ('E', ptr[1], ptr[2], (ptr[3] if len(ptr) > 3 else ()) + (('dc', e['dc']),))
                else:
                    ptr = ('T',)
            elif 'i' in e:
                iv = st.env.get((frame.id, e['i']))
                idx = iv[1] if iv is not None and iv[0] == 'int' else None
                ptr = self._index_ptr(ptr, idx, frame, st)
            elif 'ci' in e:
                if e['fe']:
                    ptr = self._index_ptr(ptr, ('fromend', e['ci']), frame, st)
                else:
                    ptr = self._index_ptr(ptr, Lin.const(e['ci']), frame, st)
            elif 'sub' in e:
                a, b, fe = e['sub']
                ptr = self._subslice_ptr(ptr, a, b, fe, frame, st)
        return ptr

    def _as_sref(self, ptr, frame, st):
        """view an array/slice place as an sref"""
        if ptr[0] == 'SL':
            return ptr[1]
        if ptr[0] in ('L', 'O'):
            v = self.read_ptr(ptr, frame, st)
            if v[0] == 'array':
                n = v[1]
                if n is not None:
                    return ('sref', ptr, Lin.const(0), n if isinstance(n, Lin) else Lin.const(n))
        return None

    def _index_ptr(self, ptr, idx, frame, st):
        sr = self._as_sref(ptr, frame, st)
        if sr is None or idx is None:
            return ('T',)
        if isinstance(idx, tuple) and idx[0] == 'fromend':
            idx = sr[3] - Lin.const(idx[1])
        return ('E', sr, idx)

    def _subslice_ptr(self, ptr, a, b, fe, frame, st):
        sr = self._as_sref(ptr, frame, st)
        if sr is None:
            return ('T',)
        if fe:
            ln = sr[3] - Lin.const(a) - Lin.const(b)
        else:
            ln = Lin.const(b - a)
        return ('SL', ('sref', sr[1], sr[2] + Lin.const(a), ln))

    def _root_value(self, ptr, frame, st):
        if ptr[0] == 'L':
            v = st.env.get((ptr[1], ptr[2]))
            if v is None:
                # uninitialised / not yet seen local: materialise from its declared type
                fr = self._frame_by_id.get(ptr[1])
                ty = fr.body.locals[ptr[2]] if fr is not None else None
                v = self.materialize(ty, 'f%s_%d' % (ptr[1], ptr[2]), st, fr) if ty else TOP
                st.env[(ptr[1], ptr[2])] = v
            return v
        if ptr[0] == 'O':
            v = st.mem.get(('obj', ptr[1]))
            if v is None:
                ty = self.objtypes.get(ptr[1])
                v = self.materialize(ty, ptr[1], st, None) if ty else TOP
                st.mem[('obj', ptr[1])] = v
            return v
        return TOP

    def _descend(self, v, path, frame, st):
        variant = 0
        for p in path:
            if p[0] == 'dc':
                variant = p[1]
                continue
            if p[0] == 'f':
                if v[0] == 'adt' and v[2] is not None and len(v[2]) == 1 and variant == 0:
                    variant = next(iter(v[2])) if v[1] not in ('core::option::Option', 'core::result::Result') or True else variant
                v = self.field_of(v, variant, p[1], st, frame)
                variant = 0
        return v

    def read_ptr(self, ptr, frame, st):
        k = ptr[0]
        if k in ('L', 'O'):
            v = self._root_value(ptr, frame, st)
            return self._descend_path(v, ptr[-1], frame, st)
        if k == 'E':
            v = self.read_elem(ptr[1], ptr[2], frame, st)
            if len(ptr) > 3 and ptr[3]:
                return self._descend_path(v, ptr[3], frame, st) if v is not None else TOP
            return v
        if k == 'SL':
            return ptr[1]
        return TOP

    def _descend_path(self, v, path, frame, st):
        variant = None
        for p in path:
            if p[0] == 'dc':
                variant = p[1]
                continue
            if p[0] == 'f':
                if variant is None:
                    variant = 0
                    if v[0] == 'adt' and v[2] is not None and len(v[2]) == 1:
                        variant = next(iter(v[2]))
                v = self.field_of(v, variant, p[1], st, frame)
                variant = None
        return v

    def _update_path(self, v, path, newv, frame, st):
        if not path:
            return newv
        p = path[0]
        if p[0] == 'dc':
            if len(path) == 1:
                return v
            q = path[1]
            inner = self.field_of(v, p[1], q[1], st, frame) if v[0] in ('adt', 'tuple') else TOP
            nv = self._update_path(inner, path[2:], newv, frame, st)
            if v[0] != 'adt':
                return v
            return self.with_field(v, p[1], q[1], nv)
        if p[0] == 'f':
            variant = 0
            if v[0] == 'adt' and v[2] is not None and len(v[2]) == 1:
                variant = next(iter(v[2]))
            if v[0] not in ('adt', 'tuple', 'closure'):
                # writing a field of an unknown aggregate: build a fresh shell when the ADT is known
                if p[2]:
                    v = ('adt', strip_turbofish(p[2]), frozenset([0]), {}, None, ())
                else:
                    return TOP
            inner = self.field_of(v, variant, p[1], st, frame)
            nv = self._update_path(inner, path[1:], newv, frame, st)
            return self.with_field(v, variant, p[1], nv)
        return v

    def write_ptr(self, ptr, val, frame, st):
        k = ptr[0]
        if k == 'L':
            key = (ptr[1], ptr[2])
            if not ptr[3]:
                st.env[key] = val
            else:
                old = self._root_value(ptr, frame, st)
                st.env[key] = self._update_path(old, ptr[3], val, frame, st)
        elif k == 'O':
            if not ptr[2]:
                st.mem[('obj', ptr[1])] = val
            else:
                old = self._root_value(ptr, frame, st)
                st.mem[('obj', ptr[1])] = self._update_path(old, ptr[2], val, frame, st)
        elif k == 'E':
            if len(ptr) > 3 and ptr[3]:
                old = self.read_elem(ptr[1], ptr[2], frame, st)
                self.write_elem(ptr[1], ptr[2], self._update_path(old, ptr[3], val, frame, st) if old is not None and old[0] in ('adt', 'tuple', 'closure') else TOP, frame, st)
            else:
                self.write_elem(ptr[1], ptr[2], val, frame, st)
        elif k == 'SL':
            self.havoc_slice(ptr[1], st)

    # ------------------------------------------------------------------ slice contents
    def _base_key(self, base):
        return base

    def read_elem(self, sr, idx, frame, st):
        base, off = sr[1], sr[2]
        pos = off + idx
        if base[0] in ('L', 'O') and len(base) >= 3 and base[0] == 'L' or (base[0] == 'O' and len(base) == 3):
            arr = self.read_ptr(base, frame, st)
            if arr[0] == 'array':
                if pos.is_const():
                    v = arr[2].get(pos.k)
                    if v is not None:
                        return v
                    if arr[3] is not None:
                        return arr[3]
                    if len(arr) > 4 and arr[4] is not None:
                        return self.materialize(arr[5], '%s[%d]' % (arr[4], pos.k), st, frame)
                    return TOP
                # unknown index: join of the elements the index can select
                if arr[3] is not None and not arr[2]:
                    return arr[3]
                n_ = arr[1] if isinstance(arr[1], int) else None
                if n_ is not None and n_ <= 96 and arr[2]:
                    lo_, hi_ = st.lb(pos), st.ub(pos)
                    lo_ = 0 if lo_ is None or lo_ < 0 else lo_
                    hi_ = n_ - 1 if hi_ is None or hi_ > n_ - 1 else hi_
                    els = []
                    for i_ in range(lo_, hi_ + 1):
                        e_ = arr[2].get(i_, arr[3])
                        if e_ is None:
                            els = None
                            break
                        els.append(e_)
                    if els:
                        j_ = self.join_values(els, st, len(arr) > 5 and arr[5] or None)
                        if j_ is not None:
                            return j_
                ety = arr[5] if len(arr) > 5 else None
                if ety in INT_RANGES:
                    return ('int', self.fresh(st, ety, None, None, 'elem'))
                return TOP
        # symbolic memory: memoised per (base, constant position)
        ety = 'u8'
        if pos.is_const():
            key = ('el', base, pos.k)
            v = st.mem.get(key)
            if v is None:
                nm = '%s[%d]' % (base[1] if base[0] == 'O' else str(base), pos.k)
                v = self.fresh_int(st, nm, ety)
                st.mem[key] = v
            return v
        return ('int', self.fresh(st, ety, None, None, 'elem'))

    def join_values(self, vals, st, ety=None):
        """state-free join of abstract values (used for reads at an unknown index)"""
        first = vals[0]
        if all(v == first for v in vals):
            return first
        k = first[0]
        if any(v[0] != k for v in vals):
            return None
        if k == 'int':
            los = [st.lb(v[1]) for v in vals]
            his = [st.ub(v[1]) for v in vals]
            sets = [st.values(v[1]) for v in vals]
            ty = ety if ety in INT_RANGES else 'u64'
            if all(x is not None for x in sets):
                u = frozenset().union(*sets)
                if len(u) <= MAX_SET:
                    return self._from_set(st, ty, u)
            return ('int', self.fresh(st, ty, None if None in los else min(los), None if None in his else max(his), 'sel'))
        if k == 'bool':
            return ('bool', B_UNK)
        if k == 'adt':
            if any(v[1] != first[1] for v in vals):
                return None
            vs = None if any(v[2] is None for v in vals) else frozenset().union(*[v[2] for v in vals])
            keys = set()
            for v in vals:
                keys |= set(v[3])
            fl = {}
            for key in keys:
                parts = [v[3][key] for v in vals if key in v[3]]
                # a field of variant x is only meaningful for values that have that variant
                holders = [v for v in vals if v[2] is None or key[0] in v[2]]
                if len(parts) == len(holders) and parts:
                    j = self.join_values(parts, st)
                    if j is not None:
                        fl[key] = j
                    else:
                        fl[key] = TOP
                else:
                    fl[key] = TOP
            return ('adt', first[1], vs, fl, None, ())
        if k == 'tuple':
            if any(len(v[1]) != len(first[1]) for v in vals):
                return None
            return ('tuple', tuple(self.join_values([v[1][i] for v in vals], st) or TOP for i in range(len(first[1]))))
        return None

    def write_elem(self, sr, idx, val, frame, st):
        base, off = sr[1], sr[2]
        pos = off + idx
        if base[0] == 'L' or (base[0] == 'O' and len(base) == 3):
            arr = self.read_ptr(base, frame, st)
            if arr[0] == 'array':
                if pos.is_const():
                    el = dict(arr[2])
                    el[pos.k] = val
                    self.write_ptr(base, ('array', arr[1], el, arr[3]) + tuple(arr[4:]), frame, st)
                else:
                    # weak update: forget element knowledge
                    self.write_ptr(base, ('array', arr[1], {}, None) + ((None,) + tuple(arr[5:]) if len(arr) > 4 else ()), frame, st)
                return
        if base[0] == 'P':
            for src in base[2]:
                self.havoc_slice(('sref', src, None, None), st)
        if pos.is_const():
            st.mem[('el', base, pos.k)] = val
        else:
            self.havoc_slice(sr, st)

    def havoc_slice(self, sr, st):
        base = sr[1]
        if base[0] == 'P':
            for src in base[2]:
                self.havoc_slice(('sref', src, None, None), st)
        for k in [k for k in st.mem if k[0] == 'el' and k[1] == base]:
            del st.mem[k]
        if base[0] == 'L':
            key = (base[1], base[2])
            v = st.env.get(key)
            if v is not None and v[0] == 'array' and not base[3]:
                st.env[key] = ('array', v[1], {}, None) + ((None,) + tuple(v[5:]) if len(v) > 4 else ())

    # ------------------------------------------------------------------ operands / rvalues
    def eval_operand(self, op, frame, st):
        if op.place is not None:
            ptr = self.resolve(op.place, frame, st)
            v = self.read_ptr(ptr, frame, st)
            if v is TOP or v == TOP:
                ty = self.subst_ty(op.place.ty, frame)
                if ty in INT_RANGES or ty == 'bool':
                    return self.materialize_fresh(ty, 'u', st, frame)
            return v
        c = op.const
        ty = c.get('ty', '')
        if 'v' in c:
            if ty == 'bool':
                return ('bool', ('const', bool(c['v'])))
            self.thresholds.add(c['v'])
            return V_const(c['v'])
        if 'fn' in c:
            return ('fn', c)
        if 'cdef' in c:
            cd = self.prog.consts.get(c['cdef'])
            if cd is not None and 'v' in cd:
                return V_const(cd['v'])
            if ty in INT_RANGES:
                r_ = self.eval_assoc_const(c['cdef'], st, frame)
                if r_ is not None:
                    return r_
        s = c.get('s')
        if s is not None and frame is not None and s in frame.subst:
            v = self.const_usize(frame.subst[s], None)
            if v is not None:
                return V_const(v)
        if s is not None and ty in INT_RANGES and 'promoted' not in c and 'cdef' not in c:
            g = self.generic_const(s, st)
            if g is not None:
                return ('int', g)
        if 'promoted' in c:
            return self.eval_promoted(c, frame, st)
        if 'cdef' in c and ty not in INT_RANGES and ty != 'bool':
            r_ = self.eval_const_item(c['cdef'], frame, st)
            if r_ is not None:
                return r_
        ty2 = self.subst_ty(ty, frame)
        if ty2 in INT_RANGES or ty2 == 'bool':
            return self.materialize_fresh(ty2, 'c', st, frame)
        if ty2.startswith('&') and ('[' in ty2 or 'str' in ty2):
            return self.materialize_fresh(ty2, 'k', st, frame)
        return TOP

    def materialize_fresh(self, ty, hint, st, frame):
        """materialise an unknown value at the current program point (symbols are re-initialised)"""
        nm = '%s#%s' % (hint, self.nid())
        for d in (st.lo, st.hi, st.sets):
            for k in [k for k in d if k == nm or k.startswith(nm + '.') or k.startswith(nm + '[') or k.startswith(nm + '*')]:
                del d[k]
        for k in [k for k in st.mem if k[0] == 'obj' and (k[1] == nm + '*' or str(k[1]).startswith(nm + '.'))]:
            del st.mem[k]
        return self.materialize(ty, nm, st, frame)

    def eval_promoted(self, c, frame, st):
        path = '%s::promoted[%d]' % (c.get('def'), c['promoted'])
        b = self.prog.bodies.get(path)
        if b is None or frame.depth >= self.max_depth + 2:
            return TOP
        r = self.call_body(b, [], frame, st, {}, site='promoted', keep_frame=True)
        return r if r is not None else TOP

    def eval_const_item(self, path, frame, st):
        """abstract value of a `const` / `static` item of aggregate type: its initialiser body is interpreted
        (the frame is kept alive: references into the constant are handed out)"""
        b = self.prog.bodies.get(path)
        if b is None:
            return self.eval_assoc_const(path, st, frame)
        if frame is None or frame.depth >= self.max_depth + 2:
            return None
        if b.blocks and len(b.blocks) > 400:
            return None
        hit = self._const_cache.get(path)
        if hit is not None:
            rv, envitems = hit
            st.env.update(envitems)
            return rv
        # evaluate once in a dedicated frame whose id only depends on the item (constants are immutable)
        saved = (self._site, self._ctr)
        self._site, self._ctr = 'K:' + path, 0
        try:
            rv = self.call_body(b, [], frame, st, {}, site='const', keep_frame=True)
        finally:
            self._site, self._ctr = saved
        pref = 'K:' + path
        envitems = {k: v for k, v in st.env.items() if isinstance(k[0], str) and k[0].startswith(pref)}
        from .absint import syms_of_value
        sy = set()
        syms_of_value(rv, sy)
        for v_ in envitems.values():
            syms_of_value(v_, sy)
        if not sy and rv is not None:
            self._const_cache[path] = (rv, envitems)
        return rv

    def eval_assoc_const(self, path, st, frame=None):
        """`<T as Trait>::NAME` with T a type parameter: the set of values the workspace impls give to NAME"""
        import re as _re
        m = _re.match(r'^<.* as ([^<>]+(?:<.*>)?)>::([A-Z0-9_]+)$', path) or _re.match(r'^([A-Za-z0-9_:]+)::([A-Z0-9_]+)$', path)
        if not m:
            return None
        trait, name = m.group(1).split('<')[0], m.group(2)
        vals = set()
        ty = None
        for cp, cd in self.prog.consts.items():
            if cd.get('kind', '').startswith('AssocConst') and cp.endswith('::' + name) and cp != path:
                par = cd.get('parent', '')
                if trait in par or (' as ' in cp and trait in cp):
                    if 'v' in cd:
                        vals.add(cd['v'])
                        ty = cd['ty']
                    else:
                        # the impl is generic: interpret the initialiser (it must not depend on the parameters)
                        b_ = self.prog.bodies.get(cp)
                        if b_ is None or frame is None:
                            return None
                        r_ = self.call_body(b_, [], frame, st, {}, site='const')
                        l_ = self.as_int(r_, st) if r_ is not None and r_[0] in ('int', 'bool') else None
                        vs_ = st.values(l_) if l_ is not None else None
                        if vs_ is None:
                            return None
                        vals |= set(vs_)
                        ty = cd['ty']
        if vals and ty in INT_RANGES:
            return self._from_set(st, ty, vals)
        return None

    def as_int(self, v, st, ty=None):
        if v[0] == 'int':
            return v[1]
        if v[0] == 'bool':
            c = v[1]
            if c[0] == 'const':
                return Lin.const(1 if c[1] else 0)
            if c[0] == 'cmp' and c[1] == 'Ne' and c[3] == Lin.const(0) and c[2].single():
                s = c[2].single()[0]
                if st.lo.get(s) == 0 and st.hi.get(s) == 1:
                    return c[2]
        return None

    def nid(self):
        """deterministic id for a value created at the current program point"""
        self._ctr += 1
        return '%s:%d' % (self._site, self._ctr)

    def fresh(self, st, ty, lo=None, hi=None, hint='t', key=None):
        if key is not None:
            # value numbering: a pure operation on the same operands denotes the same value wherever it is computed
            nm = 'vn:%s' % (key,)
            if nm in st.lo or nm in st.hi:
                # keep refinements already learned about this value; only tighten with the new bounds
                tl, th = INT_RANGES.get(ty, (None, None))
                try:
                    st.set_bounds(nm, lo if lo is not None else tl, hi if hi is not None else th)
                except Infeasible:
                    raise
                return Lin.sym(nm)
        else:
            nm = '%s#%s' % (hint, self.nid())
        st.lo.pop(nm, None)
        st.hi.pop(nm, None)
        st.sets.pop(nm, None)
        tl, th = INT_RANGES.get(ty, (None, None))
        if lo is None or (tl is not None and lo < tl):
            lo = tl
        if hi is None or (th is not None and hi > th):
            hi = th
        if lo is not None:
            st.lo[nm] = lo
        if hi is not None:
            st.hi[nm] = hi
        return Lin.sym(nm)

    def int_result(self, st, ty, lin, exact_ok=True):
        """lin if provably within ty's range else a fresh symbol spanning the range intersected with lin's bounds"""
        lo, hi = INT_RANGES[ty]
        l, u = st.lb(lin), st.ub(lin)
        if l is not None and u is not None and l >= lo and u <= hi:
            return lin
        return None

    def binop(self, op, a, b, ty, frame, st):
        r = self._binop(op, a, b, ty, frame, st)
        # definition of a freshly created symbol (state independent): used by the bit-provenance view (lrs/bits.py)
        try:
            base_ = op.replace('WithOverflow', '').replace('Unchecked', '')
            if base_ in ('BitAnd', 'BitOr', 'BitXor', 'Shl', 'Shr', 'Add', 'Sub', 'Mul', 'Rem', 'Div') and r[0] == 'int' and r[1].single() and r[1].k == 0 and r[1].single()[1] == 1:
                s_ = r[1].single()[0]
                la_, lb2_ = self.as_int(a, st), self.as_int(b, st)
                if la_ is not None and lb2_ is not None and s_ not in la_.co and s_ not in lb2_.co and ('#' in s_ or s_.startswith('vn:')):
                    ty_ = self.subst_ty(ty, frame)
                    self.bitdef.setdefault(s_, (base_, la_, lb2_, ty_))
                    if base_ in ('BitAnd', 'BitOr', 'BitXor', 'Shr', 'Shl') and ty_ in ('u8', 'u16', 'u32'):
                        # the bit view may know more than the interval view (masking of a partly known byte)
                        from .bits import BitView, WIDTH
                        bl_ = BitView(self, st).sym_bits(s_, WIDTH[ty_], 0)
                        if all(x_ in (0, 1) for x_ in bl_):
                            return V_const(sum(x_ << k_ for k_, x_ in enumerate(bl_)))
                        from .bits import lin_of_bits
                        ex_ = lin_of_bits(st, bl_)
                        if ex_ is not None:
                            return ('int', ex_)
                        hi_ = sum((0 if x_ == 0 else 1) << k_ for k_, x_ in enumerate(bl_))
                        lo_ = sum((1 if x_ == 1 else 0) << k_ for k_, x_ in enumerate(bl_))
                        if st.hi.get(s_) is None or st.hi[s_] > hi_:
                            st.hi[s_] = hi_
                        if st.lo.get(s_) is None or st.lo[s_] < lo_:
                            st.lo[s_] = lo_
        except Exception:
            pass
        # provenance of freshly created symbols (used to classify obligations: which inputs does a value depend on)
        try:
            out = set()
            from .absint import syms_of_value
            syms_of_value(r, out)
            src = set()
            syms_of_value(a, src)
            syms_of_value(b, src)
            for s_ in out:
                if '#' in s_ and s_ not in src:
                    self.sym_deps.setdefault(s_, set()).update(src)
        except Exception:
            pass
        return r

    def _binop(self, op, a, b, ty, frame, st):
        """ty: operand type. returns value"""
        ty = self.subst_ty(ty, frame)
        self._vnkey = None
        la0, lb0 = self.as_int(a, st), self.as_int(b, st)
        if la0 is not None and lb0 is not None:
            self._vnkey = '%s(%r,%r)%s' % (op.replace('WithOverflow', '').replace('Unchecked', ''), la0, lb0, ty)
        if op in CMP:
            if ty == 'bool' or a[0] == 'bool' or b[0] == 'bool':
                la, lb_ = self.as_int(a, st), self.as_int(b, st)
            else:
                la, lb_ = self.as_int(a, st), self.as_int(b, st)
            if la is None or lb_ is None:
                return ('bool', B_UNK)
            cond = ('cmp', op, la, lb_)
            if st.prove_cmp(op, la, lb_):
                return ('bool', ('const', True))
            neg = cond_not(cond)
            if st.prove_cmp(neg[1], neg[2], neg[3]):
                return ('bool', ('const', False))
            return ('bool', cond)
        if ty == 'bool':
            ca = a[1] if a[0] == 'bool' else B_UNK
            cb = b[1] if b[0] == 'bool' else B_UNK
            if op == 'BitAnd':
                if ca[0] == 'const':
                    return b if ca[1] else a
                if cb[0] == 'const':
                    return a if cb[1] else b
                return ('bool', ('and', ca, cb))
            if op == 'BitOr':
                if ca[0] == 'const':
                    return a if ca[1] else b
                if cb[0] == 'const':
                    return b if cb[1] else a
                return ('bool', cond_not(('and', cond_not(ca), cond_not(cb))))
            return ('bool', B_UNK)
        if ty not in INT_RANGES:
            return TOP
        la, lb_ = self.as_int(a, st), self.as_int(b, st)
        tlo, thi = INT_RANGES[ty]
        if la is None or lb_ is None:
            return ('int', self.fresh(st, ty))
        base = op.replace('WithOverflow', '').replace('Unchecked', '')
        res = None
        ovf = B_UNK
        if base == 'Add':
            res = la + lb_
        elif base == 'Sub':
            res = la - lb_
        elif base == 'Mul':
            if la.is_const():
                res = lb_.scale(la.k)
            elif lb_.is_const():
                res = la.scale(lb_.k)
            else:
                al, au, bl, bu = st.lb(la), st.ub(la), st.lb(lb_), st.ub(lb_)
                if None not in (al, au, bl, bu):
                    c = [al * bl, al * bu, au * bl, au * bu]
                    lo, hi = min(c), max(c)
                    if op.endswith('WithOverflow'):
                        nm = 'mul#%s' % self.nid()
                        st.sets.pop(nm, None)
                        st.lo[nm] = lo
                        st.hi[nm] = hi
                        res = Lin.sym(nm)
                    else:
                        res = None if (lo < tlo or hi > thi) else self.fresh(st, ty, lo, hi, 'mul', key=self._vnkey)
                        if res is None:
                            res = self.fresh(st, ty)
                        return ('int', res)
                else:
                    if op.endswith('WithOverflow'):
                        return ('tuple', (('int', self.fresh(st, ty)), ('bool', B_UNK)))
                    return ('int', self.fresh(st, ty))
        if base in ('Add', 'Sub', 'Mul') and res is not None:
            if op.endswith('WithOverflow'):
                # overflow flag: res outside [tlo, thi]
                inr = st.prove_le0(res - Lin.const(thi)) and st.prove_le0(Lin.const(tlo) - res)
                flag = ('const', False) if inr else ('ovf', res, tlo, thi)
                return ('tuple', (('int', res), ('bool', flag)))
            l, u = st.lb(res), st.ub(res)
            if l is not None and u is not None and l >= tlo and u <= thi:
                return ('int', res)
            if st.prove_le0(res - Lin.const(thi)) and st.prove_le0(Lin.const(tlo) - res):
                return ('int', res)
            return ('int', self.fresh(st, ty))     # may wrap
        al, au, bl, bu = st.lb(la), st.ub(la), st.lb(lb_), st.ub(lb_)
        if base == 'Div':
            if lb_.is_const() and lb_.k > 0 and al is not None and au is not None and al >= 0:
                if la.is_const():
                    return V_const(la.k // lb_.k)
                q = self.fresh(st, ty, al // lb_.k, au // lb_.k, 'div', key=self._vnkey)
                if lb_.k > 1 and len(st.cons) < 100:
                    # q = a / c:  c*q <= a <= c*q + c - 1
                    st.cons.add(q.scale(lb_.k) - la)
                    st.cons.add(la - q.scale(lb_.k) - Lin.const(lb_.k - 1))
                return ('int', q)
            if None not in (al, au, bl, bu) and al >= 0 and bl > 0:
                return ('int', self.fresh(st, ty, al // bu, au // bl, 'div', key=self._vnkey))
            if None not in (al, au, bl, bu) and bl > 0:
                tr = lambda x, y: -((-x) // y) if x < 0 else x // y     # truncation toward zero
                c_ = [tr(al, bl), tr(al, bu), tr(au, bl), tr(au, bu)]
                return ('int', self.fresh(st, ty, min(c_), max(c_), 'div'))
            return ('int', self.fresh(st, ty))
        if base == 'Rem':
            if lb_.is_const() and lb_.k > 0 and al is not None and al >= 0:
                if la.is_const():
                    return V_const(la.k % lb_.k)
                if au is not None and au < lb_.k:
                    return ('int', la)
                return ('int', self.fresh(st, ty, 0, lb_.k - 1 if au is None else min(au, lb_.k - 1), 'rem'))
            if bl is not None and bl > 0 and bu is not None and al is not None and al >= 0:
                return ('int', self.fresh(st, ty, 0, bu - 1, 'rem', key=self._vnkey))
            return ('int', self.fresh(st, ty))
        if base == 'BitAnd':
            va, vb = st.values(la), st.values(lb_)
            if va is not None and vb is not None and len(va) * len(vb) <= 256:
                return self._from_set(st, ty, {x & y for x in va for y in vb})
            his = [x for x in (au if al is not None and al >= 0 else None, bu if bl is not None and bl >= 0 else None) if x is not None]
            if his:
                return ('int', self.fresh(st, ty, 0, min(his), 'and'))
            return ('int', self.fresh(st, ty))
        if base in ('BitOr', 'BitXor'):
            # x | y = x + y when x is a multiple of 2^k and 0 <= y < 2^k (bit supports are disjoint)
            for x_, y_ in ((la, lb_), (lb_, la)):
                nums = [abs(c_) for c_ in x_.co.values()] + ([abs(x_.k)] if x_.k else [])
                if not nums:
                    continue
                p2 = min((n_ & -n_) for n_ in nums)
                yl, yu, xl = st.lb(y_), st.ub(y_), st.lb(x_)
                if p2 > 1 and yl is not None and yl >= 0 and yu is not None and yu < p2 and xl is not None and xl >= 0:
                    r_ = x_ + y_
                    ru = st.ub(r_)
                    if ru is not None and ru <= thi:
                        return ('int', r_)
            va, vb = st.values(la), st.values(lb_)
            if va is not None and vb is not None and len(va) * len(vb) <= 256:
                f = (lambda x, y: x | y) if base == 'BitOr' else (lambda x, y: x ^ y)
                return self._from_set(st, ty, {f(x, y) for x in va for y in vb})
            if None not in (al, au, bl, bu) and al >= 0 and bl >= 0:
                hi = (1 << max(au, bu).bit_length()) - 1
                lo = max(al, bl) if base == 'BitOr' else 0
                return ('int', self.fresh(st, ty, lo, hi, 'or', key=self._vnkey))
            return ('int', self.fresh(st, ty))
        if base == 'Shr':
            if lb_.is_const() and al is not None and au is not None and al >= 0:
                if la.is_const():
                    return V_const(la.k >> lb_.k)
                return ('int', self.fresh(st, ty, al >> lb_.k, au >> lb_.k, 'shr', key=self._vnkey))
            if al is not None and au is not None and al >= 0:
                return ('int', self.fresh(st, ty, 0, au, 'shr', key=self._vnkey))
            return ('int', self.fresh(st, ty))
        if base == 'Shl':
            if lb_.is_const() and 0 <= lb_.k < 128 and au is not None and al is not None and al >= 0:
                m = 1 << lb_.k
                if au * m <= thi:
                    return ('int', la.scale(m))
                # a constant left shift that can push set bits out of the type (no overflow check in Rust): recorded per function
                if frame is not None and getattr(self, 'lossy_shifts', None) is not None and lb_.k > 0:
                    self.lossy_shifts.setdefault(frame.body.path, []).append((ty, lb_.k, al, au, getattr(self, '_cur_span', None)))
                bits = {'u8': 8, 'u16': 16, 'u32': 32, 'u64': 64, 'usize': 64, 'u128': 128}.get(ty)
                if bits:
                    va = st.values(la)
                    if va is not None:
                        return self._from_set(st, ty, {(x << lb_.k) & ((1 << bits) - 1) for x in va})
                return ('int', self.fresh(st, ty))
            va, vb = st.values(la), st.values(lb_)
            bits = {'u8': 8, 'u16': 16, 'u32': 32, 'u64': 64, 'usize': 64, 'u128': 128, 'i32': 32}.get(ty)
            if va is not None and vb is not None and bits and len(va) * len(vb) <= 256 and all(0 <= y < bits for y in vb) and tlo == 0:
                return self._from_set(st, ty, {(x << y) & ((1 << bits) - 1) for x in va for y in vb})
            return ('int', self.fresh(st, ty))
        if base == 'Offset':
            return TOP
        return ('int', self.fresh(st, ty))

    def _from_set(self, st, ty, vals):
        vals = frozenset(vals)
        if len(vals) == 1:
            return V_const(next(iter(vals)))
        nm = 'set#%s' % self.nid()
        st.sets.pop(nm, None)
        st.lo[nm] = min(vals)
        st.hi[nm] = max(vals)
        if len(vals) <= MAX_SET:
            st.sets[nm] = vals
        return ('int', Lin.sym(nm))

    def cast_int(self, v, from_ty, to_ty, frame, st):
        to_ty = self.subst_ty(to_ty, frame)
        from_ty = self.subst_ty(from_ty or '', frame)
        if to_ty not in INT_RANGES:
            return TOP
        lin = self.as_int(v, st)
        if lin is None:
            if v[0] == 'bool' or from_ty == 'bool':
                # `flag as iN`: 0 or 1
                if v[0] == 'bool' and isinstance(v[1], tuple) and v[1][:1] == ('const',):
                    return V_const(1 if v[1][1] else 0)
                return ('int', self.fresh(st, to_ty, 0, 1, 'b2i'))
            if v[0] == 'discr':
                # enum -> integer cast of a discriminant read: the declared discriminants of the possible variants
                head, vs = v[2], v[3]
                a = self.prog.adts.get(head) if head else None
                if a is not None:
                    idxs = vs if vs is not None else range(len(a['variants']))
                    vals = {a['variants'][i]['discr'] for i in idxs if i < len(a['variants'])}
                    lo_, hi_ = INT_RANGES[to_ty]
                    if vals and all(lo_ <= x <= hi_ for x in vals):
                        return self._from_set(st, to_ty, vals)
                return ('int', self.fresh(st, to_ty, 0, 255, 'discr'))
            if v[0] == 'adt' and v[1] in self.prog.adts and self.prog.adts[v[1]]['kind'] == 'Enum':
                a = self.prog.adts[v[1]]
                idxs = v[2] if v[2] is not None else range(len(a['variants']))
                vals = {a['variants'][i]['discr'] for i in idxs if i < len(a['variants'])}
                lo_, hi_ = INT_RANGES[to_ty]
                if vals and all(lo_ <= x <= hi_ for x in vals):
                    return self._from_set(st, to_ty, vals)
            a = self.prog.adts.get(strip_generics(from_ty)) if from_ty else None
            if a is not None and a['kind'] == 'Enum':
                # unknown value of an enum type: any declared discriminant
                vals = {x['discr'] for x in a['variants'] if x.get('discr') is not None}
                lo_, hi_ = INT_RANGES[to_ty]
                if vals and all(lo_ <= x <= hi_ for x in vals):
                    return self._from_set(st, to_ty, vals)
            return ('int', self.fresh(st, to_ty))
        lo, hi = INT_RANGES[to_ty]
        l, u = st.lb(lin), st.ub(lin)
        if l is not None and u is not None and l >= lo and u <= hi:
            return ('int', lin)
        self.lossy_casts.setdefault(frame.body.path, []).append((from_ty, to_ty, l, u))
        va = st.values(lin)
        if va is None:
            r_ = self.fresh(st, to_ty)
            self.bitdef[r_.single()[0]] = ('cast', lin, from_ty, to_ty)
            if to_ty in ('u8', 'u16', 'u32'):
                from .bits import BitView, WIDTH, lin_of_bits
                ex_ = lin_of_bits(st, BitView(self, st).sym_bits(r_.single()[0], WIDTH[to_ty], 0))
                if ex_ is not None:
                    return ('int', ex_)
            return ('int', r_)
        if va is not None:
            bits = {'u8': 8, 'u16': 16, 'u32': 32, 'u64': 64, 'usize': 64, 'u128': 128, 'i8': 8, 'i16': 16, 'i32': 32, 'i64': 64, 'isize': 64, 'i128': 128}[to_ty]
            out = set()
            for x in va:
                y = x & ((1 << bits) - 1)
                if lo < 0 and y >= (1 << (bits - 1)):
                    y -= (1 << bits)
                out.add(y)
            return self._from_set(st, to_ty, out)
        return ('int', self.fresh(st, to_ty))

    def eval_rvalue(self, rv, lhs_ty, frame, st):
        k = rv.k
        if k == 'use':
            return self.eval_operand(rv.ops[0], frame, st)
        if k in ('ref', 'rawptr'):
            ptr = self.resolve(rv.place, frame, st)
            if ptr[0] == 'SL':
                return ptr[1]
            if ptr[0] == 'T':
                return self.materialize_fresh(self.subst_ty(lhs_ty, frame), 'r', st, frame)
            return ('ref', ptr)
        if k == 'cast':
            ck = rv.d['ck']
            v = self.eval_operand(rv.ops[0], frame, st)
            if ck == 'IntToInt':
                return self.cast_int(v, rv.d.get('from'), rv.d['ty'], frame, st)
            if ck.startswith('Ptr:Unsize'):
                if v[0] == 'ref':
                    sr = self._as_sref(v[1], frame, st)
                    if sr is not None:
                        return sr
                    # array of unknown content: use the static type
                    fa = parse_ty(self.subst_ty(rv.d.get('from') or '', frame))
                    if fa[0] == 'ref' and fa[2][0] == 'array':
                        n = self.const_usize(fa[2][2], frame)
                        if n is not None:
                            return ('sref', v[1], Lin.const(0), Lin.const(n))
                return v if v[0] == 'sref' else self._mat_anon(rv.d['ty'], frame, st)
            if ck.startswith('Ptr:') or ck == 'Transmute' or ck == 'PtrToPtr':
                return v
            return self._mat_anon(rv.d['ty'], frame, st)
        if k == 'bin':
            a = self.eval_operand(rv.ops[0], frame, st)
            b = self.eval_operand(rv.ops[1], frame, st)
            return self.binop(rv.d['op'], a, b, rv.d['ty'], frame, st)
        if k == 'un':
            op = rv.d['op']
            a = self.eval_operand(rv.ops[0], frame, st)
            if op == 'Not':
                if a[0] == 'bool':
                    return ('bool', cond_not(a[1]))
                ty = self.subst_ty(rv.d['ty'], frame)
                lin = self.as_int(a, st)
                if lin is not None and ty in INT_RANGES and INT_RANGES[ty][0] == 0:
                    return ('int', Lin.const(INT_RANGES[ty][1]) - lin)
                return self._mat_anon(rv.d['ty'], frame, st)
            if op == 'Neg':
                lin = self.as_int(a, st)
                ty = self.subst_ty(rv.d['ty'], frame)
                if lin is not None and ty in INT_RANGES:
                    r = -lin
                    if self.int_result(st, ty, r) is not None:
                        return ('int', r)
                return self._mat_anon(rv.d['ty'], frame, st)
            if op == 'PtrMetadata':
                if a[0] == 'sref':
                    return ('int', a[3])
                return ('int', self.fresh(st, 'usize', 0, 2**63 - 1, 'len'))
            return TOP
        if k == 'discr':
            ptr = self.resolve(rv.place, frame, st)
            v = self.read_ptr(ptr, frame, st)
            if v[0] == 'adt':
                return ('discr', ptr, v[1], v[2])
            return ('discr', ptr, None, None)
        if k == 'agg':
            ak = rv.d['ak']
            ops = [self.eval_operand(o, frame, st) for o in rv.ops]
            if ak == 'tuple':
                return ('tuple', tuple(ops))
            if ak == 'array':
                return ('array', len(ops), dict(enumerate(ops)), None, None, self.subst_ty(rv.d.get('ety', ''), frame))
            if ak == 'adt':
                head = strip_turbofish(rv.d['adt'])
                vi = rv.d['vidx']
                fl = rv.d.get('fields', [])
                fields = {(vi, fl[i] if i < len(fl) else str(i)): o for i, o in enumerate(ops)}
                val = ('adt', head, frozenset([vi]), fields, None, ())
                self.on_construct(head, val, frame, st, rv)
                return val
            if ak in ('closure', 'coroutine', 'coroutine_closure'):
                return ('closure', rv.d['def'], tuple(ops))
            return TOP
        if k == 'rep':
            v = self.eval_operand(rv.ops[0], frame, st)
            n = rv.d['n']
            if n is None:
                at = parse_array_ty(self.subst_ty(lhs_ty, frame))
                n = self.const_usize(at[1], frame) if at else None
                if n is None and at:
                    n = self.generic_const(at[1], st)
            ety = None
            at = parse_array_ty(self.subst_ty(lhs_ty, frame))
            if at:
                ety = at[0]
            return ('array', n, {}, v, None, ety)
        return TOP

    def _mat_anon(self, ty, frame, st):
        return self.materialize_fresh(self.subst_ty(ty, frame), 'a', st, frame)

    def on_construct(self, head, val, frame, st, rv):
        chk = self.construct_checks.get(head)
        if chk is not None:
            chk(self, head, val, frame, st)
        rec = self.construct_recorders.get(head)
        if rec is not None:
            rec(self, head, val, frame, st)

    # ------------------------------------------------------------------ statements
    def exec_stmt(self, s, frame, st):
        if s.k == 'assign':
            v = self.eval_rvalue(s.rv, s.lhs.ty, frame, st)
            ptr = self.resolve(s.lhs, frame, st)
            if TRACE and TRACE in frame.body.path:
                print('   TRACE %s: %s := %s' % (frame.body.path.split('::')[-1], s.dump() if hasattr(s, 'dump') else s.lhs, str(v)[:300]))
            if ptr[0] == 'T':
                return
            self.write_ptr(ptr, v, frame, st)
        elif s.k == 'setdiscr':
            ptr = self.resolve(s.lhs, frame, st)
            v = self.read_ptr(ptr, frame, st)
            if v[0] == 'adt':
                self.write_ptr(ptr, ('adt', v[1], frozenset([s.v]), v[3]) + tuple(v[4:]), frame, st)

    # ------------------------------------------------------------------ branch refinement
    def refine_bool(self, v, want, st):
        """returns refined state or None if infeasible"""
        s2 = st.copy()
        try:
            if v[0] == 'bool':
                c = v[1] if want else cond_not(v[1])
                if c[0] == 'variant' or (c[0] == 'not' and c[1][0] == 'variant'):
                    pos = c[0] == 'variant'
                    vc = c if pos else c[1]
                    ptr, wantv = vc[1], vc[2]
                    cur = self.read_ptr(ptr, None, s2)
                    if cur[0] == 'adt':
                        nv = self.n_variants(cur[1]) or 2
                        keep = [wantv] if pos else [i for i in range(nv) if i != wantv]
                        if not self.narrow_variant(ptr, keep, None, s2):
                            return None
                    return s2
                if c[0] == 'ovf':
                    return s2
                if c[0] == 'not' and c[1][0] == 'ovf':
                    lin, lo, hi = c[1][1], c[1][2], c[1][3]
                    s2.add_con(lin - Lin.const(hi))
                    s2.add_con(Lin.const(lo) - lin)
                    return s2
                s2.assume(c)
            elif v[0] == 'int':
                if want:
                    s2.assume(('cmp', 'Ne', v[1], Lin.const(0)))
                else:
                    s2.assume(('cmp', 'Eq', v[1], Lin.const(0)))
        except Infeasible:
            return None
        return s2

    def narrow_variant(self, ptr, vs_keep, frame, st):
        v = self.read_ptr(ptr, frame, st)
        if v[0] != 'adt':
            return True
        cur = v[2]
        if cur is None:
            nv = self.n_variants(v[1])
            cur = frozenset(range(nv)) if nv else None
        if cur is None:
            new = frozenset(vs_keep) if vs_keep is not None else None
        else:
            new = cur & frozenset(vs_keep)
            if not new:
                return False
        if len(v) > 6 and v[6] is not None and new is not None:
            tag = v[6]
            okv = 1 if v[1] == 'core::option::Option' else 0
            try:
                if tag[0] == 'lencheck':
                    if new == frozenset([okv]):
                        st.assume(('cmp', 'Eq', tag[1], Lin.const(tag[2])))
                    elif okv not in new:
                        st.assume(('cmp', 'Ne', tag[1], Lin.const(tag[2])))
                elif tag[0] == 'inrange':
                    if new == frozenset([okv]):
                        st.add_con(tag[1] - Lin.const(tag[3]))
                        st.add_con(Lin.const(tag[2]) - tag[1])
                elif tag[0] == 'guard':
                    if len(new) == 1:
                        for lin in tag[1].get(next(iter(new)), ()):
                            st.apply_fact(lin)
            except Infeasible:
                return False
        self.write_ptr(ptr, ('adt', v[1], new, v[3]) + tuple(v[4:]), frame, st)
        return True

    def n_variants(self, head):
        if head in ('core::option::Option', 'core::result::Result', 'core::ops::control_flow::ControlFlow', 'core::task::poll::Poll'):
            return 2
        a = self.prog.adts.get(head)
        return len(a['variants']) if a else None

    def discr_values(self, head):
        """map discriminant value -> variant index"""
        a = self.prog.adts.get(head)
        if a is None:
            return None
        return {v['discr']: i for i, v in enumerate(a['variants'])}

    def exec_switch(self, t, frame, st):
        v = self.eval_operand(t.discr, frame, st)
        outs = []
        if v[0] == 'bool':
            c = v[1]
            for val, tgt in t.targets:
                s2 = self.refine_bool(v, bool(val), st)
                if s2 is not None:
                    outs.append((tgt, s2))
            # otherwise: the remaining truth value
            vals = {val for val, _ in t.targets}
            if len(vals) < 2:
                rem = True if 0 in vals else False
                s2 = self.refine_bool(v, rem, st)
                if s2 is not None:
                    outs.append((t.otherwise, s2))
            return outs
        if v[0] == 'discr':
            ptr, head, vs = v[1], v[2], v[3]
            dmap = self.discr_values(head) if head else None
            listed = []
            for val, tgt in t.targets:
                vi = dmap.get(val, val) if dmap else val
                listed.append(vi)
                if vs is not None and vi not in vs:
                    continue
                s2 = st.copy()
                if head and self.narrow_variant(ptr, [vi], frame, s2):
                    outs.append((tgt, s2))
                elif not head:
                    outs.append((tgt, s2))
            nv = self.n_variants(head) if head else None
            if nv is not None:
                rest = [i for i in range(nv) if i not in listed and (vs is None or i in vs)]
                if rest:
                    s2 = st.copy()
                    if self.narrow_variant(ptr, rest, frame, s2):
                        outs.append((t.otherwise, s2))
            else:
                outs.append((t.otherwise, st.copy()))
            return outs
        lin = self.as_int(v, st)
        if lin is None:
            return [(tg, st.copy()) for tg in t.succs()]
        for val, tgt in t.targets:
            s2 = st.copy()
            try:
                s2.assume(('cmp', 'Eq', lin, Lin.const(val)))
                outs.append((tgt, s2))
            except Infeasible:
                pass
        s2 = st.copy()
        try:
            for val, tgt in t.targets:
                s2.assume(('cmp', 'Ne', lin, Lin.const(val)))
            outs.append((t.otherwise, s2))
        except Infeasible:
            pass
        return outs

    # ------------------------------------------------------------------ asserts
    def exec_assert(self, t, frame, st):
        msg = t.msg
        expected = t.d['exp_val']
        cv = self.eval_operand(t.cond, frame, st)
        proved = False
        why = None
        if msg == 'BoundsCheck':
            ln = self.as_int(self.eval_operand(t.mops['len'], frame, st), st)
            ix = self.as_int(self.eval_operand(t.mops['index'], frame, st), st)
            if ln is not None and ix is not None:
                proved = st.prove_cmp('Lt', ix, ln)
                if not proved:
                    why = 'index %r in [%s,%s] vs len %r in [%s,%s]' % (ix, st.lb(ix), st.ub(ix), ln, st.lb(ln), st.ub(ln))
            kind, desc = 'bounds', 'index'
        elif msg == 'Overflow':
            kind, desc = 'overflow', t.d.get('op', '?')
            if cv[0] == 'bool':
                c = cv[1] if expected else cond_not(cv[1])
                if c[0] == 'const':
                    proved = c[1]
                elif c[0] == 'not' and c[1][0] == 'ovf':
                    lin, lo, hi = c[1][1], c[1][2], c[1][3]
                    proved = st.prove_le0(lin - Lin.const(hi)) and st.prove_le0(Lin.const(lo) - lin)
                    if not proved:
                        why = 'result %r in [%s,%s] vs type range [%d,%d]' % (lin, st.lb(lin), st.ub(lin), lo, hi)
                elif c[0] == 'cmp':
                    proved = st.prove_cmp(c[1], c[2], c[3])
                    if not proved:
                        why = 'cannot prove %s' % (c,)
        elif msg in ('DivisionByZero', 'RemainderByZero'):
            kind, desc = 'divzero', msg
            # the assert operand is the dividend; the condition is `divisor == 0` expected false
            if cv[0] == 'bool':
                c = cv[1] if expected else cond_not(cv[1])
                if c[0] == 'const':
                    proved = c[1]
                elif c[0] == 'cmp':
                    proved = st.prove_cmp(c[1], c[2], c[3])
                if not proved:
                    why = 'divisor may be zero: %s' % (c,)
        elif msg == 'OverflowNeg':
            kind, desc = 'overflow', 'Neg'
            a = self.as_int(self.eval_operand(t.mops['a'], frame, st), st)
            if a is not None:
                ty = self.subst_ty(t.mops['a'].ty, frame)
                if ty in INT_RANGES:
                    proved = st.prove_cmp('Gt', a, Lin.const(INT_RANGES[ty][0]))
        else:
            kind, desc = 'assert', str(msg)[:40]
            if cv[0] == 'bool' and cv[1][0] == 'const':
                proved = (cv[1][1] == expected)
        lins = []
        for o_ in t.mops.values():
            l_ = self.as_int(self.eval_operand(o_, frame, st), st)
            if l_ is not None:
                lins.append(l_)
        self.obligation(frame, kind, desc, t.sp, proved, why, lins)
        s2 = self.refine_bool(cv, bool(expected), st) if cv[0] in ('bool', 'int') else st.copy()
        if s2 is None:
            # the assertion always fails in this state: the continuation is unreachable
            return []
        return [(t.target, s2)]

    # ------------------------------------------------------------------ calls
    def find_body(self, t):
        c = t.func.const if t.func is not None else None
        if c is None:
            return None
        for key in ('res', 'fn'):
            p = c.get(key)
            if p:
                l = self.prog.by_short.get(strip_turbofish(p))
                if l and len(l) == 1:
                    return l[0]
        return None

    def exec_call(self, t, frame, st):
        """returns list of (target, state)"""
        c = t.func.const if t.func is not None and t.func.const is not None else {}
        name = strip_generics(strip_turbofish(c.get('fn', '') or ''))
        rname = strip_generics(strip_turbofish(c.get('res', '') or '')) if c.get('res') else name
        args = [self.eval_operand(a, frame, st) for a in t.args]
        # indirect call through a fn-item / closure value
        if not c.get('fn') and t.func.place is not None:
            fv = self.eval_operand(t.func, frame, st)
            if fv[0] == 'fn':
                c = fv[1]
                name = strip_generics(strip_turbofish(c.get('fn', '')))
                rname = name
        for suf, hook in self.call_hooks.items():
            if name.endswith(suf) or rname.endswith(suf):
                hook(self, t, args, frame, st, name)
        for suf, store in self.call_probes.items():
            if name.endswith(suf) or rname.endswith(suf):
                rec = []
                for a in args:
                    l_ = self.as_int(a, st) if a[0] in ('int', 'bool') else None
                    rec.append(None if l_ is None else (st.lb(l_), st.ub(l_)))
                store.append({'site': t.sp, 'caller': frame.body.path, 'args': rec})
        res = None
        handled = False
        if name.startswith('core::panicking::') or name in ('core::option::expect_failed', 'core::result::unwrap_failed', 'core::option::unwrap_failed'):
            res = self.models_panic(self, t, args, frame, st, c)
            handled = True
        for nm in ((rname, name) if not handled else ()):
            m = self.models.get(nm) or self._model_by_suffix(nm)
            if m is not None:
                r = m(self, t, args, frame, st, c)
                if r is not NotImplemented:
                    res = r
                    handled = True
                    break
        if not handled:
            body = None
            for key in ('res', 'fn'):
                p = c.get(key)
                if p:
                    l = self.prog.by_short.get(strip_turbofish(p))
                    if l and len(l) == 1:
                        body = l[0]
                        break
            if body is None and c.get('trait') == 'core::convert::Into' and len(c.get('ga') or []) == 2:
                # blanket impl<T, U: From<T>> Into<U> for T: the workspace's From impl is what runs
                ga_ = [self.subst_ty(g, frame) for g in c['ga']]
                body = self.resolve_trait_impl('core::convert::From', [ga_[1], ga_[0]], 'from')
                if body is not None:
                    c = dict(c, ga=[])
            if body is None and c.get('trait') and c.get('ga'):
                body = self.resolve_trait_impl(c['trait'], [self.subst_ty(g, frame) for g in c['ga']], c.get('fn', '').split('::')[-1])
            if body is None and c.get('trait') and c['trait'].split('::')[0] in ('lorawan', 'lorawan_device', 'lora_phy', 'lora_modulation') \
                    and frame.depth < self.max_depth and c['trait'] not in self.boundary_traits:
                # class-hierarchy resolution: the receiver type is a type parameter; analyse every workspace impl and join
                cands = self.trait_method_impls(c['trait'], c.get('fn', '').split('::')[-1])
                cands = [b_ for b_ in cands if not b_.coroutine and frame.chain().count(b_.path) == 0]
                if 1 <= len(cands) <= 8:
                    joined = None
                    rvs = []
                    for i_, b_ in enumerate(cands):
                        s2 = st.copy()
                        rv = self.call_body(b_, list(args), frame, s2, self.make_subst(b_, {'ga': []}, frame), site=t.sp)
                        if rv is None:
                            continue
                        key = (frame.id, 2 * 10**6)
                        s2.env[key] = rv
                        joined = s2 if joined is None else join_states(self, joined, s2, frame.id, 3 * 10**6 + (__import__('zlib').crc32((t.sp or '').encode()) % 1000), False)[0]
                    if joined is None:
                        return []
                    res = joined.env.pop((frame.id, 2 * 10**6), TOP)
                    st.env, st.mem, st.lo, st.hi, st.sets, st.cons = joined.env, joined.mem, joined.lo, joined.hi, joined.sets, joined.cons
                    self.cha_log[c['trait'] + '::' + c.get('fn', '').split('::')[-1]] = len(cands)
                    handled = True
            if handled:
                pass
            elif body is not None and (frame.depth < self.max_depth or (frame.depth < self.max_depth + 4 and self.is_small_leaf(body))) \
                    and frame.chain().count(body.path) == 0 and not body.coroutine:
                subst = self.make_subst(body, c, frame)
                res = self.call_body(body, args, frame, st, subst, site=t.sp)
                if res is None:
                    return []      # callee never returns in this context
            else:
                res = self.havoc_call(t, args, frame, st, name)
        if res is DIVERGE:
            return []
        if t.target is None:
            return []
        ptr = self.resolve(t.dest, frame, st)
        if res is None or res == TOP:
            res = self._mat_anon(t.dest.ty, frame, st)
        if ptr[0] != 'T':
            self.write_ptr(ptr, res, frame, st)
        return [(t.target, st)]

    def resolve_trait_impl(self, trait, ga, method):
        """body of `method` in the workspace impl of `trait` for the concrete Self type ga[0] and trait arguments
        ga[1:] (None if not unique). The full trait reference must match."""
        import re as _re
        norm = lambda x: _re.sub(r"'[a-z_]+\b,?\s*", '', x).replace('<>', '').replace(' ', '')
        key = (trait, tuple(ga), method)
        if key in self._trait_cache:
            return self._trait_cache[key]
        found = []
        for im in self.prog.impls:
            if im.get('trait') != trait:
                continue
            if norm(im['self_ty']) != norm(ga[0]):
                continue
            tr = norm(im.get('trait_ref', ''))
            # trait_ref looks like <Self as Trait<A, B>>
            m = _re.match(r'^<(.*) as ([^<>]+)(?:<(.*)>)?>$', tr)
            if m and m.group(3) is not None:
                # the number of non-lifetime generic args of the method's own generics may follow the trait's args in ga
                targs = norm(m.group(3))
                cand = norm(','.join(ga[1:]))
                if not cand.startswith(targs):
                    continue
            for it in im['items']:
                if it['name'] == method:
                    b = self.prog.bodies.get(it['path'])
                    if b is not None:
                        found.append(b)
        r = found[0] if len(found) == 1 else None
        self._trait_cache[key] = r
        return r

    def is_small_leaf(self, body):
        """tiny functions (accessors, const getters) are inlined beyond the depth bound: they cannot blow up the analysis"""
        r = self._leaf.get(body.raw_path)
        if r is None:
            n = sum(1 for b in body.blocks if not b.cleanup)
            calls = sum(1 for b in body.blocks if not b.cleanup and b.term.k == 'call')
            r = n <= 8 and calls <= 2
            self._leaf[body.raw_path] = r
        return r

    def trait_method_impls(self, trait, method):
        key = ('*', trait, method)
        if key in self._trait_cache:
            return self._trait_cache[key]
        out = []
        for im in self.prog.impls:
            if im.get('trait') != trait:
                continue
            for it in im['items']:
                if it['name'] == method:
                    b = self.prog.bodies.get(it['path'])
                    if b is not None:
                        out.append(b)
        self._trait_cache[key] = out
        return out

    def _model_by_suffix(self, nm):
        for suf, m in self.suffix_models:
            if nm.endswith(suf):
                return m
        return None

    def make_subst(self, body, c, frame=None):
        meta = self.prog.fns.get(body.raw_path)
        sub = {}
        if meta and 'generics' in meta:
            ga = c.get('ga', [])
            names = meta['generics']
            if len(ga) == len(names):
                for n, v in zip(names, ga):
                    if not n.startswith("'") and v != "'_":
                        sub[n] = self.subst_ty(v, frame) if frame is not None else v
            elif ga and c.get('trait') and any(not n.startswith("'") for n in names):
                # trait method resolved to a generic impl (`impl<'a, T> Trait for X<'a, T>`): the call only carries the Self
                # type; bind the impl's type parameters by matching the impl's self type against it
                im = self._impl_of(body.raw_path)
                if im is not None:
                    self_ty = self.subst_ty(ga[0], frame) if frame is not None else ga[0]
                    b = {}
                    if _unify_ty(im['self_ty'], self_ty, set(n for n in names if not n.startswith("'")), b):
                        sub.update(b)
        return sub

    def _impl_of(self, raw_path):
        idx = self.__dict__.get('_impl_index')
        if idx is None:
            idx = {}
            for im in self.prog.impls:
                for it in im.get('items', []):
                    idx[it['path']] = im
            self.__dict__['_impl_index'] = idx
        return idx.get(raw_path)

    def havoc_call(self, t, args, frame, st, name):
        """unknown callee: results are unconstrained; memory reachable through `&mut` arguments is forgotten"""
        self.havoc_log[name] = self.havoc_log.get(name, 0) + 1
        for a, op in zip(args, t.args):
            ty = op.ty or ''
            if '&mut ' in ty:
                self.havoc_reachable(a, frame, st, 0, ty.startswith('&mut ') or 'Pin<&mut' in ty)
        return None

    def havoc_reachable(self, v, frame, st, depth, top_mut):
        """forget everything an unknown callee may write: memory behind every reference reachable from an argument
        whose type mentions `&mut` (references nested in aggregates / arrays / slices of aggregates included)"""
        if depth > 6 or not isinstance(v, tuple) or not v:
            return
        k = v[0]
        if k == 'ref':
            inner = self.read_ptr(v[1], frame, st)
            self.havoc_reachable(inner, frame, st, depth + 1, True)
            self.havoc_target(v, frame, st)
        elif k == 'sref':
            # elements may themselves hold references (e.g. a slice of SPI operations)
            base = v[1]
            if base[0] in ('L', 'O') and len(base) >= 3:
                arr = self.read_ptr(base, frame, st)
                if arr[0] == 'array':
                    for e in list(arr[2].values()) + ([arr[3]] if arr[3] is not None else []):
                        self.havoc_reachable(e, frame, st, depth + 1, True)
            self.havoc_slice(v, st)
        elif k == 'adt':
            for f in v[3].values():
                self.havoc_reachable(f, frame, st, depth + 1, False)
        elif k == 'tuple':
            for f in v[1]:
                self.havoc_reachable(f, frame, st, depth + 1, False)
        elif k == 'array':
            for e in list(v[2].values()) + ([v[3]] if v[3] is not None else []):
                self.havoc_reachable(e, frame, st, depth + 1, False)
        elif k == 'closure':
            for f in v[2]:
                self.havoc_reachable(f, frame, st, depth + 1, False)

    def havoc_target(self, a, frame, st):
        if TRACE:
            print('   HAVOC in %s: %s' % (frame.body.path.split('::')[-1] if frame is not None else None, str(a)[:200]))
        if a[0] == 'sref':
            self.havoc_slice(a, st)
        elif a[0] == 'ref':
            ptr = a[1]
            if ptr[0] == 'L':
                fr = self._frame_by_id.get(ptr[1])
                if not ptr[3]:
                    ty = fr.body.locals[ptr[2]] if fr is not None else None
                    if ty:
                        nm = 'f%s_%d~%s' % (ptr[1], ptr[2], self._site)
                        self.purge_prefix(st, nm)
                        st.env[(ptr[1], ptr[2])] = self.materialize(ty, nm, st, fr)
                    else:
                        st.env.pop((ptr[1], ptr[2]), None)
                else:
                    self.write_ptr(ptr, TOP, frame, st)
            elif ptr[0] == 'O':
                if not ptr[2]:
                    # the object is re-materialised under a name versioned by the havoc site: facts about the old
                    # contents (same lazily-materialised names) must not carry over
                    ty = self.objtypes.get(ptr[1])
                    if ty:
                        base = ptr[1][:-1] if ptr[1].endswith('*') else ptr[1]
                        base = base.split('~')[0]
                        nm = '%s~%s' % (base, self._site)
                        self.purge_prefix(st, nm)
                        v = self.materialize(ty, nm, st, None)
                        if v[0] == 'adt' and len(v) > 4:
                            pass
                        st.mem[('obj', ptr[1])] = v
                    else:
                        st.mem.pop(('obj', ptr[1]), None)
                else:
                    self.write_ptr(ptr, TOP, frame, st)

    def purge_prefix(self, st, prefix):
        """forget every fact about symbols named `prefix...` (a re-used deterministic name)"""
        def hit(x):
            return x.startswith(prefix) and (len(x) == len(prefix) or x[len(prefix)] in '.*[')
        for d in (st.lo, st.hi, st.sets):
            for k in [k for k in d if hit(k)]:
                del d[k]
        st.cons = {c for c in st.cons if not any(hit(x) for x in c.co)}
        for k in [k for k in st.mem if k[0] == 'el' and k[1][0] == 'O' and hit(k[1][1])]:
            del st.mem[k]
        for k in [k for k in st.mem if k[0] == 'obj' and hit(k[1])]:
            del st.mem[k]

    def call_body(self, body, args, frame, st, subst, site=None, keep_frame=False):
        """inline analysis of `body` with abstract arguments; mutates st; returns return value or None (diverges)"""
        nf = Frame(body, subst, (frame.depth + 1) if frame is not None else 0, frame, site)
        nf.id = '%s/%s' % (self._site, self.nid().rsplit(':', 1)[1])
        self._frame_by_id[nf.id] = nf
        saved = (self._site, self._ctr)
        for i, a in enumerate(args):
            st.env[(nf.id, i + 1)] = a
        try:
            out = self.run_body(nf, st)
        finally:
            self._site, self._ctr = saved
        if out is None:
            return None
        # copy result state into st (in place)
        st.env = out.env
        st.mem = out.mem
        st.lo = out.lo
        st.hi = out.hi
        st.sets = out.sets
        st.cons = out.cons
        rv = st.env.get((nf.id, 0), TOP)
        # drop the callee frame (promoted constants live on: references to them are returned)
        if not keep_frame:
            for k in [k for k in st.env if k[0] == nf.id]:
                del st.env[k]
        return rv

    # ------------------------------------------------------------------ fixpoint
    def liveness(self, body):
        """per block: set of locals live on entry (address-taken locals are always live)"""
        lv = self._live.get(body.raw_path)
        if lv is not None:
            return lv
        n = len(body.blocks)
        use = [set() for _ in range(n)]
        dfn = [set() for _ in range(n)]
        always = set(range(0, body.argc + 1))

        def rd_place(p, u, d):
            if p.local not in d:
                u.add(p.local)
            for e in p.proj:
                if isinstance(e, dict) and 'i' in e and e['i'] not in d:
                    u.add(e['i'])

        def rd_op(o, u, d):
            if o.place is not None:
                rd_place(o.place, u, d)
        for b in body.blocks:
            if b.cleanup:
                continue
            u, d = use[b.idx], dfn[b.idx]
            for s_ in b.stmts:
                if s_.k == 'assign':
                    rv = s_.rv
                    for o in rv.ops:
                        rd_op(o, u, d)
                    if rv.place is not None:
                        rd_place(rv.place, u, d)
                        if rv.k in ('ref', 'rawptr'):
                            always.add(rv.place.local)
                if s_.lhs.proj:
                    rd_place(s_.lhs, u, d)
                else:
                    d.add(s_.lhs.local)
            t = b.term
            if t.k == 'call':
                rd_op(t.func, u, d)
                for a in t.args:
                    rd_op(a, u, d)
                if t.dest.proj:
                    rd_place(t.dest, u, d)
            elif t.k == 'switch':
                rd_op(t.discr, u, d)
            elif t.k == 'assert':
                rd_op(t.cond, u, d)
                for o in t.mops.values():
                    rd_op(o, u, d)
            elif t.k == 'drop':
                pass
        cfg = self.cfg(body)
        live_in = [set() for _ in range(n)]
        changed = True
        while changed:
            changed = False
            for b in reversed(cfg.rpo()):
                out = set()
                for s_ in cfg.succ[b]:
                    out |= live_in[s_]
                t = body.blocks[b].term
                if t.k == 'call' and not t.dest.proj:
                    out = out - {t.dest.local}
                new = use[b] | (out - dfn[b])
                if new != live_in[b]:
                    live_in[b] = new
                    changed = True
        lv = (live_in, always)
        self._live[body.raw_path] = lv
        return lv

    def prune_dead(self, frame, bb, st):
        live_in, always = self.liveness(frame.body)
        keep = live_in[bb] | always
        fid = frame.id
        for k in [k for k in st.env if k[0] == fid and k[1] not in keep and k[1] < 10**6]:
            del st.env[k]

    def run_body(self, frame, st):
        body = frame.body
        self.fn_contexts[body.path] = self.fn_contexts.get(body.path, 0) + 1
        cfg = self.cfg(body)
        rpo = cfg.rpo()
        order = {b: i for i, b in enumerate(rpo)}
        edge = {}           # (u, v) -> state
        inn = {0: st}
        visits = {}
        dirty = {0}
        ret_states = {}
        last_edge = {}
        budget = 3000
        while dirty:
            budget -= 1
            if budget < 0:
                self.obligation(frame, 'analysis', 'fixpoint budget exhausted', body.span, False, None)
                break
            bb = min(dirty, key=lambda b: order.get(b, 10**9))
            dirty.discard(bb)
            if bb != 0 and getattr(self, 'unroll_concrete', False) and bb in cfg.loop_heads and not dirty and last_edge.get(bb) in edge \
                    and visits.get(bb, 0) < 36:
                # single active path reaching a loop head (nothing else pending): the state that just arrived IS the next
                # iteration's state - no merge with earlier iterations. Used for decision tables over concrete inputs, where
                # every branch is decided and a short loop is simply followed.
                inn[bb] = edge[last_edge[bb]].copy()
            elif bb != 0:
                # in-state = join of incoming edge states
                # join states with the same variant signature first (keeps per-variant facts relational: the
                # Ok-paths are merged among themselves before being merged with the Err-paths)
                groups = {}
                for p in cfg.pred[bb]:
                    es = edge.get((p, bb))
                    if es is None:
                        continue
                    groups.setdefault(variant_signature(es, frame.id), []).append(es)
                cur = None
                for sig in sorted(groups, key=repr):
                    g = None
                    for es in groups[sig]:
                        if g is None:
                            g = es.copy()
                        else:
                            g, _ = join_states(self, g, es, frame.id, bb, False)
                    if cur is None:
                        cur = g
                    else:
                        cur, _ = join_states(self, cur, g, frame.id, bb, False)
                if cur is None:
                    continue
                old = inn.get(bb)
                if bb in cfg.loop_heads and old is not None:
                    widen = visits.get(bb, 0) >= 2
                    cur, changed = join_states(self, old, cur, frame.id, bb, widen)
                    if not changed and visits.get(bb, 0) > 0:
                        continue
                elif old is not None and states_equal(old, cur):
                    continue
                inn[bb] = cur
            visits[bb] = visits.get(bb, 0) + 1
            if visits[bb] > 40:
                self.obligation(frame, 'analysis', 'no convergence', body.span, False, 'bb%d' % bb)
                continue
            s = inn[bb].copy()
            self.prune_dead(frame, bb, s)
            self._site = '%s.b%d' % (frame.id, bb)
            self._ctr = 0
            blk = body.blocks[bb]
            try:
                for stmt in blk.stmts:
                    self.exec_stmt(stmt, frame, s)
                t = blk.term
                k = t.k
                if k == 'goto':
                    outs = [(t.target, s)]
                elif k == 'switch':
                    outs = self.exec_switch(t, frame, s)
                elif k == 'call':
                    outs = self.exec_call(t, frame, s)
                elif k == 'assert':
                    outs = self.exec_assert(t, frame, s)
                elif k in ('drop', 'yield'):
                    outs = [(t.target, s)]
                elif k == 'return':
                    ret_states[bb] = s
                    outs = []
                else:
                    outs = []
            except Infeasible:
                outs = []
            seen_t = set()
            # several switch values may lead to the same target: join them
            merged = {}
            for (tgt, s2) in outs:
                if tgt is None or body.blocks[tgt].cleanup:
                    continue
                if tgt in merged:
                    merged[tgt], _ = join_states(self, merged[tgt], s2, frame.id, tgt, False)
                else:
                    merged[tgt] = s2
            for v in cfg.succ[bb]:
                if v in merged:
                    self.prune_dead(frame, v, merged[v])
                    edge[(bb, v)] = merged[v]
                    last_edge[v] = (bb, v)
                    dirty.add(v)
                elif (bb, v) in edge:
                    del edge[(bb, v)]
                    dirty.add(v)
        self.loops.setdefault(body.path, set()).update(cfg.loop_heads)
        if frame.depth == 0:
            # the separate states flowing into the return block(s) of an entry (per-path views, e.g. Ok vs Err exits)
            self.entry_ret_edges = []
            for (u, v) in sorted(edge):
                if body.blocks[v].term.k == 'return' and not body.blocks[v].stmts:
                    self.entry_ret_edges.append((u, v, edge[(u, v)]))
            for v in sorted(ret_states):
                if body.blocks[v].stmts or not any(e[1] == v for e in self.entry_ret_edges):
                    self.entry_ret_edges.append((v, v, ret_states[v]))
        ret = None
        # exits are joined per variant of the returned Result / Option first (all Ok exits together, all Err exits together):
        # facts common to the exits of one variant are then established on full states and become that variant's guard
        by_ret = {}
        for bb in sorted(ret_states):
            sig = variant_signature(ret_states[bb], frame.id)
            r0 = tuple(x for x in sig if x[0] == 0)
            by_ret.setdefault(r0, {}).setdefault(sig, []).append(ret_states[bb])
        for r0 in sorted(by_ret, key=repr):
            gr = None
            groups = by_ret[r0]
            for sig in sorted(groups, key=repr):
                g = None
                for es in groups[sig]:
                    g = es if g is None else join_states(self, g, es, frame.id, 10**6, False)[0]
                gr = g if gr is None else join_states(self, gr, g, frame.id, 10**6, False)[0]
            ret = gr if ret is None else join_states(self, ret, gr, frame.id, 10**6, False)[0]
        return ret

    # ------------------------------------------------------------------ entry
    def analyze_entry(self, body, setup=None, subst=None):
        """analyse `body` as an entry point: parameters unconstrained (materialised from their types)"""
        st = State()
        fr = Frame(body, subst or {}, 0, None, 'entry')
        fr.id = 'E'
        self._site = 'E'
        self._ctr = 0
        self._frame_by_id[fr.id] = fr
        for i in range(1, body.argc + 1):
            nm = body.local_name(i) or ('arg%d' % i)
            st.env[(fr.id, i)] = self.materialize(body.locals[i], 'p%d_%s' % (i, nm), st, fr)
        if setup:
            setup(self, fr, st)
        try:
            out = self.run_body(fr, st)
        except RecursionError:
            self.obligation(fr, 'analysis', 'recursion limit', body.span, False, None)
            out = None
        return fr, out


def variant_signature(st, fid):
    sig = []
    for k, v in st.env.items():
        if k[0] == fid and isinstance(v, tuple) and v and v[0] == 'adt' and v[2] is not None and len(v[2]) == 1 and \
                v[1] in ('core::result::Result', 'core::option::Option', 'core::ops::control_flow::ControlFlow'):
            sig.append((k[1], next(iter(v[2]))))
    return tuple(sorted(sig))


def states_equal(a, b):
    return a.env == b.env and a.lo == b.lo and a.hi == b.hi and a.sets == b.sets and a.cons == b.cons and a.mem == b.mem


def analyze_async_entry(an, body, subst=None, setup=None):
    """entry analysis of an `async fn`: run the shell (which builds the coroutine from the parameters), then the
    coroutine body with that state"""
    st = State()
    fr = Frame(body, subst or {}, 0, None, 'entry')
    fr.id = 'E'
    an._site = 'E'
    an._ctr = 0
    an._frame_by_id[fr.id] = fr
    for i in range(1, body.argc + 1):
        nm = body.local_name(i) or ('arg%d' % i)
        st.env[(fr.id, i)] = an.materialize(body.locals[i], 'p%d_%s' % (i, nm), st, fr)
    if setup:
        setup(an, fr, st)
    out = an.run_body(fr, st)
    if out is None:
        return fr, None
    rv = out.env.get((fr.id, 0))
    if rv is None or rv[0] != 'closure':
        return fr, out
    l = an.prog.by_short.get(strip_turbofish(rv[1]))
    if not l or len(l) != 1:
        return fr, out
    an._site = 'E.co'
    an._ctr = 0
    r = an.call_body(l[0], [rv, TOP], fr, out, dict(fr.subst), site='await')
    return fr, out


def _unify_ty(pat, ty, params, out):
    """match the type pattern `pat` (mentions the generic parameter names in `params`) against the concrete type string"""
    from .absint import split_generic_args, adt_head_and_args
    import re as _re
    pat = _re.sub(r"'[a-z_]+\\s*", '', pat).strip()
    ty = _re.sub(r"'[a-z_]+\\s*", '', ty).strip()
    if pat in params:
        if out.get(pat, ty) != ty:
            return False
        out[pat] = ty
        return True
    if pat.startswith('&') and ty.startswith('&'):
        p2, t2 = pat[1:].strip(), ty[1:].strip()
        if p2.startswith('mut ') != t2.startswith('mut '):
            return False
        if p2.startswith('mut '):
            p2, t2 = p2[4:], t2[4:]
        return _unify_ty(p2, t2, params, out)
    try:
        hp, ap = adt_head_and_args(pat)
        ht, at = adt_head_and_args(ty)
    except Exception:
        return pat == ty
    ap = [a for a in ap if a.strip() and not a.strip().startswith("'")]
    at = [a for a in at if a.strip() and not a.strip().startswith("'")]
    if hp != ht or len(ap) != len(at):
        return pat.replace(' ', '') == ty.replace(' ', '')
    return all(_unify_ty(x, y, params, out) for x, y in zip(ap, at))


DIVERGE = ('diverge',)


def new_analyzer(prog, **kw):
    an = Interp(prog, **kw)
    an._anon = 0
    an._live = {}
    an.sym_deps = {}
    an.cha_log = {}
    an.call_probes = {}
    an.call_hooks = {}
    an.lossy_casts = {}
    an.lossy_shifts = None      # set to {} by a client that wants them recorded
    an._trait_cache = {}
    an._leaf = {}
    an.bitdef = {}
    an.boundary_traits = set()
    an._const_cache = {}
    an._frame_by_id = {}
    an.construct_checks = {}
    an.construct_recorders = {}
    return an
