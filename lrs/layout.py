"""byte-layout extraction on MIR terms: the ordered list of writes a function makes into one buffer (element stores,
copy_from_slice into index_mut ranges, calls that receive the buffer mutably) and the byte ranges an accessor reads.
Offsets and values are symbolic def-chain terms (flow.term_of_*), not evaluated."""
from .flow import term_of_operand, term_of_place, term_str, term_contains
from .rules import callee_name, path_conditions, linear


def peel(t):
    """strip reference / dereference / reborrow wrappers"""
    while isinstance(t, tuple) and t and t[0] in ('ref', 'deref') and len(t) == 2:
        t = t[1]
    return t


def range_of(t):
    """(start, end, kind) of a core::ops::Range* aggregate term; end None = open; kind in 'range','to','from','full','incl'"""
    t = peel(t)
    if not (isinstance(t, tuple) and t and t[0] == 'agg'):
        return None
    nm = t[1]
    d = dict(t[2])
    if nm.endswith('ops::range::Range'):
        return d.get('start'), d.get('end'), 'range'
    if nm.endswith('ops::range::RangeTo'):
        return ('const', 0), d.get('end'), 'to'
    if nm.endswith('ops::range::RangeFrom'):
        return d.get('start'), None, 'from'
    if nm.endswith('ops::range::RangeFull'):
        return ('const', 0), None, 'full'
    if nm.endswith('ops::range::RangeToInclusive'):
        return ('const', 0), ('Add', d.get('end'), ('const', 1)), 'incl'
    return None


def index_call(t):
    """(base term, range) if t is index/index_mut(base, Range..)"""
    t = peel(t)
    if isinstance(t, tuple) and len(t) >= 3 and t[0] == 'call' and (t[1].endswith('Index::index') or t[1].endswith('IndexMut::index_mut')
                                                                       or t[1].endswith('::get_mut') or t[1].endswith('::get')):
        r = range_of(t[2][1])
        if r is not None:
            return peel(t[2][0]), r
    return None


def off(t):
    """offset term -> (const int) or normalised linear string"""
    if t is None:
        return None
    syms, const = linear(t)
    if not syms:
        return const
    return (const, tuple(sorted((term_str(k), v) for k, v in syms.items())))


def _add(a, b):
    if a == ('const', 0):
        return b
    if b == ('const', 0):
        return a
    if a[0] == 'const' and b[0] == 'const':
        return ('const', a[1] + b[1])
    return ('Add', a, b)


def resolve_slice(t, is_buf):
    """(start, end) of the slice denoted by t inside the buffer (is_buf), through nested sub-slicing: index/index_mut/get/get_mut
    with a range, split_at/split_at_mut halves, `?`/unwrap/Some-payload wrappers. end None = to the end of the buffer. None if t
    is not a part of the buffer."""
    from .rules import _strip_wrappers
    t = peel(t)
    ic = index_call(t)
    if ic is not None:
        r = resolve_slice(ic[0], is_buf)
        if r is not None:
            s, e, _ = ic[1]
            return _add(r[0], s), (_add(r[0], e) if e is not None else r[1])
    if isinstance(t, tuple) and len(t) == 3 and t[0] == 'field' and t[2] in ('0', '1') and isinstance(t[1], tuple) and t[1][:1] == ('call',) \
            and isinstance(t[1][1], str) and t[1][1].endswith(('::split_at_mut', '::split_at')) and len(t[1][2]) == 2:
        r = resolve_slice(t[1][2][0], is_buf)
        if r is not None:
            mid = _add(r[0], t[1][2][1])
            return (r[0], mid) if t[2] == '0' else (mid, r[1])
    w = _strip_wrappers(t)
    if w != t:
        r = resolve_slice(w, is_buf)
        if r is not None:
            return r
    if is_buf(t):
        return ('const', 0), None
    return None


class Write:
    __slots__ = ('kind', 'start', 'end', 'value', 'bb', 'si', 'conds', 'callee')

    def __init__(self, kind, start, end, value, bb, si=None, conds=None, callee=None):
        self.kind, self.start, self.end, self.value, self.bb, self.si, self.conds, self.callee = kind, start, end, value, bb, si, conds, callee

    def __repr__(self):
        if self.kind == 'byte':
            return 'byte[%s] = %s' % (off(self.start), term_str(self.value)[:120])
        if self.kind == 'range':
            return 'range[%s..%s] <- %s' % (off(self.start), off(self.end), term_str(self.value)[:120])
        return '%s %s' % (self.kind, self.callee)


def rv_term(bf, rv):
    """term of an arbitrary statement rvalue"""
    if rv.k == 'use':
        return term_of_operand(bf, rv.ops[0])
    if rv.k == 'bin':
        return (rv.d['op'], term_of_operand(bf, rv.ops[0]), term_of_operand(bf, rv.ops[1]))
    if rv.k == 'cast':
        return ('cast', rv.d['ty'], term_of_operand(bf, rv.ops[0]), rv.d.get('from'))
    if rv.k == 'un':
        return (rv.d['op'], term_of_operand(bf, rv.ops[0]))
    return ('rv', rv.k)


def buffer_script(bf, is_buf):
    """writes into the buffer denoted by terms for which is_buf(peeled term) holds, in reverse post-order"""
    out = []
    order = bf.cfg.rpo()
    for bb in order:
        b = bf.body.blocks[bb]
        if b.cleanup:
            continue
        for si, s in enumerate(b.stmts):
            if s.k != 'assign' or not s.lhs.proj:
                continue
            lt = term_of_place(bf, s.lhs)
            if lt[0] in ('index', 'cindex'):
                # element of the buffer or of a sub-slice of it (index_mut(buf, a..b), split_at_mut halves, ...): offset a + i
                r = resolve_slice(lt[1], is_buf)
                if r is not None:
                    v = rv_term(bf, s.rv)
                    out.append(Write('byte', _add(r[0], lt[2] if lt[0] == 'index' else ('const', lt[2])), None, v, bb, si))
        t = b.term
        if t.k != 'call':
            continue
        cn = callee_name(t) or ''
        args = [term_of_operand(bf, a) for a in t.args]
        if cn.endswith('copy_from_slice') or cn.endswith('clone_from_slice'):
            r = resolve_slice(args[0], is_buf)
            if r is not None:
                out.append(Write('range', r[0], r[1], args[1], bb))
            continue
        if cn.endswith(('Index::index', 'IndexMut::index_mut', '::split_at_mut', '::split_at', '::get_mut', '::get')):
            continue
        for i, a in enumerate(t.args):
            ty = a.ty or ''
            if ty.startswith('&mut '):
                r = resolve_slice(args[i], is_buf)
                if r is not None:
                    whole = r == (('const', 0), None) and index_call(args[i]) is None
                    out.append(Write('call', None if whole else r[0], None if whole else r[1], tuple(args), bb, callee=cn))
    return out


def reads_of(bf, is_buf):
    """byte ranges of the buffer an accessor reads: list of ('byte', off) / ('range', start, end)"""
    out = []
    seen = set()
    keep = []

    def visit(t):
        if not isinstance(t, tuple):
            return
        key = id(t)
        if key in seen:
            return
        seen.add(key)
        keep.append(t)      # keep the term alive: ids of freed tuples are reused
        if t and t[0] in ('index',) and is_buf(peel(t[1])):
            out.append(('byte', off(t[2])))
        elif t and t[0] == 'cindex' and is_buf(peel(t[1])):
            out.append(('byte', t[2]))
        ic = index_call(t) if t and t[0] == 'call' else None
        if ic is not None and is_buf(ic[0]):
            out.append(('range', off(ic[1][0]), off(ic[1][1]) if ic[1][1] is not None else None))
        for x in t:
            visit(x)
    for b in bf.body.blocks:
        if b.cleanup or b.idx not in bf.cfg.reach:
            continue
        for s in b.stmts:
            if s.k == 'assign':
                for o in s.rv.ops:
                    visit(term_of_operand(bf, o))
                if s.rv.place is not None:
                    visit(term_of_place(bf, s.rv.place))
        t = b.term
        if t.k == 'call':
            for a in t.args:
                visit(term_of_operand(bf, a))
        elif t.k == 'switch':
            visit(term_of_operand(bf, t.discr))
        elif t.k == 'assert' and getattr(t, 'cond', None) is not None:
            pass
    # dedupe preserving order
    res = []
    for x in out:
        if x not in res:
            res.append(x)
    return res


_LEN_RE = None


def canon_len(x):
    """offsets as returned by off(): the length of the buffer under any of its names (`bytes.len()`, `self.bytes.len()`) becomes LEN"""
    import re
    if isinstance(x, tuple) and len(x) == 2 and isinstance(x[1], tuple):
        return (x[0], tuple(sorted((re.sub(r'^len\(&\**arg\d+(\.[A-Za-z_0-9]+)*\)$', 'LEN', n), k) for n, k in x[1])))
    return x


def canon_reads(rd):
    return [tuple(canon_len(y) for y in x) for x in rd]


def reads_of_deep(pf, bf, is_buf, depth=2):
    """reads_of, following calls that receive the whole buffer into small workspace helpers (`extract_mic(self.bytes)`): the helper's
    reads of that parameter count as reads of the buffer. Lengths are canonical (LEN)."""
    out = canon_reads(reads_of(bf, is_buf))
    if depth <= 0:
        return out
    for bb, t in bf.calls():
        cn = callee_name(t) or ''
        if cn.split('::')[0].lstrip('<') not in ('lorawan', 'lorawan_device', 'lora_phy', 'lora_modulation'):
            continue
        bl = pf.prog.by_short.get(cn) or []
        if len(bl) != 1 or bl[0].coroutine:
            continue
        for i, a in enumerate(t.args):
            if is_buf(peel(term_of_operand(bf, a))):
                sub = reads_of_deep(pf, pf.bf(bl[0]), lambda x, i=i: x == ('param', i + 1), depth - 1)
                for x in sub:
                    if x not in out:
                        out.append(x)
    return out


# ---------------------------------------------------------------------------------------------- bit provenance on terms
_W = {'u8': 8, 'u16': 16, 'u32': 32, 'u64': 64, 'usize': 64, 'i8': 8, 'i16': 16, 'i32': 32, 'i64': 64, 'isize': 64, 'bool': 1}


def term_bits(bf, t, w):
    """bit provenance (LSB first, w bits) of an integer def-chain term: entries 0, 1, ('i', input, k), ('n', e), '?'.
    Inputs are parameters, field reads and element reads (named by their rendered term)."""
    from .bits import b_and, b_or, b_xor, const_bits, extend, UNK
    t = peel(t)
    if not isinstance(t, tuple) or not t:
        return [UNK] * w
    h = t[0]
    if h == 'const':
        return const_bits(int(t[1]), w)
    if h == 'cast':
        tw = _W.get(t[1], w)
        fw = _W.get(t[3] or '', None)
        inner = term_bits(bf, t[2], fw or max(tw, w))
        signed_from = (t[3] or '').startswith('i')
        r = extend(inner[:fw] if fw else inner, tw, signed_from)
        return extend(r, w, t[1].startswith('i'))
    if h in ('BitAnd', 'BitOr', 'BitXor'):
        a, b = term_bits(bf, t[1], w), term_bits(bf, t[2], w)
        f = {'BitAnd': b_and, 'BitOr': b_or, 'BitXor': b_xor}[h]
        return [f(x, y) for x, y in zip(a, b)]
    if h in ('Shl', 'Shr', 'ShlUnchecked', 'ShrUnchecked') and peel(t[2])[0] in ('const', 'cast'):
        k = peel(t[2])
        k = k[1] if k[0] == 'const' else (peel(k[2])[1] if peel(k[2])[0] == 'const' else None)
        if k is None:
            return [UNK] * w
        a = term_bits(bf, t[1], w)
        if h.startswith('Shl'):
            return ([0] * k + a)[:w]
        return (a[k:] + [0] * k)[:w]
    if h in ('Add', 'AddWithOverflow', 'AddUnchecked'):
        a, b = term_bits(bf, t[1], w), term_bits(bf, t[2], w)
        if all(x == 0 or y == 0 for x, y in zip(a, b)):
            return [b_or(x, y) for x, y in zip(a, b)]
        return [UNK] * w
    if h == 'param':
        tw = _W.get(bf.body.locals[t[1]], w)
        return extend([('i', 'arg%d' % t[1], k) for k in range(tw)], w, bf.body.locals[t[1]].startswith('i'))
    if h == 'call' and (t[1].endswith('From::from') or t[1].endswith('Into::into')) and len(t[2]) == 1:
        iw = term_width(bf, t[2][0])
        if iw is not None:
            return extend(term_bits(bf, t[2][0], iw), w, False)
    if h == 'call' and t[1].endswith('from_le_bytes') and len(t[2]) == 1 and peel(t[2][0])[0] == 'array':
        out = []
        for e in peel(t[2][0])[1]:
            out.extend(term_bits(bf, e, 8))
        return extend(out, w, False)
    if h in ('index', 'cindex'):
        # byte i of x.to_le_bytes() / x.to_be_bytes()
        base = peel(t[1])
        idx = peel(t[2]) if h == 'index' else ('const', t[2])
        if isinstance(base, tuple) and base[:1] == ('call',) and base[1].endswith(('to_le_bytes', 'to_be_bytes')) and len(base[2]) == 1 and idx[0] == 'const' and (h == 'index' or not t[3]):
            xw = term_width(bf, base[2][0])
            if xw:
                xb = term_bits(bf, base[2][0], xw)
                n = xw // 8
                i = idx[1] if base[1].endswith('to_le_bytes') else n - 1 - idx[1]
                if 0 <= i < n:
                    return extend(xb[8 * i:8 * i + 8], w, False)
    if h in ('index', 'cindex', 'field', 'call', 'as'):
        name = term_str(t)
        tw = 8 if h in ('index', 'cindex') else w
        return extend([('i', name, k) for k in range(tw)], w, False)
    return [UNK] * w


def term_width(bf, t):
    """bit width of an integer term when it can be read off its shape"""
    t = peel(t)
    if not isinstance(t, tuple) or not t:
        return None
    if t[0] == 'cast':
        return _W.get(t[1])
    if t[0] == 'param':
        return _W.get(bf.body.locals[t[1]])
    if t[0] in ('index', 'cindex'):
        return 8
    if t[0] == 'call' and t[1].endswith('from_le_bytes') and peel(t[2][0])[0] == 'array':
        return 8 * len(peel(t[2][0])[1])
    return None


def subst_params(t, args):
    if isinstance(t, tuple):
        if len(t) == 2 and t[0] == 'param' and isinstance(t[1], int) and 1 <= t[1] <= len(args):
            return args[t[1] - 1]
        r = tuple(subst_params(x, args) for x in t)
        if len(r) == 2 and r[0] == 'deref' and isinstance(r[1], tuple) and len(r[1]) == 2 and r[1][0] == 'ref':
            return r[1][1]
        return r
    return t


def expand_calls(pf, t, depth=2):
    """replace calls to small single-expression workspace helpers by their return term (arguments substituted), so that
    a value computed in an extracted helper is seen like the inline expression"""
    from .flow import term_of_local
    if not isinstance(t, tuple) or depth < 0:
        return t
    t = tuple(expand_calls(pf, x, depth) if isinstance(x, tuple) else x for x in t)
    if t and t[0] == 'call' and len(t) >= 3 and isinstance(t[1], str) and t[1].split('::')[0] in ('lorawan', 'lorawan_device', 'lora_phy', 'lora_modulation'):
        bl = pf.prog.by_short.get(t[1]) or []
        if len(bl) == 1 and not bl[0].coroutine and len([b for b in bl[0].blocks if not b.cleanup]) <= 12:
            bf2 = pf.bf(bl[0])
            rt = term_of_local(bf2, 0)
            if rt[0] != 'phi' and not term_contains(rt, lambda y: isinstance(y, tuple) and len(y) == 2 and y[0] == 'phi'):
                return expand_calls(pf, subst_params(rt, list(t[2])), depth - 1)
    return t
