"""const-table extraction: the regional parameter tables and pure table functions of lorawan-device, evaluated by the
value-set abstract interpreter on their MIR (no execution of the crate). Each regional type implementing
ChannelRegion yields: datarates()[0..15], tx_power_adjust(0..15), MAX_RX1_DR_OFFSET, DEFAULT_RX2_FREQ, the frequency
predicate given to its constructor; dynamic regions: NUM_JOIN_CHANNELS and the channels written by init_channels;
fixed regions: the uplink/downlink frequency maps."""
import re
from . import absint_interp
from .absint import Lin
from .runner import CheckError

D = 'lorawan_device::'
CR = D + 'region::ChannelRegion'


def _enum_names(prog, head):
    a = prog.adts.get(head)
    return [v['name'] for v in a['variants']] if a else []


def _single(st, v):
    if v is None or v[0] != 'int':
        return None
    lo, hi = st.lb(v[1]), st.ub(v[1])
    return lo if lo == hi else None


def regions(prog):
    """self types of the impls of ChannelRegion, sorted"""
    out = []
    for im in prog.impls:
        if im.get('trait') == CR:
            out.append(im['self_ty'])
    return sorted(set(out))


def _method_body(prog, region, trait, method):
    for im in prog.impls:
        if im.get('trait') == trait and im['self_ty'] == region:
            for it in im['items']:
                if it['name'] == method:
                    return prog.bodies.get(it['path'])
    return None


def run_fn(prog, body, args=None, subst=None, depth=5):
    """abstractly evaluate `body` with the given constant integer arguments (position -> int); returns (an, frame, out state, return value)"""
    an = absint_interp.new_analyzer(prog, max_depth=depth)

    def setup(an_, fr, st):
        for i, k in (args or {}).items():
            if isinstance(k, tuple):
                st.env[(fr.id, i)] = k
            else:
                st.env[(fr.id, i)] = ('int', Lin.const(k))
    fr, out = an.analyze_entry(body, setup=setup, subst=subst or {})
    rv = out.env.get((fr.id, 0)) if out is not None else None
    return an, fr, out, rv


def enum_value(prog, head, name):
    a = prog.adts[head]
    for i, v in enumerate(a['variants']):
        if v['name'] == name:
            return ('adt', head, frozenset([i]), {}, None, ())
    raise KeyError(name)


def decode_datarate(prog, an, fr, st, e):
    """Option<Datarate> abstract value -> None | dict"""
    if e[0] != 'adt' or e[2] is None or len(e[2]) != 1:
        return 'unknown'
    if e[2] == frozenset([0]):
        return None
    d = an.field_of(e, 1, '0', st, fr)
    if d[0] != 'adt':
        return 'unknown'
    sfn = _enum_names(prog, 'lora_modulation::SpreadingFactor')
    bwn = _enum_names(prog, 'lora_modulation::Bandwidth')
    res = {}
    for k in ('spreading_factor', 'bandwidth', 'max_mac_payload_size', 'max_mac_payload_size_with_dwell_time'):
        v = an.field_of(d, 0, k, st, fr)
        if v[0] == 'adt' and v[2] is not None and len(v[2]) == 1:
            i = next(iter(v[2]))
            res[k] = (sfn if k == 'spreading_factor' else bwn)[i]
        else:
            res[k] = _single(st, v)
    return res


def datarates(prog, region):
    b = _method_body(prog, region, CR, 'datarates')
    if b is None:
        raise CheckError('anchor: %s has no datarates()' % region)
    an, fr, out, rv = run_fn(prog, b)
    if rv is None or rv[0] != 'ref':
        raise CheckError('tables: datarates() of %s is not a reference to a constant table' % region)
    arr = an.read_ptr(rv[1], fr, out)
    if arr[0] != 'array' or not isinstance(arr[1], int):
        raise CheckError('tables: datarates() of %s: %s' % (region, str(arr)[:80]))
    return [decode_datarate(prog, an, fr, out, arr[2].get(i, arr[3])) if arr[2].get(i, arr[3]) is not None else 'unknown' for i in range(arr[1])]


def assoc_const(prog, region, trait, name):
    """integer value of `<region as trait>::NAME` (a const item body)"""
    for im in prog.impls:
        if im.get('trait') == trait and im['self_ty'] == region:
            for it in im['items']:
                if it['name'] == name:
                    b = prog.bodies.get(it['path'])
                    if b is None:
                        return None
                    an, fr, out, rv = run_fn(prog, b)
                    return _single(out, rv) if out is not None else None
    return None


def option_u8_table(prog, body, inputs, subst=None):
    """{input: None | int | 'unknown'} for a fn(u8) -> Option<u8>"""
    tab = {}
    for k in inputs:
        an, fr, out, rv = run_fn(prog, body, {1: k}, subst)
        if rv is None or rv[0] != 'adt' or rv[2] is None or len(rv[2]) != 1:
            tab[k] = 'unknown'
        elif rv[2] == frozenset([0]):
            tab[k] = None
        else:
            v = _single(out, an.field_of(rv, 1, '0', out, fr))
            tab[k] = v if v is not None else 'unknown'
    return tab


def bool_table(prog, body, inputs):
    tab = {}
    for k in inputs:
        an, fr, out, rv = run_fn(prog, body, {1: k})
        if rv is None:
            tab[k] = 'unknown'
            continue
        if rv[0] == 'bool' and rv[1][0] == 'const':
            tab[k] = bool(rv[1][1])
        elif rv[0] == 'int':
            v = _single(out, rv)
            tab[k] = bool(v) if v is not None else 'unknown'
        else:
            # comparison left symbolic although the input is a constant: decide it in the state
            tab[k] = 'unknown'
            if rv[0] == 'bool':
                try:
                    s1 = out.copy()
                    s1.assume(rv[1])
                    t_ok = True
                except Exception:
                    t_ok = False
                try:
                    s2 = out.copy()
                    from .absint import cond_not
                    s2.assume(cond_not(rv[1]))
                    f_ok = True
                except Exception:
                    f_ok = False
                if t_ok != f_ok:
                    tab[k] = t_ok
    return tab


def u32_array(prog, region, trait, method):
    b = _method_body(prog, region, trait, method)
    if b is None:
        return None
    an, fr, out, rv = run_fn(prog, b)
    if rv is None or rv[0] != 'ref':
        return None
    arr = an.read_ptr(rv[1], fr, out)
    if arr[0] != 'array' or not isinstance(arr[1], int):
        return None
    vals = []
    for i in range(arr[1]):
        e = arr[2].get(i, arr[3])
        vals.append(_single(out, e) if e is not None else None)
    return vals


def freq_predicate(prog, region):
    """the fn(u32) -> bool items handed to the channel-plan constructor in the region's module (function paths)"""
    mod = region.split('<')[0].rsplit('::', 1)[0]           # lorawan_device::region::fixed_channel_plans::us915
    modname = mod.rsplit('::', 1)[1]
    cands = set()
    for p, bl in prog.by_short.items():
        if ('::' + modname + '::') not in p or (D + 'region::') not in p:
            continue
        for b in bl:
            for blk in b.blocks:
                ops = []
                for st in blk.stmts:
                    if st.k == 'assign':
                        ops.extend(st.rv.ops)
                if blk.term.k == 'call':
                    ops.extend(blk.term.args)
                for o in ops:
                    if o.const is not None and 'fn' in o.const:
                        f = o.const['fn']
                        fb = prog.by_short.get(f) or []
                        if len(fb) == 1 and fb[0].argc == 1 and fb[0].locals[1] == 'u32' and fb[0].locals[0] == 'bool':
                            cands.add(f)
    return sorted(cands)


def assoc_const_variant(prog, region, trait, name):
    """variant name of an enum-typed `<region as trait>::NAME`"""
    for im in prog.impls:
        if im.get('trait') == trait and im['self_ty'] == region:
            for it in im['items']:
                if it['name'] == name:
                    b = prog.bodies.get(it['path'])
                    if b is None:
                        return None
                    an, fr, out, rv = run_fn(prog, b)
                    if rv is not None and rv[0] == 'adt' and rv[2] is not None and len(rv[2]) == 1:
                        return prog.adts[rv[1]]['variants'][next(iter(rv[2]))]['name']
    return None
