"""CFG utilities over a lir.Body: successors (cleanup blocks ignored), dominators, post-dominators,
reachability, natural loops, edge-dominance ("every path to X passes through edge a->b")."""


class CFG:
    def __init__(self, body):
        self.body = body
        n = len(body.blocks)
        self.n = n
        self.succ = [[] for _ in range(n)]
        self.pred = [[] for _ in range(n)]
        for b in body.blocks:
            if b.cleanup:
                continue
            for s in b.term.succs():
                if s is None or body.blocks[s].cleanup:
                    continue
                self.succ[b.idx].append(s)
                self.pred[s].append(b.idx)
        self.reach = self._reach_from(0)
        self.exits = [i for i in self.reach if body.blocks[i].term.k == 'return']
        self._dom = None
        self._rpo = None

    def _reach_from(self, start, skip_edge=None, skip_nodes=()):
        seen = set()
        if start in skip_nodes:
            return seen
        stack = [start]
        seen.add(start)
        while stack:
            x = stack.pop()
            for s in self.succ[x]:
                if skip_edge is not None and (x, s) == skip_edge:
                    continue
                if s in skip_nodes:
                    continue
                if s not in seen:
                    seen.add(s)
                    stack.append(s)
        return seen

    def reachable_from(self, start, skip_nodes=()):
        return self._reach_from(start, skip_nodes=set(skip_nodes))

    def can_reach(self, a, b, skip_nodes=()):
        return b in self._reach_from(a, skip_nodes=set(skip_nodes))

    # ---- dominators (iterative, Cooper-Harvey-Kennedy)
    def rpo(self):
        if self._rpo is None:
            order = []
            seen = set()
            # iterative DFS post-order
            stack = [(0, iter(self.succ[0]))]
            seen.add(0)
            while stack:
                node, it = stack[-1]
                adv = False
                for s in it:
                    if s not in seen:
                        seen.add(s)
                        stack.append((s, iter(self.succ[s])))
                        adv = True
                        break
                if not adv:
                    order.append(node)
                    stack.pop()
            order.reverse()
            self._rpo = order
        return self._rpo

    def idom(self):
        if self._dom is None:
            rpo = self.rpo()
            pos = {b: i for i, b in enumerate(rpo)}
            idom = {0: 0}
            changed = True
            while changed:
                changed = False
                for b in rpo[1:]:
                    new = None
                    for p in self.pred[b]:
                        if p in idom:
                            if new is None:
                                new = p
                            else:
                                f1, f2 = p, new
                                while f1 != f2:
                                    while pos[f1] > pos[f2]:
                                        f1 = idom[f1]
                                    while pos[f2] > pos[f1]:
                                        f2 = idom[f2]
                                new = f1
                    if new is not None and idom.get(b) != new:
                        idom[b] = new
                        changed = True
            self._dom = idom
        return self._dom

    def dominates(self, a, b):
        """block a dominates block b"""
        idom = self.idom()
        if b not in idom:
            return True  # unreachable
        x = b
        while True:
            if x == a:
                return True
            if x == 0:
                return False
            x = idom[x]

    def edge_dominates(self, edge, b):
        """every path from entry to block b uses edge (u,v)"""
        if b not in self.reach:
            return True
        return b not in self._reach_from(0, skip_edge=edge) or False

    def nodes_avoiding(self, skip_nodes):
        """blocks reachable from entry without passing through any of skip_nodes"""
        return self._reach_from(0, skip_nodes=set(skip_nodes))

    def node_set_dominates(self, nodes, b):
        """every path from entry to b passes through one of `nodes`"""
        if b in nodes:
            return True
        return b not in self._reach_from(0, skip_nodes=set(nodes))

    def exits_reachable_avoiding(self, start, avoid):
        """return-blocks reachable from `start` without entering any block in `avoid`"""
        r = self._reach_from(start, skip_nodes=set(avoid))
        return [e for e in self.exits if e in r]

    def back_edges(self):
        res = []
        for b in self.reach:
            for s in self.succ[b]:
                if self.dominates(s, b):
                    res.append((b, s))
        return res

    def natural_loops(self):
        """header -> set of blocks"""
        loops = {}
        for (t, h) in self.back_edges():
            body = {h}
            stack = [t]
            while stack:
                x = stack.pop()
                if x not in body:
                    body.add(x)
                    stack.extend(self.pred[x])
            loops.setdefault(h, set()).update(body)
        return loops

    def path(self, a, b, skip_nodes=()):
        """one shortest path of block indices from a to b (BFS) or None"""
        from collections import deque
        skip = set(skip_nodes)
        prev = {a: None}
        dq = deque([a])
        while dq:
            x = dq.popleft()
            if x == b:
                p = []
                while x is not None:
                    p.append(x)
                    x = prev[x]
                return p[::-1]
            for s in self.succ[x]:
                if s in skip or s in prev:
                    continue
                prev[s] = x
                dq.append(s)
        return None
