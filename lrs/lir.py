"""LIR loader: reads the JSON-lines facts written by lrs-extract and offers typed access.

Everything here is plain data handling; the analyses live in cfg.py / flow.py / absint.py.
"""
import json
import os
import re
import glob


WORKSPACE_CRATES = ('lorawan', 'lorawan_device', 'lora_phy', 'lora_modulation')


def strip_turbofish(p):
    """remove `::<...>` groups (balanced) from a def path"""
    out = []
    i = 0
    n = len(p)
    while i < n:
        if p.startswith('::<', i) and not p.startswith('::<impl ', i):
            depth = 0
            j = i + 2
            while j < n:
                if p[j] == '<':
                    depth += 1
                elif p[j] == '>' and p[j - 1] != '-':
                    depth -= 1
                    if depth == 0:
                        break
                j += 1
            i = j + 1
            continue
        out.append(p[i])
        i += 1
    return ''.join(out)


def strip_generics(p):
    """remove every <...> group that directly follows an identifier (type parameters),
    keeping the leading `<T as Trait>` qualifier structure"""
    p = strip_turbofish(p)
    out = []
    i = 0
    n = len(p)
    while i < n:
        c = p[i]
        if c == '<' and i > 0 and (p[i - 1].isalnum() or p[i - 1] == '_'):
            depth = 0
            j = i
            while j < n:
                if p[j] == '<':
                    depth += 1
                elif p[j] == '>' and p[j - 1] != '-':
                    depth -= 1
                    if depth == 0:
                        break
                j += 1
            i = j + 1
            continue
        out.append(c)
        i += 1
    return ''.join(out)


class Place:
    __slots__ = ('local', 'proj', 'ty')

    def __init__(self, d):
        self.local = d['l']
        self.proj = d['p']
        self.ty = d['ty']

    def is_local(self):
        return not self.proj

    def field_names(self):
        return [e['n'] for e in self.proj if isinstance(e, dict) and 'f' in e]

    def last_field(self):
        for e in reversed(self.proj):
            if isinstance(e, dict) and 'f' in e:
                return e
        return None

    def key(self):
        return (self.local, json.dumps(self.proj, sort_keys=True))

    def __repr__(self):
        s = '_%d' % self.local
        for e in self.proj:
            if e == '*':
                s = '(*%s)' % s
            elif isinstance(e, str):
                s = '%s.<%s>' % (s, e)
            elif 'f' in e:
                s = '%s.%s' % (s, e['n'] or e['f'])
            elif 'i' in e:
                s = '%s[_%d]' % (s, e['i'])
            elif 'ci' in e:
                s = '%s[%s%d]' % (s, '-' if e['fe'] else '', e['ci'])
            elif 'sub' in e:
                s = '%s[%d..%s%d]' % (s, e['sub'][0], '-' if e['sub'][2] else '', e['sub'][1])
            elif 'dc' in e:
                s = '(%s as %s)' % (s, e['n'] or e['dc'])
        return s


class Operand:
    __slots__ = ('kind', 'place', 'const')

    def __init__(self, d):
        if 'c' in d:
            self.kind = 'copy'
            self.place = Place(d['c'])
            self.const = None
        elif 'm' in d:
            self.kind = 'move'
            self.place = Place(d['m'])
            self.const = None
        elif 'k' in d:
            self.kind = 'const'
            self.place = None
            self.const = d['k']
        else:
            self.kind = 'other'
            self.place = None
            self.const = {'ty': '?', 's': d.get('x')}

    @property
    def ty(self):
        return self.place.ty if self.place else self.const.get('ty')

    def const_int(self):
        if self.const is not None and 'v' in self.const:
            return self.const['v']
        return None

    def fn_path(self):
        if self.const is not None:
            return self.const.get('fn')
        return None

    def __repr__(self):
        if self.place is not None:
            return ('move ' if self.kind == 'move' else '') + repr(self.place)
        c = self.const
        if 'fn' in c:
            return c['fn']
        if 'v' in c:
            return 'const %s_%s' % (c['v'], c['ty'])
        if 'promoted' in c:
            return 'promoted[%d]' % c['promoted']
        if 'cdef' in c:
            return 'const %s' % c['cdef']
        return 'const {%s}' % c.get('s')


class Rvalue:
    __slots__ = ('k', 'd', 'ops', 'place')

    def __init__(self, d):
        self.k = d['k']
        self.d = d
        self.place = None
        if self.k == 'use':
            self.ops = [Operand(d['o'])]
        elif self.k == 'rep':
            self.ops = [Operand(d['o'])]
        elif self.k in ('ref', 'rawptr', 'discr'):
            self.ops = []
            self.place = Place(d['p'])
        elif self.k == 'cast':
            self.ops = [Operand(d['o'])]
        elif self.k == 'bin':
            self.ops = [Operand(d['a']), Operand(d['b'])]
        elif self.k == 'un':
            self.ops = [Operand(d['a'])]
        elif self.k == 'agg':
            self.ops = [Operand(o) for o in d['ops']]
        else:
            self.ops = []

    def __repr__(self):
        d = self.d
        k = self.k
        if k == 'use':
            return repr(self.ops[0])
        if k == 'rep':
            return '[%r; %s]' % (self.ops[0], d['n'])
        if k == 'ref':
            return '&%s%r' % ('mut ' if d['mut'] else '', self.place)
        if k == 'rawptr':
            return '&raw %r' % self.place
        if k == 'discr':
            return 'discriminant(%r)' % self.place
        if k == 'cast':
            return '%r as %s (%s)' % (self.ops[0], d['ty'], d['ck'])
        if k == 'bin':
            return '%s(%r, %r)' % (d['op'], self.ops[0], self.ops[1])
        if k == 'un':
            return '%s(%r)' % (d['op'], self.ops[0])
        if k == 'agg':
            ak = d['ak']
            if ak == 'adt':
                name = d['adt'] + ('::' + d['variant'] if d.get('is_enum') else '')
                fl = d.get('fields', [])
                return '%s { %s }' % (name, ', '.join('%s: %r' % (fl[i] if i < len(fl) else i, o) for i, o in enumerate(self.ops)))
            if ak in ('closure', 'coroutine', 'coroutine_closure'):
                return '%s %s (%s)' % (ak, d['def'], ', '.join(map(repr, self.ops)))
            return '%s(%s)' % (ak, ', '.join(map(repr, self.ops)))
        return 'other{%s}' % d.get('s')


class Stmt:
    __slots__ = ('k', 'lhs', 'rv', 'sp', 'exp', 'v')

    def __init__(self, d):
        self.k = d['k']
        self.lhs = Place(d['lhs'])
        self.sp = d.get('sp')
        self.exp = d.get('exp')
        if self.k == 'assign':
            self.rv = Rvalue(d['rv'])
            self.v = None
        else:
            self.rv = None
            self.v = d['v']

    def __repr__(self):
        if self.k == 'assign':
            return '%r = %r' % (self.lhs, self.rv)
        return 'discriminant(%r) = %d' % (self.lhs, self.v)


class Term:
    __slots__ = ('k', 'd', 'func', 'args', 'dest', 'target', 'discr', 'targets', 'otherwise', 'cond', 'sp', 'exp',
                 'place', 'msg', 'mops')

    def __init__(self, d):
        self.k = d['k']
        self.d = d
        self.sp = d.get('sp')
        self.exp = d.get('exp')
        self.func = self.args = self.dest = self.discr = self.cond = self.place = None
        self.targets = []
        self.otherwise = None
        self.target = d.get('t')
        self.msg = None
        self.mops = {}
        k = self.k
        if k == 'call':
            self.func = Operand(d['f'])
            self.args = [Operand(a) for a in d['args']]
            self.dest = Place(d['dest'])
        elif k == 'switch':
            self.discr = Operand(d['d'])
            self.targets = [(v, t) for v, t in d['ts']]
            self.otherwise = d['o']
        elif k == 'assert':
            self.cond = Operand(d['cond'])
            self.msg = d['msg']
            for key in ('len', 'index', 'a', 'b'):
                if key in d:
                    self.mops[key] = Operand(d[key])
        elif k == 'drop':
            self.place = Place(d['p'])
        elif k == 'yield':
            self.place = Place(d['resume_arg'])

    # ---- call helpers
    def callee(self):
        """generic (unresolved) callee path with turbofish stripped, or None for indirect calls"""
        if self.k != 'call':
            return None
        p = self.func.fn_path()
        return strip_turbofish(p) if p else None

    def callee_res(self):
        """resolved impl method if the extractor could resolve it, else the generic path"""
        if self.k != 'call':
            return None
        c = self.func.const
        if c is None:
            return None
        p = c.get('res') or c.get('fn')
        return strip_turbofish(p) if p else None

    def callee_best(self):
        """resolved path when it resolves to a workspace item, otherwise the generic path"""
        if self.k != 'call':
            return None
        c = self.func.const
        if c is None:
            return None
        if c.get('res') and (c.get('res_local') or c['res'].lstrip('<').split('::')[0] in WORKSPACE_CRATES):
            return strip_turbofish(c['res'])
        p = c.get('fn')
        return strip_turbofish(p) if p else None

    def callee_trait(self):
        c = self.func.const if self.func is not None else None
        return c.get('trait') if c else None

    def generic_args(self):
        c = self.func.const if self.func is not None else None
        return c.get('ga', []) if c else []

    def succs(self):
        k = self.k
        if k in ('goto', 'drop', 'assert', 'yield'):
            return [self.target]
        if k == 'call':
            return [self.target] if self.target is not None else []
        if k == 'switch':
            r = []
            for _, t in self.targets:
                if t not in r:
                    r.append(t)
            if self.otherwise not in r:
                r.append(self.otherwise)
            return r
        return []

    def __repr__(self):
        k = self.k
        if k == 'goto':
            return 'goto -> bb%d' % self.target
        if k == 'switch':
            return 'switchInt(%r) -> [%s, otherwise: bb%d]' % (
                self.discr, ', '.join('%d: bb%d' % (v, t) for v, t in self.targets), self.otherwise)
        if k == 'call':
            c = self.func.const or {}
            name = c.get('fn') or repr(self.func)
            res = (' {=> %s}' % c['res']) if 'res' in c else ''
            return '%r = %s(%s)%s -> %s' % (self.dest, name, ', '.join(map(repr, self.args)), res,
                                           'bb%d' % self.target if self.target is not None else '!')
        if k == 'assert':
            extra = ', '.join('%s=%r' % kv for kv in self.mops.items())
            return 'assert(%s%r, %s[%s]) -> bb%d' % ('' if self.d['exp_val'] else '!', self.cond, self.msg, extra, self.target)
        if k == 'drop':
            return 'drop(%r) -> bb%d' % (self.place, self.target)
        if k == 'yield':
            return 'yield -> bb%d' % self.target
        return k


class Block:
    __slots__ = ('stmts', 'term', 'cleanup', 'idx')

    def __init__(self, idx, d):
        self.idx = idx
        self.cleanup = d['cleanup']
        self.stmts = [Stmt(s) for s in d['s']]
        self.term = Term(d['t'])


class Body:
    def __init__(self, d):
        self.raw_path = d['path']
        self.path = strip_turbofish(d['path'])
        self.crate = d['crate']
        self.stage = d['stage']
        self.span = d['span']
        self.exp = d.get('exp')
        self.argc = d['argc']
        self.coroutine = d.get('coroutine', False)
        self.locals = d['locals']
        self.dbg = [(n, Place(p)) for n, p in d['dbg']]
        self.blocks = [Block(i, b) for i, b in enumerate(d['blocks'])]
        self._names = None

    def local_name(self, l):
        if self._names is None:
            self._names = {}
            for n, p in self.dbg:
                if p.is_local() and p.local not in self._names:
                    self._names[p.local] = n
        return self._names.get(l)

    def dump(self):
        out = ['fn %s  [%s] (%s)' % (self.raw_path, self.stage, self.span)]
        for i, t in enumerate(self.locals):
            nm = self.local_name(i)
            out.append('    let _%d: %s;%s' % (i, t, '  // ' + nm if nm else ''))
        for b in self.blocks:
            if b.cleanup:
                continue
            out.append('  bb%d:' % b.idx)
            for s in b.stmts:
                out.append('      %r;   // %s' % (s, (s.sp or '').split('/')[-1]))
            out.append('      %r;   // %s' % (b.term, (b.term.sp or '').split('/')[-1]))
        return '\n'.join(out)

    def calls(self):
        for b in self.blocks:
            if b.cleanup:
                continue
            if b.term.k == 'call':
                yield b


class Program:
    def __init__(self):
        self.bodies = {}        # raw path -> Body
        self.by_short = {}      # turbofish-stripped path -> [Body]
        self.fns = {}           # raw path -> meta
        self.adts = {}
        self.impls = []
        self.consts = {}
        self.crates = {}
        self._pending = []
        self.inlined = {}       # function -> helpers of unknown origin inlined into it (lrs/inline.py)

    def load_file(self, fn):
        with open(fn) as f:
            for line in f:
                d = json.loads(line)
                k = d['k']
                if k == 'body':
                    self._pending.append(d)
                elif k == 'fn':
                    self.fns[d['path']] = d
                elif k == 'adt':
                    self.adts[d['path']] = d
                elif k == 'impl':
                    self.impls.append(d)
                elif k == 'const':
                    self.consts[d['path']] = d
                elif k == 'crate':
                    self.crates[d['crate']] = d

    def load_dir(self, dirname):
        files = sorted(glob.glob(os.path.join(dirname, '*.jsonl')))
        for f in files:
            self.load_file(f)
        recs = self._pending
        self._pending = []
        if not os.environ.get('LRS_NO_INLINE'):
            from . import inline
            recs, log = inline.inline_unknown(recs, strip_turbofish)
            self.inlined.update(log)
        for d in recs:
            b = Body(d)
            self.bodies[b.raw_path] = b
            self.by_short.setdefault(b.path, []).append(b)
        return len(files)

    def body(self, short):
        """exactly one body with this turbofish-stripped path, else KeyError (fail closed)"""
        l = self.by_short.get(short, [])
        if len(l) != 1:
            raise KeyError('anchor %r: expected exactly one body, found %d' % (short, len(l)))
        return l[0]

    def find(self, pattern):
        rx = re.compile(pattern)
        return [b for p, bs in sorted(self.by_short.items()) if rx.search(p) for b in bs]

    def fn_meta(self, body):
        return self.fns.get(body.raw_path)
