"""C15 — low-data-rate optimisation is decided identically everywhere.

Decides the property exhaustively over its finite domain: for each of the 8 x 10 (spreading factor, bandwidth)
pairs the LDRO decision of the airtime calculator (BaseBandModulationParams::new) and of each driver's
create_modulation_params (SX126x, SX127x with both chip variants joined, LR11xx) is extracted by abstract
interpretation of the MIR with the two enum parameters fixed to one variant each (a decision table: the code is
pure and loop-free, so the value-set domain yields a single constant per partition); the four tables are compared
pairwise and with the definition in the property (on iff 2^SF / BW >= 16.38 ms, nominal bandwidth; the one pair
whose nominal and tabulated bandwidth straddle the threshold accepts either answer). Pairs a driver rejects are
reported as such. Clause "the drivers program the chip accordingly": for each chip (SX126x, SX1276, SX1272, LR11xx)
set_modulation_params is run through the SPI transaction extractor (lrs/spi.py) with the decision fixed to off and to
on and everything else symbolic (other parameters, every byte read back from the chip); the write that carries the
LDRO field (SetModulationParams byte 4 / RegModemConfig3 bit 3 / RegModemConfig1 bit 0 / LR11xx SetModulationParam
byte 5) must exist and its LDRO bit(s) must be the constant decision — not a bit read back from the chip, not
unknown."""
from ..runner import Result, CheckError
from .. import absint_interp, spi
from ..absint import Lin
from .common import ctx

PID = 'C15'
SF = ['_5', '_6', '_7', '_8', '_9', '_10', '_11', '_12']
BW = ['_7KHz', '_10KHz', '_15KHz', '_20KHz', '_31KHz', '_41KHz', '_62KHz', '_125KHz', '_250KHz', '_500KHz']
BW_TAB = [7810, 10420, 15630, 20830, 31250, 41670, 62500, 125000, 250000, 500000]
BW_NOM = [7812.5, 10416.67, 15625.0, 20833.33, 31250.0, 41666.67, 62500.0, 125000.0, 250000.0, 500000.0]
THRESH = 16.38e-3

SOURCES = {
    'airtime': ('lora_modulation::BaseBandModulationParams::new', 'ldro', 1, 2),
    'sx126x': ('<lora_phy::sx126x::Sx126x<SPI, IV, C> as lora_phy::mod_traits::RadioKind>::create_modulation_params', 'low_data_rate_optimize', 2, 3),
    'sx127x': ('<lora_phy::sx127x::Sx127x<SPI, IV, C> as lora_phy::mod_traits::RadioKind>::create_modulation_params', 'low_data_rate_optimize', 2, 3),
    'lr11xx': ('<lora_phy::lr1110::Lr1110<SPI, IV> as lora_phy::mod_traits::RadioKind>::create_modulation_params', 'low_data_rate_optimize', 2, 3),
}


def expected(si, bi):
    sf = si + 5
    a = (2 ** sf) / BW_NOM[bi] >= THRESH
    b = (2 ** sf) / BW_TAB[bi] >= THRESH
    return {a, b}


def table(c, an, name, field, psf, pbw):
    body = c.prog.body(name)
    tab = {}
    for si in range(8):
        for bi in range(10):
            def setup(an_, fr, st, si=si, bi=bi):
                for p, vi, head in ((psf, si, 'lora_modulation::SpreadingFactor'), (pbw, bi, 'lora_modulation::Bandwidth')):
                    st.env[(fr.id, p)] = ('adt', head, frozenset([vi]), {}, None, ())
                # a frequency at which no bandwidth is refused for being sub-GHz-only
                if body.argc >= 5:
                    st.env[(fr.id, 5)] = ('int', Lin.const(868100000))
            fr, out = an.analyze_entry(body, setup=setup)
            if out is None:
                tab[(si, bi)] = 'diverges'
                continue
            rv = out.env.get((fr.id, 0))
            val = None
            if rv is not None and rv[0] == 'adt' and rv[1] == 'core::result::Result':
                if rv[2] is not None and 0 not in rv[2]:
                    tab[(si, bi)] = 'rejected'
                    continue
                mp = an.field_of(rv, 0, '0', out, fr)
                fv = an.field_of(mp, 0, field, out, fr) if mp[0] == 'adt' else None
            elif rv is not None and rv[0] == 'adt':
                fv = an.field_of(rv, 0, field, out, fr)
            else:
                fv = None
            if fv is not None and fv[0] == 'int':
                vs = out.values(fv[1])
                if vs is not None and len(vs) == 1:
                    val = bool(next(iter(vs)))
            elif fv is not None and fv[0] == 'bool' and fv[1][0] == 'const':
                val = fv[1][1]
            tab[(si, bi)] = val if val is not None else 'unknown'
    return tab


# chip -> (set_modulation_params entry, symbol of the decision, selector of the write carrying LDRO, byte index, bits, data sheet name)
CHIP_WRITES = {
    'sx126x': ('<lora_phy::sx126x::Sx126x<SPI, IV, C> as lora_phy::mod_traits::RadioKind>::set_modulation_params', ['0x8B'], 4, range(8), 'SetModulationParams (0x8B) byte 4'),
    'lr11xx': ('<lora_phy::lr1110::Lr1110<SPI, IV> as lora_phy::mod_traits::RadioKind>::set_modulation_params', ['0x02', '0x0F'], 5, range(8), 'SetModulationParam (0x020F) byte 5'),
    'sx1276': ('<lora_phy::sx127x::sx1276::Sx1276 as lora_phy::sx127x::radio_kind_params::Sx127xVariant>::set_modulation_params', ['0xA6'], 1, [3], 'RegModemConfig3 (0x26) bit 3'),
    'sx1272': ('<lora_phy::sx127x::sx1272::Sx1272 as lora_phy::sx127x::radio_kind_params::Sx127xVariant>::set_modulation_params', ['0x9D'], 1, [0], 'RegModemConfig1 (0x1D) bit 0'),
}


def chip_programming(c, res):
    n = 0
    for chip, (fn, head, bi, bit_idx, what) in sorted(CHIP_WRITES.items()):
        bl = c.prog.by_short.get(fn) or []
        if len(bl) != 1:
            raise CheckError('missing anchor: %s' % fn)
        body = bl[0]
        pi = [i for i in range(1, body.argc + 1) if body.local_name(i) == 'mdltn_params']
        if len(pi) != 1:
            raise CheckError('anchor: parameter mdltn_params of %s' % fn)
        sym = 'p%d_mdltn_params*.low_data_rate_optimize' % pi[0]
        for v in (0, 1):
            def setup(an_, fr, st, v=v):
                st.lo[sym] = v
                st.hi[sym] = v
                st.sets[sym] = frozenset([v])
            txs = spi.transactions(c.prog, body, setup=setup)
            hits = [(k, hd) for k, (kind, hd, pl) in txs if kind == 'write' and len(hd) > bi and [spi.fmt_byte(b) for b in hd[:len(head)]] == head]
            if not txs:
                raise CheckError('floor: no SPI transaction extracted from %s' % fn)
            okw = bool(hits)
            bad = None
            for k, hd in hits:
                byte = hd[bi]
                want = [(v >> b_) & 1 for b_ in range(8)] if len(list(bit_idx)) == 8 else None
                for b_ in bit_idx:
                    exp = want[b_] if want else v
                    if byte is None or byte[b_] != exp:
                        okw = False
                        bad = k
            n += 1
            res.require(okw, 'C15:%s:chip-bit:%s' % (chip, 'on' if v else 'off'),
                        '%s: with the decision %s the LDRO field written to the chip (%s) is not that decision: %s' % (chip, 'on' if v else 'off', what, bad or 'no such write among %s' % [k for k, _ in txs][:6]),
                        fn, 'SPI-WRITE(LDRO field = decision)', instance='%s programs %s = %d when the decision is %s' % (chip, what, v, 'on' if v else 'off'))
    return n


def run(tier):
    res = Result(PID)
    c = ctx('ws')
    an = absint_interp.new_analyzer(c.prog, max_depth=6)
    tabs = {}
    for nm, (fn, field, psf, pbw) in SOURCES.items():
        if not c.has(fn):
            raise CheckError('missing anchor: %s' % fn)
        tabs[nm] = table(c, an, fn, field, psf, pbw)
    n = 0
    for nm, tab in tabs.items():
        unk = [k for k, v in tab.items() if v in ('unknown', 'diverges')]
        if unk:
            raise CheckError('decision table of %s not fully determined (%d cells): the function is no longer pure/loop-free over its enum inputs' % (nm, len(unk)))
        for (si, bi), v in sorted(tab.items()):
            if v == 'rejected':
                continue
            n += 1
            exp = expected(si, bi)
            res.require(v in exp, 'C15:%s:SF%d/%s' % (nm, si + 5, BW[bi].strip('_')),
                        '%s decides LDRO %s for SF%d / %s (symbol time %.3f ms), the definition (>= 16.38 ms) says %s' % (
                            nm, 'on' if v else 'off', si + 5, BW[bi].strip('_'), 1000 * (2 ** (si + 5)) / BW_NOM[bi], 'on' if True in exp and len(exp) == 1 else 'off' if len(exp) == 1 else 'either'),
                        SOURCES[nm][0], 'DTABLE(ldro = t_sym >= 16.38 ms)', instance='%s SF%d/%s = %s' % (nm, si + 5, BW[bi].strip('_'), 'on' if v else 'off'))
    if n < 250:
        raise CheckError('floor: decided cells %d < 250' % n)
    # pairwise agreement is implied by agreement with the definition except on the straddling pair: check it explicitly
    for si in range(8):
        for bi in range(10):
            vals = {nm: tabs[nm][(si, bi)] for nm in tabs if tabs[nm][(si, bi)] != 'rejected'}
            res.require(len(set(vals.values())) <= 1, 'C15:disagree:SF%d/%s' % (si + 5, BW[bi].strip('_')), 'LDRO decisions differ: %s' % vals, None, 'AGREE(all implementations)',
                        instance='all implementations agree on SF%d/%s' % (si + 5, BW[bi].strip('_')))
    n_chip = chip_programming(c, res)
    res.coverage.update({'exhaustive': True, 'cells_decided': n, 'chip_write_cases': n_chip,
                         'tables': {nm: {'SF%d/%s' % (si + 5, BW[bi].strip('_')): ('rejected' if v == 'rejected' else 'on' if v else 'off') for (si, bi), v in sorted(t.items())} for nm, t in tabs.items()},
                         'configs': [c.info]})
    res.explanation = __doc__
    res.assumptions = ['bandwidth nominal values per the Semtech datasheets; decision tables are extracted at 868.1 MHz (no bandwidth refused for frequency)']
    res.instances = res.instances[:120] + res.instances[-40:]
    return res
