"""C19 — MAC-command builders, parsers and identifier text forms round-trip (structural part).

Decided by *composing* each builder setter with the parser accessor of the same field inside the abstract
interpreter (the payload bytes the accessor reads are the very expressions the setter stored) and comparing, bit by
bit, the value that comes back with the argument that went in (bit-provenance view of the abstract values: every
result bit is bit k of the argument, a constant, or an old buffer bit). Per field: AGREE (the accessor returns the
argument on the field's width; signed fields sign-extend from the field's top bit; nibble-coded enums and flags are
decided by partition over their 16 / 2 values), FRAME (the setter changes exactly the bits of its field as given by
the LoRaWAN 1.0.x command table frozen below, all other bits of the buffer keep their old value), REFUSE (values
that do not fit are refused with an error before any write, or truncated to the field). Framing: every creator's
len() is 1 + the payload's length and both sides use the same CID; build_mac_commands writes cid + payload_len()
bytes per command and the parser consumes 1 + len() of the same table; CIDs and payload lengths equal the
specifications' command tables. Text forms (Display / FromStr of identifiers, addresses, keys): see props/c19_text.py -
which bytes, in which order and at which width are handed to the trusted hex formatter / parser on both sides.
Not decided: lossy fields (nano_seconds); variable-length certification/multicast creators."""
import re
from ..runner import Result, CheckError
from .. import absint_interp, bits, rules
from ..absint import Lin
from .common import ctx

PID = 'C19'

# (creator, setter, payload, accessor, kind, payload byte, lsb, width)   kind: u = unsigned value, s = signed, b = flag,
# e = 16-valued enum (partition), raw = newtype argument compared through its raw byte, bytes = opaque byte copy
PAIRS = [
    ('LinkCheckAnsCreator', 'set_margin', 'LinkCheckAnsPayload', 'margin', 'u', 0, 0, 8),
    ('LinkCheckAnsCreator', 'set_gateway_count', 'LinkCheckAnsPayload', 'gateway_count', 'u', 1, 0, 8),
    ('LinkADRReqCreator', 'set_data_rate', 'LinkADRReqPayload', 'data_rate', 'e', 0, 4, 4),
    ('LinkADRReqCreator', 'set_tx_power', 'LinkADRReqPayload', 'tx_power', 'e', 0, 0, 4),
    ('LinkADRReqCreator', 'set_channel_mask', 'LinkADRReqPayload', 'channel_mask', 'bytes', 1, 0, 16),
    ('LinkADRReqCreator', 'set_redundancy', 'LinkADRReqPayload', 'redundancy', 'raw', 3, 0, 8),
    ('LinkADRAnsCreator', 'set_channel_mask_ack', 'LinkADRAnsPayload', 'channel_mask_ack', 'b', 0, 0, 1),
    ('LinkADRAnsCreator', 'set_data_rate_ack', 'LinkADRAnsPayload', 'data_rate_ack', 'b', 0, 1, 1),
    ('LinkADRAnsCreator', 'set_tx_power_ack', 'LinkADRAnsPayload', 'powert_ack', 'b', 0, 2, 1),
    ('DutyCycleReqCreator', 'set_max_duty_cycle', 'DutyCycleReqPayload', 'max_duty_cycle_raw', 'u', 0, 0, 4),
    ('RXParamSetupReqCreator', 'set_dl_settings', 'RXParamSetupReqPayload', 'dl_settings', 'raw', 0, 0, 8),
    ('RXParamSetupReqCreator', 'set_frequency', 'RXParamSetupReqPayload', 'frequency', 'bytes', 1, 0, 24),
    ('RXParamSetupAnsCreator', 'set_channel_ack', 'RXParamSetupAnsPayload', 'channel_ack', 'b', 0, 0, 1),
    ('RXParamSetupAnsCreator', 'set_rx2_data_rate_ack', 'RXParamSetupAnsPayload', 'rx2_data_rate_ack', 'b', 0, 1, 1),
    ('RXParamSetupAnsCreator', 'set_rx1_data_rate_offset_ack', 'RXParamSetupAnsPayload', 'rx1_dr_offset_ack', 'b', 0, 2, 1),
    ('DevStatusAnsCreator', 'set_battery', 'DevStatusAnsPayload', 'battery', 'u', 0, 0, 8),
    ('DevStatusAnsCreator', 'set_margin', 'DevStatusAnsPayload', 'margin', 's', 1, 0, 6),
    ('NewChannelReqCreator', 'set_channel_index', 'NewChannelReqPayload', 'channel_index', 'u', 0, 0, 8),
    ('NewChannelReqCreator', 'set_frequency', 'NewChannelReqPayload', 'frequency', 'bytes', 1, 0, 24),
    ('NewChannelReqCreator', 'set_data_rate_range', 'NewChannelReqPayload', 'data_rate_range', 'raw', 4, 0, 8),
    ('NewChannelAnsCreator', 'set_channel_frequency_ack', 'NewChannelAnsPayload', 'channel_freq_ack', 'b', 0, 0, 1),
    ('NewChannelAnsCreator', 'set_data_rate_range_ack', 'NewChannelAnsPayload', 'data_rate_range_ack', 'b', 0, 1, 1),
    ('RXTimingSetupReqCreator', 'set_delay', 'RXTimingSetupReqPayload', 'delay', 'u', 0, 0, 4),
    ('TXParamSetupReqCreator', 'set_downlink_dwell_time', 'TXParamSetupReqPayload', 'downlink_dwell_time', 'b', 0, 5, 1),
    ('TXParamSetupReqCreator', 'set_uplink_dwell_time', 'TXParamSetupReqPayload', 'uplink_dwell_time', 'b', 0, 4, 1),
    ('TXParamSetupReqCreator', 'set_max_eirp', 'TXParamSetupReqPayload', 'max_eirp', 'coded', 0, 0, 4),
    ('DlChannelReqCreator', 'set_channel_index', 'DlChannelReqPayload', 'channel_index', 'u', 0, 0, 8),
    ('DlChannelReqCreator', 'set_frequency', 'DlChannelReqPayload', 'frequency', 'bytes', 1, 0, 24),
    ('DlChannelAnsCreator', 'set_channel_frequency_ack', 'DlChannelAnsPayload', 'channel_freq_ack', 'b', 0, 0, 1),
    ('DlChannelAnsCreator', 'set_uplink_frequency_exists_ack', 'DlChannelAnsPayload', 'uplink_freq_ack', 'b', 0, 1, 1),
    ('DeviceTimeAnsCreator', 'set_seconds', 'DeviceTimeAnsPayload', 'seconds', 'u', 0, 0, 32),
    # remote multicast setup (TS005): status byte of McGroupStatusAns = RFU[7] NbTotalGroups[6:4] AnsGroupMask[3:0]; McGroupStatusReq = RFU[7:4] ReqGroupMask[3:0]
    ('McGroupStatusAnsCreator', 'nb_total_groups', 'McGroupStatusAnsPayload', 'nb_total_groups', 'u', 0, 4, 3),
    ('McGroupStatusReqCreator', 'req_group_mask', 'McGroupStatusReqPayload', 'req_group_mask', 'u', 0, 0, 4),
]
# (module, payload type) -> (CID, payload length in bytes; None = variable length)
CID_TABLE = {
    **{('maccommands', n + 'Payload'): v for n, v in {
        'LinkCheckReq': (0x02, 0), 'LinkCheckAns': (0x02, 2), 'LinkADRReq': (0x03, 4), 'LinkADRAns': (0x03, 1), 'DutyCycleReq': (0x04, 1), 'DutyCycleAns': (0x04, 0),
        'RXParamSetupReq': (0x05, 4), 'RXParamSetupAns': (0x05, 1), 'DevStatusReq': (0x06, 0), 'DevStatusAns': (0x06, 2), 'NewChannelReq': (0x07, 5), 'NewChannelAns': (0x07, 1),
        'RXTimingSetupReq': (0x08, 1), 'RXTimingSetupAns': (0x08, 0), 'TXParamSetupReq': (0x09, 1), 'TXParamSetupAns': (0x09, 0), 'DlChannelReq': (0x0A, 4), 'DlChannelAns': (0x0A, 1),
        'DeviceTimeReq': (0x0D, 0), 'DeviceTimeAns': (0x0D, 5)}.items()},
    **{('certification', n + 'Payload'): v for n, v in {
        'DutResetReq': (0x01, 0), 'DutJoinReq': (0x02, 0), 'AdrBitChangeReq': (0x04, 1), 'TxPeriodicityChangeReq': (0x06, 1), 'TxFramesCtrlReq': (0x07, None),
        'EchoIncPayloadReq': (0x08, None), 'EchoIncPayloadAns': (0x08, None), 'RxAppCntReq': (0x09, 0), 'RxAppCntAns': (0x09, 2), 'LinkCheckReq': (0x20, 0),
        'DutVersionsReq': (0x7F, 0), 'DutVersionsAns': (0x7F, 12)}.items()},
    **{('multicast', n + 'Payload'): v for n, v in {
        'PackageVersionReq': (0x00, 0), 'PackageVersionAns': (0x00, 2), 'McGroupStatusReq': (0x01, 1), 'McGroupStatusAns': (0x01, None), 'McGroupSetupReq': (0x02, 29),
        'McGroupSetupAns': (0x02, 1), 'McGroupDeleteReq': (0x03, 1), 'McGroupDeleteAns': (0x03, 1), 'McClassCSessionReq': (0x04, 10), 'McClassCSessionAns': (0x04, 4),
        'McClassBSessionReq': (0x05, 10), 'McClassBSessionAns': (0x05, 4)}.items()},
}
NOT_JUDGED = {'DeviceTimeAnsCreator::set_nano_seconds': 'lossy by design (nanoseconds quantised to 1/256 s)'}
# RFU bits of the byte that a setter may also clear (written as constant 0): (payload byte, bit)
RFU = {('DevStatusAnsCreator', 'set_margin'): {(1, 6), (1, 7)}, ('McGroupStatusAnsCreator', 'nb_total_groups'): {(0, 7)}}
# the LoRaWAN coding of MaxEIRP (TXParamSetupReq): the builder takes the coded index, the parser returns dBm
EIRP_DBM = [8, 10, 12, 13, 14, 16, 18, 20, 21, 24, 26, 27, 29, 30, 33, 36]


def find_body(prog, suffix):
    l = [p for p in prog.by_short if p.endswith(suffix) and 'promoted' not in p and '{closure' not in p]
    if len(l) != 1:
        raise CheckError('anchor: %s matches %d bodies' % (suffix, len(l)))
    return prog.by_short[l[0]][0]


def accessor_body(prog, payload, accessor):
    for suf in ('%s::%s' % (payload, accessor), "%s<'a>>::%s" % (payload, accessor), "%s<'_>>::%s" % (payload, accessor)):
        l = [p for p in prog.by_short if p.endswith(suf) and 'promoted' not in p]
        if len(l) == 1:
            return prog.by_short[l[0]][0]
    raise CheckError('anchor: accessor %s::%s' % (payload, accessor))


class Composer:
    def __init__(self, prog):
        self.prog = prog

    def run_setter(self, creator, setter, arg=None):
        an = absint_interp.new_analyzer(self.prog, max_depth=7)
        try:
            sb = find_body(self.prog, '%s>::%s' % (creator, setter))
        except CheckError:
            sb = find_body(self.prog, '::%s::%s' % (creator, setter))     # inherent impl in the type's own module

        def setup(an_, fr, st):
            if arg is not None:
                st.env[(fr.id, 2)] = arg
        fr, out = an.analyze_entry(sb, setup=setup)
        oks, errs = [], []
        for u, v, st in an.entry_ret_edges:
            rv = st.env.get((fr.id, 0))
            if rv is not None and rv[0] == 'adt' and rv[1].endswith('Result') and rv[2] == frozenset([1]):
                errs.append(st)
            else:
                oks.append(st)
        return an, fr, sb, oks, errs

    def data_of(self, an, fr, st):
        obj = st.mem.get(('obj', 'p1_self*'))
        if obj is None:
            return None
        data = an.field_of(obj, 0, 'data', st, fr)
        if data[0] != 'array' or not isinstance(data[1], int):
            return None
        els = {}
        for i in range(data[1]):
            e = data[2].get(i, data[3])
            if e is None:
                e = an.materialize('u8', 'p1_self*.data[%d]' % i, st, fr)
            els[i] = e
        return els

    def run_accessor(self, an, st, els, payload, accessor):
        n = len(els)
        st.mem[('obj', 'pl*')] = ('array', n - 1, {i - 1: els[i] for i in range(1, n)}, None, None, 'u8')
        head = [p for p in self.prog.adts if p.endswith('::' + payload)]
        if len(head) != 1:
            raise CheckError('anchor: payload type %s' % payload)
        st.mem[('obj', 'plself*')] = ('adt', head[0], frozenset([0]), {(0, '0'): ('sref', ('O', 'pl*', ()), Lin.const(0), Lin.const(n - 1))}, None, ())
        ab = accessor_body(self.prog, payload, accessor)
        rv = an.call_body(ab, [('ref', ('O', 'plself*', ()))], None, st, {})
        return ab, rv


def run(tier):
    res = Result(PID)
    c = ctx('ws')
    prog = c.prog
    comp = Composer(prog)
    # completeness of the pair table: every set_* of the fixed-length creators is listed or explicitly not judged
    listed = {(p[0], p[1]) for p in PAIRS}
    found = set()
    for p_ in prog.by_short:
        m = re.match(r'^lorawan::maccommandcreator::<impl lorawan::maccommands::(\w+Creator)>::(set_\w+)$', p_)
        if m:
            found.add((m.group(1), m.group(2)))
    missing = sorted(x for x in found - listed if '%s::%s' % x not in NOT_JUDGED)
    res.require(not missing, 'C19:pairs:unlisted-setter', 'builder setters without a reviewed (setter, accessor) pair: %s' % missing, 'lorawan::maccommandcreator', 'TABLE(pairs complete)',
                instance='all %d set_* methods of the MAC command creators are paired or listed as not judged' % len(found))
    if len(found) < 30:
        raise CheckError('floor: creator setters found %d < 30' % len(found))
    for (creator, setter, payload, accessor, kind, byte, lsb, width) in PAIRS:
        name = '%s::%s' % (creator, setter)
        an, fr, sb, oks, errs = comp.run_setter(creator, setter)
        if len(oks) != 1:
            raise CheckError('anchor: %s has %d successful exits' % (name, len(oks)))
        st = oks[0]
        els = comp.data_of(an, fr, st)
        if els is None:
            raise CheckError('anchor: %s: buffer not tracked' % name)
        bv = bits.BitView(an, st)
        # ---- FRAME: exactly the field's bits change
        changed = set()
        for i, e in sorted(els.items()):
            lin = an.as_int(e, st)
            bl = bv.lin_bits(lin, 'u8') if lin is not None else [bits.UNK] * 8
            for k, b_ in enumerate(bl):
                if b_ != ('i', 'p1_self*.data[%d]' % i, k):
                    changed.add((i, k))
        nbytes = (lsb + width + 7) // 8
        want = {(1 + byte + (lsb + j) // 8, (lsb + j) % 8) for j in range(width)}
        rfu = {(1 + b_, k_) for (b_, k_) in RFU.get((creator, setter), set())}
        extra = changed - want
        rfu_ok = True
        for (i_, k_) in extra & rfu:
            lin_ = an.as_int(els[i_], st)
            rfu_ok = rfu_ok and lin_ is not None and bv.lin_bits(lin_, 'u8')[k_] == 0
        if rfu_ok:
            changed = changed - rfu
        res.require(changed == want, 'C19:%s:frame' % name, '%s changes buffer bits %s, the command table says %s (byte.bit, CID at byte 0)' % (
            name, sorted(changed ^ want)[:8], 'payload byte %d bits %d..%d' % (byte, lsb, lsb + width - 1)), sb.path, 'FRAME(setter writes exactly its field)',
            instance='%s writes exactly payload byte %d bits %d..%d' % (name, byte, lsb, lsb + width - 1))
        # ---- REFUSE: error exits leave the buffer untouched
        for es in errs:
            eels = comp.data_of(an, fr, es)
            untouched = eels is None or all(an.as_int(e, es) == Lin.sym('p1_self*.data[%d]' % i) for i, e in eels.items())
            res.require(untouched, 'C19:%s:refusal-writes' % name, '%s writes to the buffer on a path that returns an error' % name, sb.path, 'EFFECT(no write before refusal)',
                        instance='%s: a refused value leaves the buffer untouched' % name)
        # ---- AGREE
        if kind in ('u', 's'):
            ab, rv = comp.run_accessor(an, st, els, payload, accessor)
            rty = ab.locals[0]
            ok = rv is not None and rv[0] == 'int' and rty in bits.WIDTH
            detail = None
            if ok:
                rb = bits.BitView(an, st).lin_bits(rv[1], rty)
                argname = 'p2_%s' % (sb.local_name(2) or 'arg2')
                exp = []
                for k in range(bits.WIDTH[rty]):
                    if k < width:
                        exp.append(('i', argname, k))
                    else:
                        exp.append(('i', argname, width - 1) if kind == 's' else 0)
                # bits of the argument that the refusal guard has proven zero appear as 0 in the view
                ok = all(r == e or (r == 0 and e != 0 and isinstance(e, tuple) and _known_zero(st, e)) for r, e in zip(rb, exp))
                detail = bits.fmt(rb)
            res.require(ok, 'C19:%s:agree' % name, '%s(%s(x)) is not x on the %d-bit field: result bits %s' % (accessor, setter, width, detail or str(rv)[:80]), sb.path,
                        'AGREE(accessor . setter = identity, bit provenance)', instance='%s: %s() returns the value set (%d bits%s)' % (name, accessor, width, ', sign-extended' if kind == 's' else ''))
        elif kind == 'b':
            got = {}
            for val in (False, True):
                an2, fr2, sb2, oks2, errs2 = comp.run_setter(creator, setter, arg=('bool', ('const', val)))
                els2 = comp.data_of(an2, fr2, oks2[0]) if len(oks2) == 1 else None
                if els2 is None:
                    got[val] = 'setter'
                    continue
                ab, rv = comp.run_accessor(an2, oks2[0], els2, payload, accessor)
                got[val] = _decide_bool(an2, oks2[0], rv)
            res.require(got == {False: False, True: True}, 'C19:%s:agree' % name, '%s(%s(b)) for b = false, true gives %s' % (accessor, setter, got), sb.path,
                        'AGREE(partition over the flag)', instance='%s: %s() returns the flag set' % (name, accessor))
        elif kind == 'e':
            got = {}
            for val in range(1 << width):
                an2, fr2, sb2, oks2, errs2 = comp.run_setter(creator, setter, arg=('int', Lin.const(val)))
                els2 = comp.data_of(an2, fr2, oks2[0]) if len(oks2) == 1 else None
                if els2 is None:
                    got[val] = 'refused'
                    continue
                ab, rv = comp.run_accessor(an2, oks2[0], els2, payload, accessor)
                if rv is not None and rv[0] == 'adt' and rv[2] is not None and len(rv[2]) == 1:
                    a_ = prog.adts[rv[1]]
                    got[val] = a_['variants'][next(iter(rv[2]))]['discr']
                else:
                    got[val] = str(rv)[:40]
            res.require(all(got.get(v) == v for v in range(1 << width)), 'C19:%s:agree' % name, '%s(%s(v)) over v = 0..%d gives %s' % (accessor, setter, (1 << width) - 1, got), sb.path,
                        'AGREE(partition over the %d field values)' % (1 << width), instance='%s: %s() returns the value set for each of the %d values' % (name, accessor, 1 << width))
            # larger values are refused
            an3, fr3, sb3, oks3, errs3 = comp.run_setter(creator, setter, arg=('int', Lin.const(1 << width)))
            trunc_ok = True
            if oks3:
                els3 = comp.data_of(an3, fr3, oks3[0])
                trunc_ok = False
            res.require(not oks3 or trunc_ok, 'C19:%s:out-of-range' % name, '%s accepts %d, which does not fit the %d-bit field' % (name, 1 << width, width), sb.path,
                        'REFUSE(out of range)', instance='%s refuses values that do not fit' % name)
        elif kind == 'coded':
            got = {}
            for val in range(1 << width):
                an2, fr2, sb2, oks2, errs2 = comp.run_setter(creator, setter, arg=('int', Lin.const(val)))
                els2 = comp.data_of(an2, fr2, oks2[0]) if len(oks2) == 1 else None
                if els2 is None:
                    got[val] = 'refused'
                    continue
                ab, rv = comp.run_accessor(an2, oks2[0], els2, payload, accessor)
                lo_, hi_ = (oks2[0].lb(rv[1]), oks2[0].ub(rv[1])) if rv is not None and rv[0] == 'int' else (None, None)
                got[val] = lo_ if lo_ == hi_ else str(rv)[:40]
            res.require([got.get(v) for v in range(1 << width)] == EIRP_DBM, 'C19:%s:agree' % name, '%s(%s(code)) over the 16 codes gives %s (LoRaWAN MaxEIRP table: %s)' % (accessor, setter, got, EIRP_DBM), sb.path,
                        'AGREE(partition over the 16 codes, decoded through the specification table)', instance='%s: %s() decodes each of the 16 codes per the MaxEIRP table' % (name, accessor))
        elif kind in ('raw', 'bytes'):
            # the argument is a wrapper (Into<T>): the bytes stored come, in order, from one source object; the accessor hands back a wrapper over exactly those payload bytes
            srcs = []
            for j in range(nbytes):
                lin = an.as_int(els[1 + byte + j], st)
                sg = lin.single() if lin is not None else None
                srcs.append(sg[0] if sg and sg[1] == 1 and lin.k == 0 else None)
            ok = all(srcs)
            if ok and nbytes > 1:
                m = [re.match(r'^(.*)\[(\d+)\]$', s_) for s_ in srcs]
                ok = all(m) and len({x.group(1) for x in m}) == 1 and [int(x.group(2)) for x in m] == list(range(nbytes))
            ab, rv = comp.run_accessor(an, st, els, payload, accessor)
            back = _wrapped_bytes(an, st, rv, nbytes)
            want_back = [an.as_int(els[1 + byte + j], st) for j in range(nbytes)]
            res.require(ok and back == want_back, 'C19:%s:agree' % name, '%s stores %s; %s() hands back %s' % (setter, srcs, accessor, [str(x) for x in back] if back else str(rv)[:80]), sb.path,
                        'AGREE(byte copy in order; accessor wraps the same bytes)', instance='%s: %d byte(s) copied in order, %s() wraps exactly them' % (name, nbytes, accessor))
    # ------------------------------------------------------------------ framing
    n_len = 0
    for creator in sorted({p[0] for p in PAIRS}):
        if creator.startswith('McGroupStatus'):
            continue            # variable-length / hand-written framing: CID and length are judged by the command table below
        payload = creator[:-7] + 'Payload'
        lb = find_body(prog, '::%s::len' % creator)
        mb = find_body(prog, '::%s::max_len' % payload)
        from .. import tables
        a1, f1, o1, r1 = tables.run_fn(prog, lb, depth=4)
        a2, f2, o2, r2 = tables.run_fn(prog, mb, depth=4)
        l1 = tables._single(o1, r1) if o1 is not None else None
        l2 = tables._single(o2, r2) if o2 is not None else None
        cb = [p for p in prog.by_short if p.endswith('::%s::cid' % creator)]
        pb = [p for p in prog.by_short if p.endswith('::%s::cid' % payload)]
        cid1 = cid2 = None
        if len(cb) == 1 and len(pb) == 1:
            a3, f3, o3, r3 = tables.run_fn(prog, prog.by_short[cb[0]][0], depth=3)
            a4, f4, o4, r4 = tables.run_fn(prog, prog.by_short[pb[0]][0], depth=3)
            cid1 = tables._single(o3, r3) if o3 is not None else None
            cid2 = tables._single(o4, r4) if o4 is not None else None
        n_len += 1
        res.require(l1 is not None and l1 == (l2 or -1) + 1 and cid1 is not None and cid1 == cid2, 'C19:%s:framing' % creator,
                    '%s: len() = %s, payload max_len() = %s, CIDs %s / %s' % (creator, l1, l2, cid1, cid2), creator, 'CONST(len = 1 + payload length, same CID)',
                    instance='%s: len %s = 1 + %s, CID 0x%02x on both sides' % (creator, l1, l2, cid1 or 0))
    if n_len < 12:
        raise CheckError('floor: creators checked for framing %d < 12' % n_len)
    # command identifiers and payload lengths against the specifications (LoRaWAN 1.0.4 section 5, TS009-1.x, TS005-1.x): both
    # sides of this repository are generated from one table, so agreement between them cannot show a wrong table entry
    n_cid = 0
    for pth in sorted(prog.by_short):
        m = re.match(r'^lorawan::(maccommands|certification|multicast)::(\w+Payload)::cid$', pth)
        if not m:
            continue
        mod, name = m.group(1), m.group(2)
        a3, f3, o3, r3 = tables.run_fn(prog, prog.by_short[pth][0], depth=3)
        cid = tables._single(o3, r3) if o3 is not None else None
        ml = [q for q in prog.by_short if q == pth[:-5] + '::max_len']
        ln = None
        if ml:
            a4, f4, o4, r4 = tables.run_fn(prog, prog.by_short[ml[0]][0], depth=4)
            ln = tables._single(o4, r4) if o4 is not None else None
        want = CID_TABLE.get((mod, name))
        n_cid += 1
        res.require(want is not None and cid == want[0] and (want[1] is None or ln == want[1]), 'C19:%s::%s:cid-table' % (mod, name),
                    '%s::%s: CID %s, payload length %s; specification: %s' % (mod, name, cid, ln, 'CID 0x%02x, %s byte(s)' % (want[0], want[1] if want[1] is not None else 'variable') if want else 'no entry in the command table of the check'),
                    pth, 'ORACLE(CID and payload length per command)', instance='%s::%s: CID 0x%02x, payload %s byte(s)' % (mod, name, want[0] if want else -1, want[1] if want else '?'))
    if n_cid < 44:
        raise CheckError('floor: payload types compared with the command table %d < 44' % n_cid)
    n_arms = stream_framing(c, res)
    from . import c19_text
    c19_text.check(c, res)
    res.coverage.update({'pairs': len(PAIRS), 'not_judged': NOT_JUDGED, 'configs': [c.info], 'parse_one_arms': n_arms})
    res.explanation = __doc__
    res.assumptions = ['the command table (byte, bit range per field) is frozen from LoRaWAN 1.0.x in lrs/props/c19.py',
                       'wrapper arguments (ChannelMask, Frequency, Redundancy, DLSettings, DataRateRange) are compared as the bytes they carry']
    return res


def stream_framing(c, res):
    """a stream of commands parses back to the same sequence only if each step of the generated framing functions
    (MacCommandSet::parse_one, one arm per command of the six command sets) wraps exactly the bytes it reports as
    consumed: every Ok((Variant(Payload::new_from_raw(S)), n)) has S = data[1 .. n]"""
    from ..flow import ProgFlow
    from ..rules import term_of_operand, term_str, linear
    from ..layout import peel, index_call
    fns = sorted(p for p in c.prog.by_short if p.endswith('MacCommandSet<\'a>>::parse_one'))
    if len(fns) != 6:
        raise CheckError('anchor: generated parse_one functions %d != 6' % len(fns))
    n_arms = 0

    def span(t):
        # (start, end) linear forms of a (nested) range-indexed view of the input slice `data` (parameter 1); end None = to the end
        t = peel(rules._strip_wrappers(t))
        if t == ('param', 1):
            return ({}, 0), None
        ic = index_call(t)
        if ic is None:
            return None
        base, (a, b, kind) = ic
        sp = span(base)
        if sp is None:
            return None
        (s0, e0) = sp

        def add(x, y):
            d = dict(x[0])
            for k, v in y[0].items():
                d[k] = d.get(k, 0) + v
                if d[k] == 0:
                    del d[k]
            return d, x[1] + y[1]
        st_ = add(s0, linear(a))
        en_ = add(s0, linear(b)) if b is not None else e0
        return st_, en_
    for fn in fns:
        bf = c.bf(fn)
        short = fn.split(' as ')[0].lstrip('<').split('::')[-1].replace("<'a>", '')
        arms = 0
        for b in bf.body.blocks:
            if b.cleanup or b.idx not in bf.cfg.reach:
                continue
            for si, s_ in enumerate(b.stmts):
                if not (s_.k == 'assign' and s_.rv.k == 'agg' and s_.rv.d.get('variant') == 'Ok'):
                    continue
                t = term_of_operand(bf, s_.rv.ops[0])
                if not (t[0] == 'tuple' and len(t[1]) == 2 and t[1][0][0] == 'agg'):
                    continue
                arms += 1
                var = t[1][0][1].split('::')[-1]
                fields = t[1][0][2]
                consumed = linear(t[1][1])
                ok, why = True, ''
                if fields:
                    pl = peel(fields[0][1])
                    if not (pl[0] == 'call' and pl[1].endswith('::new_from_raw') and len(pl[2]) == 1):
                        ok, why = False, 'payload is %s' % term_str(pl)[:80]
                    else:
                        sp = span(pl[2][0])
                        if sp is None:
                            ok, why = False, 'payload bytes are not a range of the input: %s' % term_str(pl[2][0])[:100]
                        else:
                            (st_, en_) = sp
                            if st_ != ({}, 1):
                                ok, why = False, 'payload does not start right after the CID byte'
                            elif en_ is None:
                                # wrapping all remaining bytes is the same as data[1..n] only when n - 1 is provably the number of remaining bytes:
                                # len() of this payload type is max(_, self.0.len()) (>= remaining) and the arm is behind `!(remaining < len)`
                                if not _len_is_whole_rest(c, bf, b.idx, pl, t[1][1]):
                                    ok, why = False, 'payload wraps every remaining byte of the stream, but only %s byte(s) are reported as consumed' % term_str(t[1][1])[:60]
                            elif en_ != consumed:
                                ok, why = False, 'payload ends at %s, consumed count is %s' % (en_, consumed)
                else:
                    ok = consumed == ({}, 1)
                    why = 'a command without payload consumes %s bytes' % (consumed,)
                res.require(ok, 'C19:%s::parse_one:%s:frame' % (short, var), '%s::parse_one, command %s: %s' % (short, var, why), '%s bb%d' % (fn, b.idx),
                            'FRAME(payload = data[1..consumed])', instance='%s::%s: payload is exactly data[1..n], n = bytes consumed' % (short, var))
        if arms < 2:
            raise CheckError('floor: %s has %d Ok arms' % (fn, arms))
        n_arms += arms
    if n_arms < 44:
        raise CheckError('floor: parse_one arms %d < 44 (counted on the pinned tree)' % n_arms)
    return n_arms


def _len_is_whole_rest(c, bf, bb, payload_call, consumed_term):
    from ..rules import path_conditions, cond_false, linear, callee_name, term_of_operand
    from ..layout import peel
    lin, k = linear(consumed_term)
    if k != 1 or len(lin) != 1 or list(lin.values()) != [1]:
        return False
    lt = peel(list(lin)[0])
    if not (lt[0] == 'call' and lt[1].endswith('::len') and len(lt[2]) == 1 and peel(lt[2][0]) == payload_call):
        return False
    bl = c.prog.by_short.get(lt[1]) or []
    if len(bl) != 1:
        return False
    lbf = c.bf(lt[1])
    whole = False
    for cb, ct in lbf.calls():
        if ct.dest.is_local() and ct.dest.local == 0:
            args = [peel(term_of_operand(lbf, a)) for a in ct.args]
            def is_self0(x):
                x = peel(x)
                return x[0] == 'field' and x[2] == '0' and peel(x[1]) == ('param', 1)

            def is_self_len(a):
                return a[0] == 'call' and a[1].endswith('::len') and len(a[2]) == 1 and is_self0(a[2][0])
            if callee_name(ct).endswith('cmp::max') and any(is_self_len(a) for a in args):
                whole = True
            if callee_name(ct).endswith('::len') and len(args) == 1 and is_self0(args[0]):
                whole = True
    if not whole:
        return False
    rest = peel(payload_call[2][0])
    for x in path_conditions(bf, bb):
        t = x[0]
        if t[0] == 'Lt' and cond_false(x) and peel(t[2]) == lt and peel(t[1])[0] == 'call' and peel(t[1])[1].endswith('::len') and peel(peel(t[1])[2][0]) == rest:
            return True
    return False


def _known_zero(st, e):
    hi = st.hi.get(e[1])
    return hi is not None and hi.bit_length() <= e[2]


def _wrapped_bytes(an, st, rv, n):
    """the byte values a wrapper result carries (newtype over a slice / array / u8), or None"""
    if rv is None:
        return None
    v = rv
    for _ in range(4):
        if v[0] == 'adt' and v[1] == 'core::result::Result':
            # a validating accessor (e.g. min <= max): the successful result wraps the bytes
            v = an.field_of(v, 0, '0', st, None)
            continue
        if v[0] == 'adt' and v[1] == 'core::option::Option':
            v = an.field_of(v, 1, '0', st, None)
            continue
        if v[0] == 'adt' and v[2] == frozenset([0]) and (0, '0') in v[3]:
            v = v[3][(0, '0')]
            continue
        break
    if v[0] == 'int':
        return [v[1]] if n == 1 else None
    if v[0] == 'sref':
        if not (v[3].is_const() and v[3].k == n and v[2].is_const()):
            return None
        out = []
        for j in range(n):
            e = an.read_elem(v, Lin.const(j), None, st)
            out.append(an.as_int(e, st))
        return out
    if v[0] == 'array' and v[1] == n:
        return [an.as_int(v[2].get(j, v[3]), st) if v[2].get(j, v[3]) is not None else None for j in range(n)]
    return None


def _decide_bool(an, st, rv):
    """truth value of a boolean result through the bit view, or a description when undecided"""
    if rv is None or rv[0] != 'bool':
        return str(rv)[:60]
    cnd = rv[1]
    if cnd[0] == 'const':
        return bool(cnd[1])
    if cnd[0] == 'cmp' and cnd[1] in ('Ne', 'Eq') and cnd[3].is_const() and cnd[3].k == 0:
        bl = bits.BitView(an, st).lin_bits(cnd[2], 'u8')
        if any(b_ == 1 for b_ in bl):
            return cnd[1] == 'Ne'
        if all(b_ == 0 for b_ in bl):
            return cnd[1] == 'Eq'
    return str(rv)[:60]
