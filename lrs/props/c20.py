"""C20 — a persisted session restores losslessly and never rewinds counters (structural necessary conditions).

Decided on the MIR of the *generated* and hand-written serde code under `--features serde`: (a) completeness of the
derived impls of Session and of the key/address newtypes: Serialize emits every field of the type exactly once,
unconditionally, under its own name and from that field; the Deserialize visitor requires every field (a
missing_field error per name, no default), rejects duplicates, and builds the value from exactly the values read;
the name lists of both directions are equal; (b) the hand-written Uplink impl: the three entries written are the
three entries required, the pending-length guard precedes the slice, and the Uplink is rebuilt from those values;
(c) restoring replaces the session as a whole (no field-wise merge that could keep an older counter); (d) the
fields a restored session may carry are unconstrained inputs of the C03/C04 analyses. Not decided: equality of the
round trip through a concrete data format (behaviour of the format crate)."""
import re
from ..runner import Result, CheckError
from .. import rules, flow, layout
from ..rules import param_by_name, term_of_operand, term_str, callee_name, path_conditions, cond_true, cond_false
from ..flow import term_contains
from ..layout import peel
from .common import ctx, short_site, is_session_replacement
from .c11 import is_call, has_call, field_path

PID = 'C20'
D = 'lorawan_device::'

DERIVED_STRUCTS = ['lorawan_device::mac::session::Session']
NEWTYPES = ['lorawan::keys::AES128', 'lorawan::keys::NwkSKey', 'lorawan::keys::AppSKey', 'lorawan::parser::DevAddr']


def const_strs(t):
    return [a.const.get('s').strip('"') for a in t.args if a.const is not None and 's' in a.const and isinstance(a.const.get('s'), str)]


def impl_fn(prog, trait_suffix, self_ty, method):
    out = []
    for im in prog.impls:
        if (im.get('trait') or '').endswith(trait_suffix) and im['self_ty'].split('<')[0] == self_ty:
            for it in im['items']:
                if it['name'] == method and prog.bodies.get(it['path']) is not None:
                    out.append(prog.bodies[it['path']])
    return out


def only_try_conditions(bf, bb):
    """the block is reached on every non-error path: its necessary conditions are `?` continuations only"""
    extra = []
    for cnd in path_conditions(bf, bb):
        tm = cnd[0]
        if tm[0] == 'discr' and is_call(tm[1], 'Try::branch'):
            continue
        extra.append((term_str(tm)[:80], cnd[1]))
    return extra


def run(tier):
    res = Result(PID)
    c = ctx('dev-serde')
    prog = c.prog
    # ------------------------------------------------------------------ (a) derived struct impls
    for ty in DERIVED_STRUCTS:
        adt = prog.adts.get(ty)
        if adt is None:
            raise CheckError('anchor: %s' % ty)
        fields = [f['name'] for f in adt['variants'][0]['fields']]
        short = ty.split('::')[-1]
        sb = impl_fn(prog, 'ser::Serialize', ty, 'serialize')
        if len(sb) != 1:
            raise CheckError('anchor: Serialize impl of %s: %d bodies' % (ty, len(sb)))
        bf = c.pf.bf(sb[0])
        seen = {}
        for bb, t in bf.calls():
            if callee_name(t).endswith('SerializeStruct::serialize_field'):
                names = const_strs(t)
                v = peel(term_of_operand(bf, t.args[2]))
                seen.setdefault(names[0] if names else '?', []).append((bb, v))
        for f in fields:
            sites = seen.get(f, [])
            okf = len(sites) == 1 and field_path(sites[0][1]) == (('param', 1), [f]) and not only_try_conditions(bf, sites[0][0])
            res.require(okf, 'C20:%s:serialize:%s' % (short, f), 'field %s is not serialised exactly once, unconditionally, from self.%s (sites: %s)' % (f, f, [(b_, term_str(v_)[:40]) for b_, v_ in sites]),
                        bf.body.path, 'COMPLETE(serialize every field)', instance='%s: serialize_field("%s", &self.%s) always' % (short, f, f))
        extra = sorted(set(seen) - set(fields))
        res.require(not extra, 'C20:%s:serialize:extra' % short, 'entries without a field: %s' % extra, bf.body.path, 'COMPLETE(serialize)', instance='%s: no extra serialised entries' % short)
        # deserialize: visit_map requires each field, rejects duplicates, builds from the values read
        vm = [b for p_, bl in prog.by_short.items() for b in bl if 'Deserialize' in p_ and ('for ' + ty + '>') in p_ and p_.endswith('::visit_map') and '__Visitor' in p_]
        vs = [b for p_, bl in prog.by_short.items() for b in bl if 'Deserialize' in p_ and ('for ' + ty + '>') in p_ and p_.endswith('::visit_seq') and '__Visitor' in p_]
        if len(vm) != 1 or len(vs) != 1:
            raise CheckError('anchor: derived visitor of %s (visit_map %d, visit_seq %d)' % (ty, len(vm), len(vs)))
        bfm = c.pf.bf(vm[0])
        miss, dup = {}, {}
        for bb, t in bfm.calls():
            cn = callee_name(t)
            if cn.endswith('missing_field'):
                for n in const_strs(t):
                    miss[n] = miss.get(n, 0) + 1
            elif cn.endswith('duplicate_field'):
                for n in const_strs(t):
                    dup[n] = dup.get(n, 0) + 1
        res.require(sorted(miss) == sorted(fields) and all(v == 1 for v in miss.values()), 'C20:%s:deserialize:required' % short,
                    'fields that deserialisation does not require (a default would silently reset them): %s' % sorted(set(fields) ^ set(miss)), bfm.body.path,
                    'COMPLETE(missing_field per field)', instance='%s: every field is required when restoring (%d fields)' % (short, len(fields)))
        res.require(sorted(dup) == sorted(fields), 'C20:%s:deserialize:duplicates' % short, 'duplicate entries not rejected for %s' % sorted(set(fields) ^ set(dup)), bfm.body.path,
                    'COMPLETE(duplicate_field per field)', instance='%s: duplicate entries rejected' % short)
        for bfx, nm in ((bfm, 'visit_map'), (c.pf.bf(vs[0]), 'visit_seq')):
            aggs = [(b.idx, s) for b in bfx.body.blocks if not b.cleanup and b.idx in bfx.cfg.reach for s in b.stmts
                    if s.k == 'assign' and s.rv.k == 'agg' and (s.rv.d.get('adt') or '').split('<')[0] == ty]
            okb = len(aggs) == 1 and sorted(aggs[0][1].rv.d['fields']) == sorted(fields)
            srcs = {}
            if okb:
                for fn_, o in zip(aggs[0][1].rv.d['fields'], aggs[0][1].rv.ops):
                    v = peel(term_of_operand(bfx, o))
                    # the value read for this entry: payload of next_value / next_element (possibly through an Option local)
                    okv = has_call(v, 'next_value') or has_call(v, 'next_element') or has_call(v, 'missing_field') or v[0] == 'phi' or \
                        (v[0] == 'field' and isinstance(v[1], tuple) and v[1][0] == 'as')
                    if v[0] == 'phi':
                        okv = all(has_call(dv, 'next_value') or has_call(dv, 'next_element') or has_call(dv, 'missing_field') or (dv[0] == 'field') for dv, cs, b_ in rules.defs_with_conditions(bfx, v[1]))
                    if has_call(v, 'Default::default'):
                        okv = False
                    srcs[fn_] = okv
            res.require(okb and all(srcs.values()), 'C20:%s:deserialize:%s:construct' % (short, nm), '%s does not build %s from exactly the values read: %s' % (nm, short, {k: v for k, v in srcs.items() if not v}),
                        bfx.body.path, 'SAME-VALUE(read values -> fields)', instance='%s::%s builds every field from the value read' % (short, nm))
        # the value of every entry is read (and written) AS THE FIELD'S OWN TYPE: `serde(with / deserialize_with / serialize_with)` puts a
        # private wrapper type between the stored entry and the field, and with it arbitrary code (a "compatibility shim" that maps a stored
        # Some(0) to None rewinds the downlink counter of a restored session)
        ftys = sorted(f['ty'] for f in adt['variants'][0]['fields'])
        for bfx, nm, suffixes in ((bfm, 'visit_map', ('MapAccess::next_value',)), (c.pf.bf(vs[0]), 'visit_seq', ('SeqAccess::next_element',))):
            got = []
            for bb, t in bfx.calls():
                if callee_name(t).endswith(suffixes) and t.func is not None and t.func.const:
                    ga = [g for g in (t.func.const.get('ga') or []) if not g.startswith("'")]
                    if ga and not ga[-1].endswith('IgnoredAny'):
                        got.append(ga[-1])
            res.require(sorted(got) == ftys, 'C20:%s:deserialize:%s:entry-types' % (short, nm),
                        '%s reads entries as %s; the fields are %s: a field restored through another type (serde deserialize_with / with) does not have to come back as it was stored' % (
                            nm, sorted(set(got) - set(ftys)) or sorted(got), sorted(set(ftys) - set(got)) or ftys), bfx.body.path,
                        'TYPE(entry read as the field type)', instance='%s::%s reads every entry as the type of its field' % (short, nm))
        got = []
        for bb, t in bf.calls():
            if callee_name(t).endswith('SerializeStruct::serialize_field') and t.func is not None and t.func.const:
                ga = [g for g in (t.func.const.get('ga') or []) if not g.startswith("'")]
                if ga:
                    got.append(ga[-1])
        res.require(sorted(got) == ftys, 'C20:%s:serialize:entry-types' % short, 'serialize writes entries as %s; the fields are %s (serde serialize_with / with)' % (sorted(got), ftys), bf.body.path,
                    'TYPE(entry written as the field type)', instance='%s: every entry is written as the type of its field' % short)
        # field-name tables: FIELDS const and the identifier visitor
        fb = [b for p_, bl in prog.by_short.items() for b in bl if ('for ' + ty + '>') in p_ and 'deserialize::FIELDS' in p_]
        names = []
        for b in fb:
            for blk in b.blocks:
                for s in blk.stmts:
                    if s.k == 'assign':
                        for o in s.rv.ops:
                            if o.const is not None and isinstance(o.const.get('s'), str) and o.const.get('ty', '') == '&str':
                                names.append(o.const['s'].strip('"'))
        res.require(sorted(set(names)) == sorted(fields), 'C20:%s:field-names' % short, 'FIELDS = %s differs from the struct fields %s' % (sorted(set(names)), sorted(fields)), ty,
                    'TABLE(field names both directions)', instance='%s: serialised names = deserialised names = struct fields' % short)
    # newtypes: serialize_newtype_struct(&self.0) and a visitor that wraps the value read
    for ty in NEWTYPES:
        short = ty.split('::')[-1]
        sb = impl_fn(prog, 'ser::Serialize', ty, 'serialize')
        if len(sb) != 1:
            raise CheckError('anchor: Serialize impl of %s: %d' % (ty, len(sb)))
        bf = c.pf.bf(sb[0])
        cs = [(bb, t) for bb, t in bf.calls() if callee_name(t).endswith('serialize_newtype_struct') or callee_name(t).endswith('Serialize::serialize')]
        okn = len(cs) == 1 and field_path(term_of_operand(bf, cs[0][1].args[2] if callee_name(cs[0][1]).endswith('newtype_struct') else cs[0][1].args[0])) == (('param', 1), ['0'])
        res.require(okn, 'C20:%s:serialize' % short, '%s is not serialised from its only field' % short, bf.body.path, 'COMPLETE(newtype)', instance='%s: serialised from self.0' % short)
        vis = [b for p_, bl in prog.by_short.items() for b in bl if 'Deserialize' in p_ and ('for ' + ty + '>') in p_ and (p_.endswith('::visit_newtype_struct') or p_.endswith('::visit_seq'))]
        okd = len(vis) >= 1
        for b in vis:
            bfx = c.pf.bf(b)
            aggs = [s for bl_ in bfx.body.blocks if not bl_.cleanup for s in bl_.stmts if s.k == 'assign' and s.rv.k == 'agg' and (s.rv.d.get('adt') or '').split('<')[0] == ty]
            okd = okd and len(aggs) == 1 and (has_call(term_of_operand(bfx, aggs[0].rv.ops[0]), 'deserialize') or has_call(term_of_operand(bfx, aggs[0].rv.ops[0]), 'next_element') or
                                              peel(term_of_operand(bfx, aggs[0].rv.ops[0]))[0] in ('field', 'phi'))
        res.require(okd, 'C20:%s:deserialize' % short, '%s is not rebuilt from the value read' % short, ty, 'SAME-VALUE(newtype)', instance='%s: rebuilt from the value read' % short)
    # ------------------------------------------------------------------ (b) hand-written Uplink
    UP = 'lorawan_device::mac::uplink::Uplink'
    sb = impl_fn(prog, 'ser::Serialize', UP, 'serialize')
    if len(sb) != 1:
        raise CheckError('anchor: Serialize for Uplink')
    bf = c.pf.bf(sb[0])
    ent = {}
    for bb, t in bf.calls():
        if callee_name(t).endswith('SerializeStruct::serialize_field'):
            n = const_strs(t)
            ent[n[0] if n else '?'] = (bb, peel(term_of_operand(bf, t.args[2])))
    want = ['confirmed', 'pending_data', 'pending_len']
    res.require(sorted(ent) == want, 'C20:Uplink:serialize:entries', 'Uplink serialises %s (expected %s)' % (sorted(ent), want), bf.body.path, 'TABLE(entries)', instance='Uplink: entries confirmed, pending_len, pending_data')
    if sorted(ent) == want:
        okc = field_path(ent['confirmed'][1]) == (('param', 1), ['confirmed']) and not only_try_conditions(bf, ent['confirmed'][0])
        res.require(okc, 'C20:Uplink:serialize:confirmed', 'confirmed is not serialised from self.confirmed', bf.body.path, 'PROVENANCE(confirmed)', instance='Uplink: confirmed <- self.confirmed')
        lv = ent['pending_len'][1]
        okl = lv[0] == 'cast' and has_call(lv, '::len') and term_contains(lv, lambda y: y == 'pending') and not only_try_conditions(bf, ent['pending_len'][0])
        res.require(okl, 'C20:Uplink:serialize:pending_len', 'pending_len is not self.pending.len(): %s' % term_str(lv), bf.body.path, 'PROVENANCE(pending_len)', instance='Uplink: pending_len <- self.pending.len()')
        arr = ent['pending_data'][1]
        script = layout.buffer_script(bf, lambda t: t == arr)
        okd = len(script) == 1 and script[0].kind == 'range' and layout.off(script[0].start) == 0 and has_call(script[0].end, '::len') and \
            term_contains(script[0].value, lambda y: y == 'pending') and not only_try_conditions(bf, ent['pending_data'][0])
        res.require(okd, 'C20:Uplink:serialize:pending_data', 'pending_data is not the pending bytes copied to the front of a fixed array: %s' % script, bf.body.path, 'SPEC-LAYOUT(pending_data)',
                    instance='Uplink: pending_data[..len] <- self.pending')
    vm = [b for p_, bl in prog.by_short.items() for b in bl if 'UplinkVisitor' in p_ and p_.endswith('::visit_map')]
    if len(vm) != 1:
        raise CheckError('anchor: UplinkVisitor::visit_map')
    bfm = c.pf.bf(vm[0])
    miss, dup = set(), set()
    closures = [b for p_, bl in prog.by_short.items() for b in bl if 'UplinkVisitor' in p_ and 'visit_map::{closure' in p_]
    for bfx in [bfm] + [c.pf.bf(b) for b in closures]:
        for bb, t in bfx.calls():
            cn = callee_name(t)
            if cn.endswith('missing_field'):
                miss.update(const_strs(t))
            elif cn.endswith('duplicate_field'):
                dup.update(const_strs(t))
    res.require(sorted(miss) == want and sorted(dup) == want, 'C20:Uplink:deserialize:required', 'Uplink entries required %s / duplicate-checked %s (expected %s)' % (sorted(miss), sorted(dup), want),
                bfm.body.path, 'COMPLETE(required + duplicates)', instance='Uplink: all three entries required, duplicates rejected')
    # the length guard dominates the slice; the Vec is filled from pending_data[..pending_len]; Uplink{pending, confirmed}
    ext = [(bb, t) for bb, t in bfm.calls() if callee_name(t).endswith('extend_from_slice')]
    okg = len(ext) == 1
    if okg:
        bb, t = ext[0]
        src = layout.index_call(term_of_operand(bfm, t.args[1]))
        g = [x for x in path_conditions(bfm, bb) if x[0][0] == 'Gt' and cond_false(x) and x[0][2][0] in ('const', 'cdef', 'constx')]
        okg = src is not None and src[1][2] == 'to' and bool(g) and peel(src[1][1]) == peel(g[-1][0][1])
    res.require(okg, 'C20:Uplink:deserialize:length-guard', 'pending_data[..pending_len] is not guarded by pending_len <= FOPTS_MAX_LEN on the same value', bfm.body.path,
                'DOM(pending_len <= 15 => slice)', instance='Uplink: pending_len checked against the maximum before slicing')
    aggs = [s for b in bfm.body.blocks if not b.cleanup for s in b.stmts if s.k == 'assign' and s.rv.k == 'agg' and (s.rv.d.get('adt') or '').endswith('uplink::Uplink')]
    oka = len(aggs) == 1 and sorted(aggs[0].rv.d['fields']) == ['confirmed', 'pending']
    res.require(oka, 'C20:Uplink:deserialize:construct', 'Uplink is not rebuilt as {pending, confirmed}', bfm.body.path, 'SAME-VALUE(fields)', instance='Uplink rebuilt from {pending, confirmed}')
    # every successful return hands back that aggregate: confirmed = the value read for "confirmed", pending = the Vec filled from the data read
    ok_rets = []
    for b in bfm.body.blocks:
        if b.cleanup or b.idx not in bfm.cfg.reach:
            continue
        for s_ in b.stmts:
            if s_.k == 'assign' and s_.lhs.local == 0 and not s_.lhs.proj and s_.rv.k == 'agg' and s_.rv.d.get('variant') == 'Ok':
                ok_rets.append((b.idx, peel(term_of_operand(bfm, s_.rv.ops[0]))))
    okr = len(ok_rets) == 1 and ok_rets[0][1][0] == 'agg' and ok_rets[0][1][1].endswith('uplink::Uplink')
    if okr:
        fl = dict(ok_rets[0][1][2])
        cf = fl.get('confirmed')
        # payload of ok_or_else(<option local filled by next_value under the Confirmed key>, missing_field("confirmed"))
        # the option local filled by next_value under the Confirmed key, unwrapped either way: ok_or_else(opt, missing_field(..))? or
        # `let Some(confirmed) = opt else { return Err(missing_field(..)) }` / a match on it
        src = rules.find_in_term(cf, lambda y: isinstance(y, tuple) and len(y) >= 3 and y[0] == 'call' and y[1].endswith(('ok_or_else', 'ok_or')))
        opt = peel(src[2][0]) if src is not None else None
        if opt is None:
            pl = rules.find_in_term(cf, lambda y: isinstance(y, tuple) and len(y) == 3 and y[0] == 'field' and y[2] in ('0', 0) and isinstance(y[1], tuple) and y[1][:1] == ('as',) and y[1][2] == 'Some')
            opt = peel(pl[1][1]) if pl is not None else None
        okr = opt is not None and opt[0] == 'phi'
        if okr:
            defs = rules.defs_with_conditions(bfm, opt[1])
            okr = any(has_call(dv, 'next_value') for dv, cs, b_ in defs) and all(has_call(dv, 'next_value') or (dv[0] == 'agg' and dv[1].endswith('Option::None')) for dv, cs, b_ in defs)
        okr = okr and len(ext) == 1 and bfm.cfg.dominates(ext[0][0], ok_rets[0][0])
    res.require(okr, 'C20:Uplink:deserialize:single-ok', 'restoring an Uplink does not always return {pending filled from the data read, confirmed = the value read}: %d successful return(s) %s' % (
        len(ok_rets), [term_str(t)[:80] for b_, t in ok_rets]), bfm.body.path, 'SAME-VALUE(every Ok return = values read)', instance='Uplink: the only successful return is {pending <- data read, confirmed <- value read}')
    fv = [b for p_, bl in prog.by_short.items() for b in bl if 'for lorawan_device::mac::uplink::Uplink>::deserialize' in p_ and '__FieldVisitor' in p_ and p_.endswith('::visit_str')]
    names = set()
    for b in fv:
        for blk in b.blocks:
            for s in blk.stmts:
                if s.k == 'assign':
                    for o in s.rv.ops:
                        if o.const is not None and isinstance(o.const.get('s'), str):
                            names.add(o.const['s'].strip('"'))
            if blk.term.k == 'call':
                names.update(const_strs(blk.term))
    res.require(set(want) <= names, 'C20:Uplink:field-names', 'the key names accepted when restoring (%s) do not include the names written %s' % (sorted(names)[:8], want), UP,
                'TABLE(field names both directions)', instance='Uplink: keys accepted = keys written')
    # ------------------------------------------------------------------ (c) restore replaces the whole session
    n_restore = 0
    for fn in ('mac::Mac::set_session', 'mac::Mac::join_abp'):
        bl = prog.by_short.get(D + fn) or []
        if len(bl) != 1:
            continue
        bfx = c.pf.bf(bl[0])
        for bb, si, s, root, path in bfx.field_writes():
            if path == ['state']:
                n_restore += 1
                v = peel(term_of_operand(bfx, s.rv.ops[0])) if s.rv.k == 'use' else (('agg', 'x::' + s.rv.d.get('variant', ''), tuple((str(i), term_of_operand(bfx, o)) for i, o in enumerate(s.rv.ops))) if s.rv.k == 'agg' else None)
                okr = v is not None and v[0] == 'agg' and v[1].endswith('Joined') and (peel(v[2][0][1])[0] == 'param' or is_call(peel(v[2][0][1]), 'Session::new'))
                res.require(okr, 'C20:%s:replace-whole' % fn, 'restore does not install the given session as a whole: %s' % (term_str(v) if v else None), short_site(bfx, bb, si),
                            'SHAPE(state = Joined(session))', instance='%s: state = Joined(given session) - no field-wise merge' % fn)
    if n_restore < 1:
        raise CheckError('floor: no session restore site found')
    # session fields are written field-wise nowhere outside the session's own methods
    for fld in ('fcnt_up', 'fcnt_down'):
        ws = c.pf.writers_of_field('mac::session::Session', fld, crates={'lorawan_device'})
        outside = sorted({b.path.replace(D, '') for b, bb, si, s, k in ws if not is_session_replacement(b, s, k) and 'mac::session::' not in b.path and 'Deserialize' not in b.path and 'certification' not in b.path and 'multicast' not in b.path})
        res.require(not outside, 'C20:who-writes:Session.%s' % fld, 'Session.%s is written outside the session module: %s' % (fld, outside), fld, 'WHO-WRITES(Session.%s)' % fld,
                    instance='Session.%s written only by the session methods and deserialisation' % fld)
    res.coverage.update({'configs': [c.info], 'session_fields': [f['name'] for f in prog.adts[DERIVED_STRUCTS[0]]['variants'][0]['fields']], 'newtypes': NEWTYPES})
    res.explanation = __doc__
    res.assumptions = ['the serde data format (e.g. postcard, JSON) round-trips the serde data model faithfully',
                       'panic-freedom of operations on arbitrary restored field values is C03/C04 (all Session fields are unconstrained inputs there)']
    return res
