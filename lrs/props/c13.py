"""C13 — SX126x / SX127x drivers emit the same SPI bytes as Semtech's reference driver (PARTIAL: command framing and
code tables; the arithmetic encodings are only shape-checked, prior register contents are symbolic).

Decided: for every RadioKind operation of the SX126x and SX127x drivers the *set of SPI transactions* it can issue is
extracted by abstract interpretation of the async MIR (all chip-reported bytes, all arguments and all variant
parameters symbolic) with per-byte bit provenance, and compared with a table frozen from the Semtech data sheets /
reference driver (SX1261-2 data sheet ch. 11-13, 15; SX1276/77/78/79 and SX1272/73 data sheets ch. 4, 6): opcode or
register address, constant arguments, which argument bits go into which byte (multi-byte values most significant
byte first), read-modify-write masks of the errata / bit-field updates (bits kept from the value read back vs bits
forced). The parameter code tables (spreading factor, bandwidth, coding rate per chip) are extracted over every enum
value and compared with the data-sheet tables; the SX126x RF-frequency conversion is compared with the reference
formula as a polynomial identity. NOT decided: the order of transactions inside an operation, the numeric result of
the timeout / symbol-count / power encodings ('any' bytes), equality with the C driver for concrete values."""
import json
import os
import re
from ..runner import Result, CheckError
from .. import rules, flow, spi
from .common import ctx

PID = 'C13'
RK = 'lora_phy::mod_traits::RadioKind'
CHIPS = {'sx126x': '<lora_phy::sx126x::Sx126x<SPI, IV, C> as ' + RK + '>::', 'sx127x': '<lora_phy::sx127x::Sx127x<SPI, IV, C> as ' + RK + '>::'}
TABLE_FILE = os.path.join(os.path.dirname(__file__), 'c13_table.json')


SX127X_VARIANTS = {'sx1276': 'lora_phy::sx127x::sx1276::Sx1276', 'sx1272': 'lora_phy::sx127x::sx1272::Sx1272'}
SKIP_OPS = ('await_irq', 'reset')
MAX_CASES = 16


def param_cases(prog, body):
    """case split over the enum-typed parameters of an operation (RadioMode, Option<RadioMode>, RxMode, ...): one
    analysis per combination of variants, so that values chosen by a match on the parameter stay correlated"""
    from ..absint import parse_ty
    dims = []
    for i in range(1, body.argc + 1):
        nm = body.local_name(i) or 'arg%d' % i
        t = parse_ty(body.locals[i])
        alts = None
        if t[0] == 'adt' and t[1] == 'core::option::Option' and len(t[2]) == 1:
            it = parse_ty(t[2][0])
            if it[0] == 'adt' and (prog.adts.get(it[1]) or {}).get('kind') == 'Enum' and len(prog.adts[it[1]]['variants']) <= 8:
                alts = [('None', lambda name, t=t: ('adt', t[1], frozenset([0]), {}, name, tuple(t[2])))]
                for vi, v in enumerate(prog.adts[it[1]]['variants']):
                    alts.append(('Some(%s)' % v['name'], lambda name, t=t, it=it, vi=vi: ('adt', t[1], frozenset([1]), {(1, '0'): ('adt', it[1], frozenset([vi]), {}, name + '.v1.0', tuple(it[2]))}, name, tuple(t[2]))))
        elif t[0] == 'adt' and (prog.adts.get(t[1]) or {}).get('kind') == 'Enum' and len(prog.adts[t[1]]['variants']) <= 8:
            alts = [(v['name'], lambda name, t=t, vi=vi: ('adt', t[1], frozenset([vi]), {}, name, tuple(t[2]))) for vi, v in enumerate(prog.adts[t[1]]['variants'])]
        if alts:
            dims.append((i, nm, alts))
    cases = [[]]
    for (i, nm, alts) in dims:
        if len(cases) * len(alts) > MAX_CASES:
            continue
        cases = [cs + [(i, nm, lab, mk)] for cs in cases for (lab, mk) in alts]
    return cases


def op_transactions(prog, body, subst=None, shifts=None):
    out = {}
    for case in param_cases(prog, body):
        def setup(an_, fr, st, case=case):
            for (i, nm, lab, mk) in case:
                st.env[(fr.id, i)] = mk('p%d_%s' % (i, nm))
            for i in range(1, body.argc + 1):
                if body.local_name(i) == 'frequency_in_hz' and body.locals[i] == 'u32':
                    # legal RF frequencies (the property quantifies over 137 - 1020 MHz)
                    sym = 'p%d_frequency_in_hz' % i
                    st.lo[sym], st.hi[sym] = 137000000, 1020000000
                if body.local_name(i) == 'mdltn_params' and body.locals[i].startswith('&'):
                    # ModulationParams.low_data_rate_optimize is 0 or 1: the only constructor is create_modulation_params (decided by C15)
                    sym = 'p%d_mdltn_params*.low_data_rate_optimize' % i
                    st.lo[sym], st.hi[sym] = 0, 1
        lab = ','.join('%s=%s' % (nm, lab) for (i, nm, lab, mk) in case)
        out[lab] = [k for k, _ in spi.transactions(prog, body, setup=setup, subst=subst, shifts=shifts)]
    return out


def extract(c, shifts=None):
    prog = c.prog
    out = {}
    n_ops = 0
    for chip, pre in sorted(CHIPS.items()):
        names = sorted(p for p in prog.by_short if p.startswith(pre) and not p.endswith('}') and 'promoted' not in p)
        if len(names) < 20:
            raise CheckError('floor: RadioKind methods of %s: %d < 20' % (chip, len(names)))
        for n in names:
            m = n[len(pre):]
            if m.startswith('create_') or m in SKIP_OPS:
                continue
            n_ops += 1
            variants = sorted(SX127X_VARIANTS.items()) if chip == 'sx127x' else [(chip, None)]
            for vn, vty in variants:
                for lab, txs in op_transactions(prog, prog.by_short[n][0], {'C': vty} if vty else None, shifts).items():
                    out['%s::%s%s' % (vn, m, '{%s}' % lab if lab else '')] = txs
    # operations that are the same for both SX127x variants are listed once
    for k in sorted(out):
        if k.startswith('sx1276::') and out.get('sx1272::' + k[8:]) == out[k]:
            out['sx127x::' + k[8:]] = out.pop(k)
            del out['sx1272::' + k[8:]]
    return out


def code_tables(c):
    """parameter code functions over every enum value"""
    from .. import tables
    prog = c.prog
    fns = {'sx126x::sf': 'lora_phy::sx126x::radio_kind_params::spreading_factor_value', 'sx126x::bw': 'lora_phy::sx126x::radio_kind_params::bandwidth_value',
           'sx126x::cr': 'lora_phy::sx126x::radio_kind_params::coding_rate_value', 'sx127x::sf': 'lora_phy::sx127x::radio_kind_params::spreading_factor_value',
           'sx127x::cr': 'lora_phy::sx127x::radio_kind_params::coding_rate_value'}
    for p in prog.by_short:
        m = re.match(r'^<lora_phy::sx127x::(sx127\d)::(\w+) as lora_phy::sx127x::radio_kind_params::Sx127xVariant>::bandwidth_value$', p)
        if m:
            fns['%s::bw' % m.group(1)] = p
    enums = {'sf': 'lora_modulation::SpreadingFactor', 'bw': 'lora_modulation::Bandwidth', 'cr': 'lora_modulation::CodingRate'}
    out = {}
    for key, fn in sorted(fns.items()):
        bl = prog.by_short.get(fn) or []
        if len(bl) != 1:
            raise CheckError('anchor: %s' % fn)
        en = enums[key.split('::')[1]]
        tab = {}
        for i, v in enumerate(prog.adts[en]['variants']):
            an, fr, st, rv = tables.run_fn(prog, bl[0], {1: ('adt', en, frozenset([i]), {}, None, ())})
            if rv is not None and rv[0] == 'adt' and rv[2] == frozenset([0]):
                tab[v['name']] = tables._single(st, an.field_of(rv, 0, '0', st, fr))
            elif rv is not None and rv[0] == 'adt' and rv[2] == frozenset([1]):
                tab[v['name']] = 'unavailable'
            else:
                tab[v['name']] = 'unknown'
        out[key] = tab
    return out


def _norm_formula(x):
    """normal form of an integer term: overflow-checked operators as their plain form, casts dropped, constants folded,
    f - (f / k) * k as f % k, x << n as x * 2^n, commutative arguments ordered"""
    if not isinstance(x, tuple) or not x:
        return x
    if x[0] == 'cast':
        return _norm_formula(x[2])
    if x[0] in ('const', 'param'):
        return x
    h = {'AddWithOverflow': 'Add', 'SubWithOverflow': 'Sub', 'MulWithOverflow': 'Mul', 'ShlUnchecked': 'Shl', 'ShrUnchecked': 'Shr', 'AddUnchecked': 'Add', 'SubUnchecked': 'Sub', 'MulUnchecked': 'Mul'}.get(x[0], x[0])
    if h not in ('Add', 'Sub', 'Mul', 'Div', 'Rem', 'Shl', 'Shr'):
        return x
    a, b = _norm_formula(x[1]), _norm_formula(x[2])
    if a[0] == 'const' and b[0] == 'const':
        f = {'Add': lambda p, q: p + q, 'Sub': lambda p, q: p - q, 'Mul': lambda p, q: p * q, 'Div': lambda p, q: p // q if q else None, 'Rem': lambda p, q: p % q if q else None,
             'Shl': lambda p, q: p << q, 'Shr': lambda p, q: p >> q}[h](a[1], b[1])
        if f is not None:
            return ('const', f)
    if h == 'Shl' and b[0] == 'const':
        h, b = 'Mul', ('const', 1 << b[1])
    if h == 'Sub' and b[0] == 'Mul':
        for q, k in ((b[1], b[2]), (b[2], b[1])):
            if q == ('Div', a, k):
                return ('Rem', a, k)
    if h in ('Add', 'Mul') and repr(a) > repr(b):
        a, b = b, a
    return (h, a, b)


def _return_term(bf):
    from ..rules import term_of_operand
    rets = [s for b in bf.body.blocks if not b.cleanup and b.idx in bf.cfg.reach for s in b.stmts if s.k == 'assign' and s.lhs.is_local() and s.lhs.local == 0]
    if len(rets) != 1:
        return None
    s = rets[0]
    if s.rv.k == 'use':
        return term_of_operand(bf, s.rv.ops[0])
    if s.rv.k == 'bin':
        return (s.rv.d['op'], term_of_operand(bf, s.rv.ops[0]), term_of_operand(bf, s.rv.ops[1]))
    if s.rv.k == 'cast':
        return ('cast', s.rv.d['ty'], term_of_operand(bf, s.rv.ops[0]), s.rv.d.get('from'))
    return None


# Semtech reference (sx126x.c / sx127x.c, *_convert_freq_in_hz_to_pll_step): with SCALED = XTAL >> (RES - SHIFT),
#   steps = ((f / SCALED) << SHIFT) + ((((f - (f / SCALED) * SCALED) << SHIFT) + (SCALED >> 1)) / SCALED)
FREQ_FORMULAS = {
    'sx126x': ('lora_phy::sx126x::Sx126x::convert_freq_in_hz_to_pll_step', 14, 32000000 >> (25 - 14), 25),
    'sx127x': ('lora_phy::sx127x::freq_to_pll_step', 8, 32000000 >> (19 - 8), 19),
}


def freq_formula(c, res):
    from ..rules import term_str
    for chip, (fn, shift, scaled, resol) in sorted(FREQ_FORMULAS.items()):
        bf = c.bf(fn)
        t = _return_term(bf)
        f = ('param', 1)
        q = ('Div', f, ('const', scaled))
        want = ('Add', ('Shl', q, ('const', shift)), ('Div', ('Add', ('Shl', ('Sub', f, ('Mul', q, ('const', scaled))), ('const', shift)), ('const', scaled >> 1)), ('const', scaled)))
        # the same function written in one wide division: (f * 2^RES + XTAL / 2) / XTAL (equal for every integer f)
        want2 = ('Div', ('Add', ('Mul', f, ('const', 1 << resol)), ('const', 16000000)), ('const', 32000000))
        ok = t is not None and _norm_formula(t) in (_norm_formula(want), _norm_formula(want2))
        res.require(ok, 'C13:%s:rf-frequency-formula' % chip,
                    '%s: RF frequency to PLL steps is not the reference conversion ((f / %d) << %d) + ((((f mod %d) << %d) + %d) / %d) (round to nearest step): %s' % (chip, scaled, shift, scaled, shift, scaled >> 1, scaled, term_str(t)[:200] if t else None),
                    bf.body.path, 'SPEC-SHAPE(reference conversion)', instance='%s: PLL steps = reference integer formula (32 MHz crystal, shift %d, rounding to nearest)' % (chip, shift))


# SX1261/2 data sheet table 13-21 (optimal PA settings): row = (highest output power of the row [dBm], paDutyCycle, hpMax,
# SetTxParams power at that output power); and the lowest power each PA supports (13.4.4 SetTxParams)
PA_TABLES = {
    'SX1261_PA_TABLE': (-17, [(10, 0x01, 0x00, 13), (14, 0x04, 0x00, 14), (15, 0x06, 0x00, 14)]),
    'SX1262_PA_TABLE': (-9, [(14, 0x02, 0x02, 22), (17, 0x02, 0x03, 22), (20, 0x03, 0x05, 22), (22, 0x04, 0x07, 22)]),
}
# SX1261/2 data sheet table 9-2 (image calibration over the ISM bands): band [Hz] -> (freq1, freq2)
IMAGE_CAL = [((430000000, 440000000), (0x6B, 0x6F)), ((470000000, 510000000), (0x75, 0x81)), ((779000000, 787000000), (0xC1, 0xC5)),
             ((863000000, 870000000), (0xD7, 0xDB)), ((902000000, 928000000), (0xE1, 0xE9))]


def pa_tables(c, res):
    from .. import tables
    prog = c.prog
    for name, (min_dbm, rows) in sorted(PA_TABLES.items()):
        bl = prog.by_short.get('lora_phy::sx126x::variant::' + name) or []
        if len(bl) != 1:
            raise CheckError('anchor: %s' % name)
        an, fr, out, rv = tables.run_fn(prog, bl[0])
        got_rows, got_min = None, None
        if rv is not None and rv[0] == 'adt':
            got_min = tables._single(out, an.field_of(rv, 0, 'min_dbm', out, fr))
            ent = an.field_of(rv, 0, 'entries', out, fr)
            arr = an.read_ptr(ent[1], fr, out) if ent[0] in ('ref', 'sref') else None
            if arr is not None and arr[0] == 'array' and isinstance(arr[1], int):
                got_rows = []
                for i in range(arr[1]):
                    e = arr[2].get(i, arr[3])
                    got_rows.append(tuple(tables._single(out, an.field_of(e, 0, f, out, fr)) for f in ('max_dbm', 'pa_duty_cycle', 'hp_max', 'tx_params_at_max')) if e is not None else None)
        res.require(got_min == min_dbm and got_rows == rows, 'C13:%s' % name, '%s is (min %s dBm, rows %s); data sheet table 13-21: (min %d dBm, rows %s)' % (name, got_min, got_rows, min_dbm, rows),
                    'lora_phy::sx126x::variant::' + name, 'TABLE(PA optimal settings, data sheet 13-21)', instance='%s = data sheet rows %s' % (name, rows))


def image_calibration(c, res):
    """CalibrateImage bytes for every frequency of each ISM band of data sheet table 9-2: the operation is analysed once per band with
    the frequency confined to the band (interval), so the verdict covers every frequency in it"""
    prog = c.prog
    bl = prog.by_short.get(CHIPS['sx126x'] + 'calibrate_image') or []
    if len(bl) != 1:
        raise CheckError('anchor: sx126x calibrate_image')
    body = bl[0]
    for (lo, hi), (f1, f2) in IMAGE_CAL:
        def setup(an_, fr, st, lo=lo, hi=hi):
            for i in range(1, body.argc + 1):
                if body.local_name(i) == 'frequency_in_hz':
                    sym = 'p%d_frequency_in_hz' % i
                    st.lo[sym], st.hi[sym] = lo, hi
        got = [json.loads(k) for k, _ in spi.transactions(prog, body, setup=setup, unroll=True)]
        want = [['write', ['0x98', '0x%02X' % f1, '0x%02X' % f2]]]
        res.require(got == want, 'C13:sx126x::calibrate_image:%d-%d' % (lo // 1000000, hi // 1000000),
                    'sx126x calibrate_image for %d..%d MHz issues %s; data sheet table 9-2: CalibrateImage(0x%02X, 0x%02X)' % (lo // 1000000, hi // 1000000, got, f1, f2), body.path,
                    'TABLE(image calibration per ISM band, data sheet 9-2)', instance='sx126x calibrate_image, %d..%d MHz: 0x98 0x%02X 0x%02X' % (lo // 1000000, hi // 1000000, f1, f2))


# ---- per-value cases of set_modulation_params: which of the operation's transaction shapes belong to which bandwidth / spreading
# factor / coding rate. Data sheets: SX1276 RegModemConfig1 = Bw[7:4] CodingRate[3:1] ImplicitHeader[0], RegModemConfig2 =
# SpreadingFactor[7:4]; SX1272 RegModemConfig1 = Bw[7:6] CodingRate[5:3] ..; SX126x SetModulationParams(SF, BW, CR, LDRO);
# SF6 needs DetectionOptimize 0x05 / DetectionThreshold 0x0C, the other spreading factors 0x03 / 0x0A; SX1276 errata 2.1 (500 kHz
# sensitivity: 0x36 = 0x02 and 0x3A = 0x64 / 0x7F only at 500 kHz) and 2.3 (spurious reception: AutomaticIFOn set at 500 kHz, cleared
# with IfFreq 0x40 / 0x00 from 62.5 to 250 kHz; below 62.5 kHz this driver leaves the defaults: documented difference);
# SX126x 15.1 (register 0x0889 bit 2 = 0 exactly at 500 kHz).
MP = 'lora_phy::mod_params::ModulationParams'
MP_FIELDS = {'bandwidth': ('lora_modulation::Bandwidth', 'bw'), 'spreading_factor': ('lora_modulation::SpreadingFactor', 'sf'), 'coding_rate': ('lora_modulation::CodingRate', 'cr')}
MID_BW = ('_62KHz', '_125KHz', '_250KHz')


def _b(n, w):
    return [str((n >> k) & 1) for k in range(w - 1, -1, -1)]


def _case_expected(chip, field, value, base, codes):
    """expected transaction shapes of set_modulation_params when `field` = `value`, from the operation's reviewed shapes `base`"""
    fam = 'sx127x' if chip in ('sx1276', 'sx1272') else chip
    key = {'bandwidth': chip + '::bw', 'spreading_factor': fam + '::sf', 'coding_rate': fam + '::cr'}[field]
    code = codes[key].get(value)
    if not isinstance(code, int):
        return []                                           # refused with an error before any bus traffic
    out = []
    for sh in base:
        kind, hdr = sh[0], list(sh[1])
        bl = [_bits_of(t) for t in hdr]
        keep = True
        if chip in ('sx1276', 'sx1272') and kind == 'write':
            reg = hdr[0]
            if field == 'spreading_factor':
                if reg == '0x9E' and bl[1][:4] == ['?'] * 4:
                    bl[1][:4] = _b(code, 4)
                if reg == '0xB1' and bl[1][5:] in (['1', '0', '1'], ['0', '1', '1']):
                    keep = (bl[1][5:] == ['1', '0', '1']) == (value == '_6')
                if reg == '0xB7':
                    keep = (hdr[1] == '0x0C') == (value == '_6')
            if chip == 'sx1276':
                if field == 'bandwidth':
                    if reg == '0x9D' and bl[1][:4] == ['?'] * 4:
                        bl[1][:4] = _b(code, 4)
                    if reg in ('0xAF', '0xB0') or (reg == '0xB1' and bl[1][0] == '0' and bl[1][1].startswith('R')):
                        keep = value in MID_BW
                    if reg == '0xB1' and bl[1][0] == '1' and bl[1][1].startswith('R'):
                        keep = value == '_500KHz'
                    if (reg == '0xB6' and hdr[1] == '0x02') or reg == '0xBA':
                        keep = value == '_500KHz'
                if field == 'coding_rate' and reg == '0x9D' and bl[1][0].startswith('R') and bl[1][7].startswith('R'):
                    keep = bl[1][4:7] == _b(code, 3)
            else:
                if reg == '0x9D' and field == 'bandwidth':
                    keep = bl[1][:2] == _b(code, 2)
                if reg == '0x9D' and field == 'coding_rate':
                    keep = bl[1][2:5] == _b(code, 3)
        if chip == 'sx126x' and kind == 'write':
            if hdr[0] == '0x8B':
                idx = {'spreading_factor': 1, 'bandwidth': 2, 'coding_rate': 3}[field]
                if '?' in bl[idx]:
                    bl[idx] = _b(code, 8)
                else:
                    keep = bl[idx] == _b(code, 8)
            if hdr[:3] == ['0x0D', '0x08', '0x89'] and field == 'bandwidth':
                keep = (bl[3][5] == '0') == (value == '_500KHz')
        if keep:
            toks = []
            for b_ in bl:
                toks.append('0x%02X' % int(''.join(b_), 2) if all(x in '01' for x in b_) and len(b_) == 8 else ('any' if b_ == ['?'] * 8 else '[' + ' '.join(b_) + ']') if len(b_) == 8 else b_[0])
            out.append([kind, toks] + [list(x) for x in sh[2:]])
    return out


def symbol_timeout_table(c, res):
    """SX126x symbol-count RX timeout: for every request 0..248 and the class above the chip maximum, the command byte and register 0x0706
    are the bytes of the reference driver (sx126x.c sx126x_set_lora_symb_nb_timeout, transcribed: mant = (min(n, 248) + 1) >> 1;
    while mant > 31 { mant = (mant + 3) >> 2; exp += 1 }; SetLoRaSymbNumTimeout(mant << (2 exp + 1)); if n > 0: reg 0x0706 = exp + (mant << 3)).
    SX127x: the 10-bit value is the request up to 1023 (bit provenance; decided in C17 as well)."""
    prog = c.prog
    bl = prog.by_short.get('lora_phy::sx126x::Sx126x::set_lora_symbol_num_timeout') or []
    if len(bl) != 1:
        raise CheckError('anchor: sx126x set_lora_symbol_num_timeout')
    body = bl[0]
    pis = [i for i in range(1, body.argc + 1) if body.local_name(i) == 'symbol_num']
    if len(pis) != 1:
        raise CheckError('anchor: symbol_num parameter')
    from ..absint import Lin

    def ref(n):
        exp, mant = 0, (min(n, 248) + 1) >> 1
        while mant > 31:
            mant, exp = (mant + 3) >> 2, exp + 1
        return (mant << (2 * exp + 1)) & 0xFF, ((exp + (mant << 3)) & 0xFF) if n > 0 else None
    bad = []
    n_cls = 0
    for req in list(range(0, 249)) + [(249, 65535)]:
        def setup(an_, fr, st, req=req):
            if isinstance(req, tuple):
                st.env[(fr.id, pis[0])] = ('int', Lin.sym('p_symbol_num'))
                st.lo['p_symbol_num'], st.hi['p_symbol_num'] = req
            else:
                st.env[(fr.id, pis[0])] = ('int', Lin.const(req))
        sh = [json.loads(k) for k, _ in spi.transactions(prog, body, setup=setup, unroll=True)]
        n_cls += 1
        cmd = [x[1][1] for x in sh if x[0] == 'write' and x[1][0] == '0xA0' and len(x[1]) == 2]
        reg = [x[1][3] for x in sh if x[0] == 'write' and x[1][:3] == ['0x0D', '0x07', '0x06']]
        wc, wr = ref(req if not isinstance(req, tuple) else 248)
        if cmd != ['0x%02X' % wc] or reg != ([] if wr is None else ['0x%02X' % wr]):
            bad.append('%s symbols: SetLoRaSymbNumTimeout %s / register 0x0706 %s, reference 0x%02X / %s' % (req, cmd, reg, wc, None if wr is None else '0x%02X' % wr))
    if n_cls < 250:
        raise CheckError('floor: symbol timeout classes %d < 250' % n_cls)
    res.require(not bad, 'C13:sx126x::set_lora_symbol_num_timeout:table', 'sx126x symbol-count timeout differs from the reference driver: %s' % '; '.join(bad[:3]), body.path,
                'TABLE(symbol timeout bytes for every request, reference algorithm)', instance='sx126x symbol timeout: command byte and register 0x0706 = reference for each of 250 request classes')


def modulation_cases(c, res, want):
    prog = c.prog
    ops = {'sx1276': (CHIPS['sx127x'] + 'set_modulation_params', {'C': SX127X_VARIANTS['sx1276']}), 'sx1272': (CHIPS['sx127x'] + 'set_modulation_params', {'C': SX127X_VARIANTS['sx1272']}),
           'sx126x': (CHIPS['sx126x'] + 'set_modulation_params', None)}
    n = 0
    for chip, (path, subst) in sorted(ops.items()):
        bl = prog.by_short.get(path) or []
        if len(bl) != 1:
            raise CheckError('anchor: %s' % path)
        body = bl[0]
        pis = [i for i in range(1, body.argc + 1) if body.local_name(i) == 'mdltn_params' and body.locals[i].endswith(MP)]
        if len(pis) != 1:
            raise CheckError('anchor: mdltn_params parameter of %s' % path)
        pi = pis[0]
        base = want['transactions'].get('%s::set_modulation_params' % chip)
        if base is None:
            raise CheckError('table: no reviewed shapes for %s::set_modulation_params' % chip)
        for field, (en, _) in sorted(MP_FIELDS.items()):
            for vi, v in enumerate(prog.adts[en]['variants']):
                def setup(an_, fr, st, field=field, en=en, vi=vi):
                    nm = 'p%d_mdltn_params*' % pi
                    st.mem[('obj', nm)] = ('adt', MP, frozenset([0]), {(0, field): ('adt', en, frozenset([vi]), {}, None, ())}, nm, ())
                    st.env[(fr.id, pi)] = ('ref', ('O', nm, ()))
                    st.lo[nm + '.low_data_rate_optimize'], st.hi[nm + '.low_data_rate_optimize'] = 0, 1
                    st.lo[nm + '.frequency_in_hz'], st.hi[nm + '.frequency_in_hz'] = 137000000, 1020000000
                got = [k for k, _ in spi.transactions(prog, body, setup=setup, subst=subst)]
                exp = _case_expected(chip, field, v['name'], base, want['codes'])
                extra = [x for x in got if not any(tx_refines(x, y) for y in exp)]
                missing = [json.dumps(y) for y in exp if not any(tx_refines(x, y) for x in got)]
                n += 1
                res.require(not extra and not missing, 'C13:%s::set_modulation_params{%s=%s}' % (chip, field, v['name']),
                            '%s set_modulation_params with %s = %s: issued but not what the data sheet prescribes for this value: %s; prescribed but not issued: %s' % (chip, field, v['name'], extra[:3], missing[:3]),
                            path, 'TABLE(per-value transactions: code placement, SF6 detection settings, bandwidth-specific errata)',
                            instance='%s set_modulation_params, %s = %s: %d shape(s)' % (chip, field, v['name'], len(exp)))
    if n < 60:
        raise CheckError('floor: modulation parameter cases %d < 60' % n)


def _bits_of(tok):
    if tok == 'any':
        return ['?'] * 8
    if tok.startswith('0x'):
        v = int(tok, 16)
        return [str((v >> k) & 1) for k in range(7, -1, -1)]
    if tok.startswith('['):
        return tok[1:-1].split(' ')
    return [tok]


def byte_refines(got, want):
    """every bit the reference fixes (constant, named input bit, kept chip bit) is what the driver writes; bits the
    reference leaves open ('?': arithmetic encodings not judged here) accept anything"""
    g, w = _bits_of(got), _bits_of(want)
    if len(g) != len(w):
        return False
    # a byte the table itself marks as arithmetic (some bit open): constant bits next to the open ones were derived from value ranges by
    # the interpreter, not placed by the code - the driver's byte may leave them open too (not decided); a definite different bit is still a mismatch
    arithmetic = '?' in w
    return all(y == '?' or x == y or (arithmetic and x == '?' and y in ('0', '1')) for x, y in zip(g, w))


def tx_refines(got, want):
    g, w = json.loads(got), (json.loads(want) if isinstance(want, str) else want)
    if g[0] != w[0] or len(g) != len(w):
        return False
    return all(len(a) == len(b) and all(byte_refines(x, y) for x, y in zip(a, b)) for a, b in zip(g[1:], w[1:]))


def run(tier):
    res = Result(PID)
    c = ctx('ws')
    shifts = {}
    got = extract(c, shifts)
    codes = code_tables(c)
    if os.environ.get('C13_DUMP'):
        print(json.dumps({'transactions': {k: [json.loads(x) for x in v] for k, v in got.items()}, 'codes': codes}, indent=1))
        return res
    with open(TABLE_FILE) as f:
        want = json.load(f)
    n_tx = 0
    # reviewed differences from the reference driver's bytes: shapes of a 'finding' are reported while the driver issues them;
    # they and the reference's own shapes are accepted but not demanded (a repair towards the reference raises no alarm)
    optional, accepted_extra, findings = {}, {}, []
    for d in want.get('deviations', []):
        for op in d.get('ops', []):
            for sh in d.get('driver_shapes', []) + d.get('reference_shapes', []):
                optional.setdefault(op, []).append(sh)
            for sh in d.get('reference_shapes', []):
                accepted_extra.setdefault(op, []).append(sh)
        if d.get('status') == 'finding':
            findings.append(d)
    for op in sorted(set(got) | set(want['transactions'])):
        g, w = got.get(op), want['transactions'].get(op)
        if w is None:
            res.require(not g, 'C13:%s:unlisted-operation' % op, 'operation case %s issues SPI transactions %s but has no entry in the reference table' % (op, g[:3]), op, 'TABLE(transactions)',
                        instance='%s: no SPI traffic' % op)
            continue
        if g is None:
            res.require(not w, 'C13:%s:operation-missing' % op, 'operation case %s of the reference table is no longer found in the driver' % op, op, 'TABLE(transactions)', instance=op)
            continue
        acc = list(w) + accepted_extra.get(op, [])
        extra = [x for x in g if not any(tx_refines(x, y) for y in acc)]
        missing = [json.dumps(y) for y in w if y not in optional.get(op, []) and not any(tx_refines(x, y) for x in g)]
        n_tx += len(g)
        res.require(not extra and not missing, 'C13:%s:transactions' % op, '%s: SPI transactions differ from the reference table; issued but not in the table: %s; in the table but no longer issued: %s' % (op, extra[:3], missing[:3]), op,
                    'TABLE(SPI transactions: opcode / address, constants, argument bit placement, RMW masks)', instance='%s: %d transaction shape(s) as in the reference table' % (op, len(g)))
    for d in findings:
        hit = [op for op in d['ops'] if any(tx_refines(x, y) for x in (got.get(op) or []) for y in d.get('driver_shapes', []))]
        if hit:
            res.violation('C13:deviates-from-reference:%s' % d['id'], '%s (operations %s)' % (d['what'], hit), hit[0], 'REFERENCE(bytes of the reference driver)')
        else:
            res.ok('REFERENCE(bytes of the reference driver)', 'reviewed deviation %s is no longer issued by the driver' % d['id'])
    res.coverage['documented_differences'] = [{'id': d['id'], 'what': d['what'], 'where': d.get('where')} for d in want.get('deviations', []) if d.get('status') == 'documented']
    if n_tx < 250:
        raise CheckError('floor: SPI transaction shapes extracted %d < 250' % n_tx)
    for key in sorted(set(codes) | set(want['codes'])):
        res.require(codes.get(key) == want['codes'].get(key), 'C13:%s:code-table' % key, 'parameter codes %s: %s (data sheet: %s)' % (key, codes.get(key), want['codes'].get(key)), key,
                    'TABLE(parameter codes over every enum value)', instance='%s codes as in the data sheet' % key)
    freq_formula(c, res)
    pa_tables(c, res)
    image_calibration(c, res)
    modulation_cases(c, res, want)
    symbol_timeout_table(c, res)
    # FIELD-FIT: a value packed into a command / register byte by a constant left shift must fit the field - no set bit
    # may be shifted out of the type (Rust does not check this). Judged with the interval of the operand in every
    # context of the analysed operations (all arguments and chip bytes symbolic).
    lossy = {}
    for fn, l in shifts.items():
        if not fn.startswith('lora_phy::sx12') and not fn.startswith('<lora_phy::sx12'):
            continue
        for (ty, k, lo, hi, sp) in l:
            lossy.setdefault((fn, ty, k), []).append(hi)
    for (fn, ty, k), his in sorted(lossy.items()):
        res.violation('C13:%s:shift-loses-bits:%s<<%d' % (rules.short_fn(fn), ty, k), '%s: a %s value that can be as large as %d is shifted left by %d: set bits fall out of the field and the byte written differs from the encoding' % (
            fn, ty, max(his), k), fn, 'FIELD-FIT(constant left shift keeps every set bit)')
    res.require(True, 'C13:field-fit', '', None, 'FIELD-FIT(constant left shift keeps every set bit)', instance='no constant left shift in the analysed driver operations can lose a set bit (%d functions analysed)' % len(got))
    res.coverage.update({'operation_cases': len(got), 'transaction_shapes': n_tx, 'code_tables': sorted(codes), 'configs': [c.info],
                         'not_decided': 'transaction order inside an operation; numeric value of bits marked ? / any (timeouts, symbol counts, power, image calibration, RF frequency words); LR11xx'})
    res.samples = [{'operation': k, 'transactions': [json.loads(x) for x in v][:3]} for k, v in sorted(got.items())[:4]]
    res.explanation = __doc__
    res.assumptions = ['the reference table lrs/props/c13_table.json was reviewed against the Semtech data sheets (opcode legend in the file); it is the oracle',
                       'bits whose value is an arithmetic encoding are not judged (? / any)', 'ModulationParams.low_data_rate_optimize is 0 or 1 (its only constructor, decided by C15)', 'RF frequency arguments are legal (137 - 1020 MHz)']
    return res
