"""C13 — SX126x / SX127x drivers emit the same SPI bytes as Semtech's reference driver (PARTIAL: command framing and
code tables; the arithmetic encodings are only shape-checked, prior register contents are symbolic).

Decided: for every RadioKind operation of the SX126x and SX127x drivers the *set of SPI transactions* it can issue is
extracted by abstract interpretation of the async MIR (all chip-reported bytes, all arguments and all variant
parameters symbolic) with per-byte bit provenance, and compared with a table frozen from the Semtech data sheets /
reference driver (SX1261-2 data sheet ch. 11-13, 15; SX1276/77/78/79 and SX1272/73 data sheets ch. 4, 6): opcode or
register address, constant arguments, which argument bits go into which byte (multi-byte values most significant
byte first), read-modify-write masks of the errata / bit-field updates (bits kept from the value read back vs bits
forced). The parameter code tables (spreading factor, bandwidth, coding rate per chip) are extracted over every enum
value and compared with the data-sheet tables; the SX126x RF-frequency conversion is compared with the reference
formula as a polynomial identity. NOT decided: the order of transactions inside an operation, the numeric result of
the timeout / symbol-count / power encodings ('any' bytes), equality with the C driver for concrete values."""
import json
import os
import re
from ..runner import Result, CheckError
from .. import absint_interp, bits, rules, flow
from ..absint import Lin
from .common import ctx

PID = 'C13'
RK = 'lora_phy::mod_traits::RadioKind'
CHIPS = {'sx126x': '<lora_phy::sx126x::Sx126x<SPI, IV, C> as ' + RK + '>::', 'sx127x': '<lora_phy::sx127x::Sx127x<SPI, IV, C> as ' + RK + '>::'}
TABLE_FILE = os.path.join(os.path.dirname(__file__), 'c13_table.json')
HOOKS = ('SpiInterface::write', 'SpiInterface::write_with_payload', 'SpiInterface::read', 'SpiInterface::read_with_status')


def norm_sym(name):
    """stable name of an input: parameters keep their name, values read back from the chip become R, fields of variant
    supplied objects keep the field name"""
    if re.match(r'^p\d+_', name):
        return re.sub(r'^p\d+_', '', name).replace('*', '')
    m = re.search(r'\*\.([A-Za-z_0-9.]+)$', name)
    if m:
        return 'cfg.' + m.group(1)
    if name.startswith(('u#', 'a#', 'r#', 't#')) or '[' in name:
        return 'R'
    return 'X'


def fmt_byte(bl):
    if all(e in (0, 1) for e in bl):
        return '0x%02X' % sum(e << k for k, e in enumerate(bl))
    out = []
    for e in reversed(bl):
        if e in (0, 1):
            out.append(str(e))
        elif e == bits.UNK:
            out.append('?')
        elif isinstance(e, tuple) and e[0] == 'i':
            out.append('%s.%d' % (norm_sym(e[1]), e[2]))
        elif isinstance(e, tuple) and e[0] == 'n':
            out.append('~')
        else:
            out.append('?')
    if all(x == '?' for x in out):
        return 'any'
    return '[' + ' '.join(out) + ']'


def slice_bytes(an, st, v, frame):
    if v[0] != 'sref':
        return ['<not a slice>']
    n = v[3]
    if not n.is_const():
        return ['<%s bytes>' % norm_sym(str(n).split('.len')[0]) if n.single() else '<n bytes>']
    bv = bits.BitView(an, st)
    out = []
    for i in range(n.k):
        e = an.read_elem(v, Lin.const(i), frame, st)
        lin = an.as_int(e, st) if e is not None else None
        out.append('any' if lin is None else fmt_byte(bv.lin_bits(lin, 'u8')))
    return out


def transactions(prog, body):
    an = absint_interp.new_analyzer(prog, max_depth=6)
    rec = []

    def hook(an_, t, args, frame, st, nm):
        kind = nm.split('::')[-1]
        tx = [kind, slice_bytes(an_, st, args[1], frame)]
        if kind == 'write_with_payload' and len(args) > 2:
            tx.append(slice_bytes(an_, st, args[2], frame))
        rec.append(json.dumps(tx))
    for k in HOOKS:
        an.call_hooks[k] = hook
    if (prog.fns.get(body.raw_path) or {}).get('async'):
        absint_interp.analyze_async_entry(an, body)
    else:
        an.analyze_entry(body)
    return sorted(set(rec))


def extract(c):
    prog = c.prog
    out = {}
    for chip, pre in sorted(CHIPS.items()):
        names = sorted(p for p in prog.by_short if p.startswith(pre) and not p.endswith('}') and 'promoted' not in p)
        if len(names) < 20:
            raise CheckError('floor: RadioKind methods of %s: %d < 20' % (chip, len(names)))
        for n in names:
            m = n[len(pre):]
            if m.startswith('create_') or m in ('await_irq', 'reset'):
                continue
            out['%s::%s' % (chip, m)] = transactions(prog, prog.by_short[n][0])
    return out


def code_tables(c):
    """parameter code functions over every enum value"""
    from .. import tables
    prog = c.prog
    fns = {'sx126x::sf': 'lora_phy::sx126x::radio_kind_params::spreading_factor_value', 'sx126x::bw': 'lora_phy::sx126x::radio_kind_params::bandwidth_value',
           'sx126x::cr': 'lora_phy::sx126x::radio_kind_params::coding_rate_value', 'sx127x::sf': 'lora_phy::sx127x::radio_kind_params::spreading_factor_value',
           'sx127x::cr': 'lora_phy::sx127x::radio_kind_params::coding_rate_value'}
    for p in prog.by_short:
        m = re.match(r'^<lora_phy::sx127x::(sx127\d)::(\w+) as lora_phy::sx127x::radio_kind_params::Sx127xVariant>::bandwidth_value$', p)
        if m:
            fns['%s::bw' % m.group(1)] = p
    enums = {'sf': 'lora_modulation::SpreadingFactor', 'bw': 'lora_modulation::Bandwidth', 'cr': 'lora_modulation::CodingRate'}
    out = {}
    for key, fn in sorted(fns.items()):
        bl = prog.by_short.get(fn) or []
        if len(bl) != 1:
            raise CheckError('anchor: %s' % fn)
        en = enums[key.split('::')[1]]
        tab = {}
        for i, v in enumerate(prog.adts[en]['variants']):
            an, fr, st, rv = tables.run_fn(prog, bl[0], {1: ('adt', en, frozenset([i]), {}, None, ())})
            if rv is not None and rv[0] == 'adt' and rv[2] == frozenset([0]):
                tab[v['name']] = tables._single(st, an.field_of(rv, 0, '0', st, fr))
            elif rv is not None and rv[0] == 'adt' and rv[2] == frozenset([1]):
                tab[v['name']] = 'unavailable'
            else:
                tab[v['name']] = 'unknown'
        out[key] = tab
    return out


def freq_formula(c, res):
    """SX126x: steps = (f / 15625) << 14 + (((f - (f / 15625) * 15625) << 14) + 7812) / 15625  (reference driver, 32 MHz crystal)"""
    from ..rules import term_of_operand, term_str
    bf = c.bf('lora_phy::sx126x::Sx126x::convert_freq_in_hz_to_pll_step')
    rets = [s for b in bf.body.blocks if not b.cleanup for s in b.stmts if s.k == 'assign' and s.lhs.is_local() and s.lhs.local == 0]
    t = None
    if len(rets) == 1:
        s = rets[0]
        t = term_of_operand(bf, s.rv.ops[0]) if s.rv.k == 'use' else ((s.rv.d['op'], term_of_operand(bf, s.rv.ops[0]), term_of_operand(bf, s.rv.ops[1])) if s.rv.k == 'bin' else None)
    f = ('param', 1)
    q = ('Div', f, ('const', 15625))
    want = ('Add', ('Shl', q, ('const', 14)), ('Div', ('Add', ('Shl', ('Sub', f, ('Mul', q, ('const', 15625))), ('const', 14)), ('const', 7812)), ('const', 15625)))

    def norm(x):
        if not isinstance(x, tuple):
            return x
        if x and x[0] in ('cast',):
            return norm(x[2])
        if x and x[0] in ('cdef', 'constx'):
            return x
        h = {'AddWithOverflow': 'Add', 'SubWithOverflow': 'Sub', 'MulWithOverflow': 'Mul', 'ShlUnchecked': 'Shl', 'ShrUnchecked': 'Shr'}.get(x[0], x[0])
        y = tuple([h] + [norm(a) for a in x[1:]])
        if h == 'Shr' and y[1] == ('const', 15625) and y[2] == ('const', 1):
            return ('const', 7812)
        if h in ('Add', 'Mul') and repr(y[1]) > repr(y[2]):
            y = (h, y[2], y[1])
        return y
    ok = t is not None and norm(t) == norm(want)
    res.require(ok, 'C13:sx126x:rf-frequency-formula', 'RF frequency to PLL steps is not the reference formula (f/15625 << 14) + (((f mod 15625) << 14) + 7812) / 15625: %s' % (term_str(t)[:200] if t else None),
                bf.body.path, 'SPEC-SHAPE(reference conversion)', instance='SX126x: PLL steps = reference integer formula (32 MHz crystal, 2^25 scaling)')


def run(tier):
    res = Result(PID)
    c = ctx('ws')
    got = extract(c)
    codes = code_tables(c)
    if os.environ.get('C13_DUMP'):
        print(json.dumps({'transactions': got, 'codes': codes}, indent=1))
        return res
    with open(TABLE_FILE) as f:
        want = json.load(f)
    n_tx = 0
    for op in sorted(set(got) | set(want['transactions'])):
        g, w = got.get(op), want['transactions'].get(op)
        if w is None:
            res.violation('C13:%s:unlisted-operation' % op, 'operation %s issues SPI transactions %s but is not in the reference table' % (op, g), op, 'TABLE(transactions)')
            continue
        if g is None:
            raise CheckError('anchor: operation %s of the reference table no longer exists' % op)
        extra = [x for x in g if x not in w]
        missing = [x for x in w if x not in g]
        n_tx += len(g)
        res.require(not extra and not missing, 'C13:%s:transactions' % op, '%s: SPI transactions differ from the reference table; not in the table: %s; no longer issued: %s' % (op, extra[:3], missing[:3]), op,
                    'TABLE(SPI transactions: opcode / address, constants, argument bit placement, RMW masks)', instance='%s: %d transaction shape(s) as in the data sheet table' % (op, len(g)))
    if n_tx < 120:
        raise CheckError('floor: SPI transaction shapes extracted %d < 120' % n_tx)
    for key in sorted(set(codes) | set(want['codes'])):
        res.require(codes.get(key) == want['codes'].get(key), 'C13:%s:code-table' % key, 'parameter codes %s: %s (data sheet: %s)' % (key, codes.get(key), want['codes'].get(key)), key,
                    'TABLE(parameter codes over every enum value)', instance='%s codes as in the data sheet' % key)
    freq_formula(c, res)
    res.coverage.update({'operations': len(got), 'transaction_shapes': n_tx, 'code_tables': sorted(codes), 'configs': [c.info],
                         'not_decided': 'transaction order inside an operation; numeric value of bytes marked any (timeouts, symbol counts, power, image calibration); LR11xx'})
    res.samples = [{'operation': k, 'transactions': [json.loads(x) for x in v][:3]} for k, v in sorted(got.items())[:4]]
    res.explanation = __doc__
    res.assumptions = ['the reference table lrs/props/c13_table.json was reviewed against the Semtech data sheets (opcode names in its comments); it is the oracle',
                       'bytes whose value is an arithmetic encoding are not judged (any)']
    return res
