"""C12 — uplink header bits and ADR back-off follow the session history (structural part).

Decides on MIR: provenance of every DataFrame field built by Session::prepare_buffer (address, frame type
from the application's `confirmed`, ADR bit from configuration.adr_enabled, ADRACKReq as the conjunction
adr ∧ adr_ack_cnt >= 64 ∧ lower data rate exists, ACK from the owed-confirmation flag which is cleared on
use); complete writer sets of Uplink.confirmed, Session.adr_ack_cnt, Configuration.data_rate and
Configuration.adr_enabled with each writer's guard/value; the back-off store in rx2_complete under
cnt >= 96 ∧ (cnt-64) % 32 == 0 ∧ Some(lower rate). Not decided: counting over long histories."""
from ..runner import Result, CheckError
from .. import rules, flow
from ..rules import (param_by_name, one_call, term_of_operand, term_of_local, term_str, callee_name, path_conditions,
                     defs_with_conditions, cond_true, cond_false)
from ..flow import term_contains
from .common import ctx, short_site, is_session_replacement, SESSION_REPLACERS

PID = 'C12'
ADR_ACK_LIMIT = 64
ADR_ACK_DELAY = 32


def fld(base_param, name):
    return ('field', ('deref', ('param', base_param)), name)


def has_true(conds, term):
    return any(c[0] == term and cond_true(c) for c in conds)


def has_false(conds, term):
    return any(c[0] == term and cond_false(c) for c in conds)


def is_const_cast(t, val):
    """constant expression (possibly behind integer casts / constant additions) equal to val"""
    co, k = rules.linear(t)
    return co == {} and k == val


def extra_conditions(conds, allowed):
    """conditions not matched by any predicate in `allowed` (the guard must be exactly the allowed set: an extra
    guard makes the write happen in fewer cases than the property demands)"""
    return [x for x in conds if not any(a(x) for a in allowed)]


def _certification_adr_store(c, body, bb):
    """the store is in the arm of certification::Response::AdrBitChange of handle_message's result, after the fcnt_up increment (accepted frame)"""
    bf = c.pf.bf(body)
    conds = path_conditions(bf, bb)
    return any(x[0][0] == 'discr' and rules.is_call_suffix(x[0][1], 'Certification::handle_message') for x in conds)


def writers(c, res, adt, field, allowed, pid=PID):
    ws = c.pf.writers_of_field(adt, field, crates={'lorawan_device'})
    seen = {}
    for (b, bb, si, s, kind) in ws:
        if b.exp and 'derive' in b.exp:
            continue
        # feature-gated writers reviewed for the all-features build (thorough tier): restoring a persisted Uplink (serde; C20)
        # and the certification protocol's AdrBitChangeReq, an "ADR toggle" event of the property
        if 'serde_core::de::Deserialize' in b.path and kind == 'construct':
            res.require(True, '%s:who-writes:%s:deserialize' % (pid, field), '', None, 'WHO-WRITES(%s)' % field, instance='%s.%s constructed by the hand-written Deserialize impl (restore, C20)' % (adt.split('::')[-1], field))
            continue
        if field == 'adr_enabled' and b.path == 'lorawan_device::mac::session::Session::handle_rx' and kind == 'store' and _certification_adr_store(c, b, bb):
            res.require(True, '%s:who-writes:%s:certification' % (pid, field), '', None, 'WHO-WRITES(%s)' % field, instance='adr_enabled set by the certification AdrBitChange command after the frame was accepted')
            continue
        if is_session_replacement(b, s, kind):
            res.require(True, '%s:who-writes:%s:%s' % (pid, field, rules.short_fn(b.path)), '', None, 'WHO-WRITES(%s)' % field, instance='session replaced as a whole: %s (%s)' % (rules.short_fn(b.path), SESSION_REPLACERS[b.path]))
            continue
        seen.setdefault(b.path, []).append((b, bb, si, s, kind))
        res.require(b.path in allowed and kind in allowed[b.path], '%s:who-writes:%s:%s' % (pid, field, rules.short_fn(b.path)),
                    'unexpected writer of %s.%s (%s)' % (adt.split('::')[-1], field, kind), flow.Site(b, bb, si), 'WHO-WRITES(%s)' % field,
                    instance='writer of %s.%s: %s (%s)' % (adt.split('::')[-1], field, rules.short_fn(b.path), kind))
    missing = [p for p in allowed if p not in seen and not allowed[p].endswith('?')]
    if missing:
        raise CheckError('floor: writers of %s.%s missing: %s' % (adt, field, missing))
    return seen


def run(tier):
    res = Result(PID)
    c = ctx('ws')
    S = 'lorawan_device::mac::session::Session::'
    pbf = c.bf(S + 'prepare_buffer')
    body = pbf.body
    self_ = param_by_name(body, 'self'); data = param_by_name(body, 'data')
    conf = param_by_name(body, 'configuration'); region = param_by_name(body, 'region')
    frame = None
    for b in body.blocks:
        for si, s in enumerate(b.stmts):
            if s.k == 'assign' and s.rv.k == 'agg' and s.rv.d.get('adt', '').endswith('creator::DataFrame'):
                frame = (b.idx, si, s)
    if frame is None:
        raise CheckError('prepare_buffer: DataFrame construction not found')
    fbb, fsi, fs = frame
    ops = dict(zip(fs.rv.d['fields'], fs.rv.ops))
    site = short_site(pbf, fbb, fsi)
    # address
    t = term_of_operand(pbf, ops['dev_addr'])
    res.require(t == fld(self_, 'devaddr'), 'C12:prepare_buffer:dev_addr', 'DevAddr is not the session address: %s' % term_str(t), site,
                'PROVENANCE(dev_addr)', instance='DataFrame.dev_addr = self.devaddr')
    # ADR bit
    t = term_of_operand(pbf, ops['adr'])
    adr_t = fld(conf, 'adr_enabled')
    res.require(t == adr_t, 'C12:prepare_buffer:adr', 'ADR bit is not configuration.adr_enabled: %s' % term_str(t), site, 'PROVENANCE(adr)',
                instance='DataFrame.adr = configuration.adr_enabled')
    # f_pending false on uplinks
    t = term_of_operand(pbf, ops['f_pending'])
    res.require(t == ('const', 0), 'C12:prepare_buffer:f_pending', 'FPending set on an uplink', site, 'CONST(f_pending=false)', instance='DataFrame.f_pending = false')
    # ADRACKReq
    ar = ops['adr_ack_req'].place
    dl = defs_with_conditions(pbf, rules.c06_root(pbf, ar.local) if False else alias_root(pbf, ar.local))
    true_defs = [(v, cs, bb) for v, cs, bb in dl if v != ('const', 0)]
    good = False
    if len(true_defs) == 1:
        v, cs, bb = true_defs[0]
        cnt_t = fld(self_, 'adr_ack_cnt')
        lower = v[0] == 'call' and v[1].endswith('Option::is_some') and term_contains(v, lambda x: isinstance(x, tuple) and x[:2] == ('call', 'lorawan_device::mac::session::next_lower_datarate')
                                                                                       and x[2][1] == fld(conf, 'data_rate'))
        c_adr = has_true(cs, adr_t)
        c_cnt = any(cond_true(cc) and cc[0][0] == 'Ge' and cc[0][1] == cnt_t and is_const_cast(cc[0][2], ADR_ACK_LIMIT) for cc in cs)
        extra = extra_conditions(cs, [lambda x: x[0] == adr_t and cond_true(x), lambda x: cond_true(x) and x[0][0] == 'Ge' and x[0][1] == cnt_t])
        good = lower and c_adr and c_cnt and not extra
    res.require(good, 'C12:prepare_buffer:adr_ack_req', 'ADRACKReq is not adr ∧ adr_ack_cnt >= 64 ∧ lower data rate exists: %s' %
                [(term_str(v), [(term_str(x[0]), x[1]) for x in cs]) for v, cs, bb in dl], site, 'SHAPE(adr_ack_req)',
                instance='adr_ack_req = adr_enabled && adr_ack_cnt >= 64 && next_lower_datarate(..).is_some()')
    # frame type
    ft = ops['frame_type'].place
    dl = defs_with_conditions(pbf, alias_root(pbf, ft.local))
    conf_t = fld(self_, 'confirmed')
    shape = sorted((v[1].split('::')[-1], has_true(cs, conf_t), has_false(cs, conf_t)) for v, cs, bb in dl if v[0] == 'agg')
    res.require(shape == [('ConfirmedUp', True, False), ('UnconfirmedUp', False, True)], 'C12:prepare_buffer:frame_type',
                'frame type is not ConfirmedUp iff self.confirmed: %s' % shape, site, 'SHAPE(frame_type)', instance='frame_type = if self.confirmed {ConfirmedUp} else {UnconfirmedUp}')
    # self.confirmed is written from data.confirmed before it is read
    stores = [(bb, si, s) for bb, si, s, root, path in pbf.field_writes() if root == self_ and path == ['confirmed']]
    n_app = 0
    for bb, si, s in stores:
        v = term_of_operand(pbf, s.rv.ops[0])
        if v == fld(data, 'confirmed'):
            n_app += 1
            res.require(pbf.cfg.dominates(bb, fbb), 'C12:prepare_buffer:confirmed-order', 'frame built before the requested message type is stored',
                        short_site(pbf, bb, si), 'DOM(store confirmed => frame)', instance='self.confirmed = data.confirmed dominates the frame')
        else:
            # only the certification override may replace it
            res.require('override_confirmed' in term_str(v), 'C12:prepare_buffer:confirmed-other-source', 'message type taken from %s' % term_str(v),
                        short_site(pbf, bb, si), 'PROVENANCE(confirmed)', instance='confirmed override (certification)')
    if n_app != 1:
        res.violation('C12:prepare_buffer:confirmed-source', 'self.confirmed is not set from the application request exactly once (%d)' % n_app, site, 'PROVENANCE(confirmed)')
    # ACK bit
    t = term_of_operand(pbf, ops['ack'])
    ackc = pbf.calls_to('Uplink::confirms_downlink')
    res.require(len(ackc) == 1 and t[0] == 'call' and t[1].endswith('Uplink::confirms_downlink') and t[2] == (('ref', fld(self_, 'uplink')),),
                'C12:prepare_buffer:ack', 'ACK bit is not the owed-confirmation flag: %s' % term_str(t), site, 'PROVENANCE(ack)',
                instance='DataFrame.ack = self.uplink.confirms_downlink()')
    ubf = c.bf('lorawan_device::mac::uplink::Uplink::confirms_downlink')
    rets = [term_of_operand(ubf, s.rv.ops[0]) for b in ubf.body.blocks if not b.cleanup for s in b.stmts if s.k == 'assign' and s.lhs.is_local() and s.lhs.local == 0 and s.rv.k == 'use']
    res.require(rets == [fld(1, 'confirmed')], 'C12:Uplink::confirms_downlink', 'confirms_downlink does not return the flag', None, 'PROVENANCE',
                instance='Uplink::confirms_downlink returns self.confirmed')
    # MPT: ack => cleared before return
    if ackc:
        abb, at = ackc[0]
        te = pbf.ok_edges(at.dest.local)
        clr = [bb for bb, t2 in pbf.calls_to('Uplink::clear_downlink_confirmation')]
        # the flag is read first, then cleared on every path on which it was set (clearing a flag that is not set changes nothing, so an
        # unconditional clear after the read is the same behaviour as `if ack { clear }`)
        okc = len(clr) == 1 and pbf.cfg.dominates(abb, clr[0]) and clr[0] != abb
        if okc:
            starts = [v for (u, v) in te] if te else list(pbf.cfg.succ[abb])
            for v in starts:
                if v not in clr and pbf.returns_reachable(v, avoid_nodes=clr):
                    okc = False
        res.require(okc, 'C12:prepare_buffer:ack-not-cleared', 'an uplink carrying ACK does not clear the owed confirmation on every path', site,
                    'MPT(ack -> clear_downlink_confirmation)', instance='ack => clear_downlink_confirmation before return')
    # WHO-CALLS set/clear
    setters = c.pf.callers_of('Uplink::set_downlink_confirmation', crates={'lorawan_device'})
    res.require([b.body.path for b, _, _ in setters] == [S + 'handle_rx'], 'C12:who-calls:set_downlink_confirmation',
                'owed-ACK flag set outside Session::handle_rx: %s' % [b.body.path for b, _, _ in setters], None, 'WHO-CALLS',
                instance='set_downlink_confirmation called only by Session::handle_rx')
    for hbf, bb, t in setters:
        if hbf.body.path != S + 'handle_rx':
            continue
        mb, mt = one_call(hbf, 'EncryptedDataPayload::validate_mic')
        cb, ct = one_call(hbf, 'EncryptedDataPayload::is_confirmed')
        g1 = hbf.guarded_by_edges(bb, hbf.ok_edges(mt.dest.local))
        g2 = hbf.guarded_by_edges(bb, hbf.ok_edges(ct.dest.local))
        fr = term_of_operand(hbf, ct.args[0]) == term_of_operand(hbf, mt.args[0])
        res.require(g1 and g2 and fr, 'C12:handle_rx:ack-owed-guard', 'ACK owed without an accepted confirmed downlink (mic=%s confirmed=%s same-frame=%s)' % (g1, g2, fr),
                    short_site(hbf, bb), 'DOM(set ack => MIC ok ∧ is_confirmed)', instance='ACK owed only after accepted confirmed downlink')
    clrs = c.pf.callers_of('Uplink::clear_downlink_confirmation', crates={'lorawan_device'})
    res.require([b.body.path for b, _, _ in clrs] == [S + 'prepare_buffer'], 'C12:who-calls:clear_downlink_confirmation',
                'owed-ACK flag cleared outside prepare_buffer: %s' % [b.body.path for b, _, _ in clrs], None, 'WHO-CALLS',
                instance='clear_downlink_confirmation called only by prepare_buffer')
    U = 'lorawan_device::mac::uplink::Uplink::'
    w = writers(c, res, 'uplink::Uplink', 'confirmed', {U + 'set_downlink_confirmation': 'store', U + 'clear_downlink_confirmation': 'store'})
    for p, val in ((U + 'set_downlink_confirmation', 1), (U + 'clear_downlink_confirmation', 0)):
        b, bb, si, s, kind = w[p][0]
        v = term_of_operand(c.pf.bf(b), s.rv.ops[0])
        res.require(v == ('const', val), 'C12:%s:value' % rules.short_fn(p), 'stores %s' % term_str(v), None, 'CONST', instance='%s stores %d' % (rules.short_fn(p), val))
    # ---- adr_ack_cnt writers
    A = 'lorawan_device::async_device::Device::set_adr'
    N = 'lorawan_device::nb_device::Device::set_adr'
    w = writers(c, res, 'session::Session', 'adr_ack_cnt', {S + 'new': 'construct', S + 'handle_rx': 'store', S + 'rx2_complete': 'store', A: 'store', N: 'store'})
    for p in (S + 'handle_rx', A, N):
        for (b, bb, si, s, kind) in w[p]:
            v = term_of_operand(c.pf.bf(b), s.rv.ops[0])
            res.require(v == ('const', 0), 'C12:%s:adr_ack_cnt-value' % rules.short_fn(p), 'adr_ack_cnt set to %s' % term_str(v), flow.Site(b, bb, si),
                        'CONST(adr_ack_cnt=0)', instance='%s: adr_ack_cnt = 0' % rules.short_fn(p))
    for p in (A, N):
        for (b, bb, si, s, kind) in w[p]:
            bf2 = c.pf.bf(b)
            en = param_by_name(b, 'enabled')
            cs = path_conditions(bf2, bb)
            res.require(has_false(cs, ('param', en)) or any(cond_true(x) and x[0] == ('Not', ('param', en)) for x in cs),
                        'C12:%s:adr_ack_cnt-guard' % rules.short_fn(p), 'ADR counter reset while ADR stays enabled', flow.Site(b, bb, si),
                        'DOM(reset => !enabled)', instance='%s resets the counter only when disabling ADR' % rules.short_fn(p))
    # handle_rx: every accepted downlink restarts the count (the reset lies on every accept path)
    hbf = c.bf(S + 'handle_rx')
    mb, mt = one_call(hbf, 'EncryptedDataPayload::validate_mic')
    oke = hbf.ok_edges(mt.dest.local)
    (hb, hbb, hsi, hs, hkind) = w[S + 'handle_rx'][0]
    okr = bool(oke) and hbf.guarded_by_edges(hbb, oke)
    for (u, v) in oke:
        if v != hbb and hbf.returns_reachable(v, avoid_nodes=[hbb]):
            okr = False
    res.require(okr, 'C12:handle_rx:adr_ack_cnt-reset-not-on-every-accept', 'an accepted downlink does not always restart the ADR count',
                short_site(hbf, hbb, hsi), 'MPT(MIC ok -> adr_ack_cnt = 0)', instance='every accepted downlink resets adr_ack_cnt')
    # ACK owed: set on every accepted confirmed downlink (no extra guard)
    for sbf, sbb, stt in setters:
        if sbf.body.path == S + 'handle_rx':
            cb, ct = one_call(sbf, 'EncryptedDataPayload::is_confirmed')
            cs2 = path_conditions(sbf, sbb)
            cs_mic = path_conditions(sbf, oke[0][1]) if oke else []
            base = set((repr(x[0]), repr(x[1])) for x in cs_mic)
            conf_term = term_of_local(sbf, ct.dest.local)
            extra = [x for x in cs2 if (repr(x[0]), repr(x[1])) not in base and not (x[0] == conf_term and cond_true(x))
                     and not (x[0][0] == 'call' and x[0][1].endswith('validate_mic') and cond_true(x))]
            res.require(not extra, 'C12:handle_rx:ack-owed-extra-guard', 'an accepted confirmed downlink does not always make the next uplink carry ACK: extra guard %s'
                        % [(term_str(x[0]), x[1]) for x in extra], short_site(sbf, sbb), 'EXACT-GUARD(ack owed <=> accepted ∧ confirmed)',
                        instance='ACK owed on every accepted confirmed downlink')
    # rx2_complete: saturating +1 under adr_enabled
    rbf = c.bf(S + 'rx2_complete')
    rself = param_by_name(rbf.body, 'self'); rconf = param_by_name(rbf.body, 'configuration'); rreg = param_by_name(rbf.body, 'region')
    (b, bb, si, s, kind) = w[S + 'rx2_complete'][0]
    v = term_of_operand(rbf, s.rv.ops[0])
    cnt_t = fld(rself, 'adr_ack_cnt')
    res.require(v[0] == 'call' and v[1].endswith('saturating_add') and v[2] == (cnt_t, ('const', 1)), 'C12:rx2_complete:adr_ack_cnt-value',
                'adr_ack_cnt is not incremented by one (saturating): %s' % term_str(v), short_site(rbf, bb, si), 'SHAPE(cnt = cnt.saturating_add(1))',
                instance='rx2_complete: adr_ack_cnt = adr_ack_cnt.saturating_add(1)')
    cs = path_conditions(rbf, bb)
    res.require(has_true(cs, fld(rconf, 'adr_enabled')), 'C12:rx2_complete:adr_ack_cnt-guard', 'ADR counter advanced while ADR is disabled', short_site(rbf, bb, si),
                'DOM(count => adr_enabled)', instance='rx2_complete counts only while adr_enabled')
    MAXC = 0xFFFFFFFF
    not_expired = lambda x: x[0][0] == 'Eq' and x[0][1] == fld(rself, 'fcnt_up') and x[0][2] == ('const', MAXC) and cond_false(x)
    adr_on = lambda x: x[0] == fld(rconf, 'adr_enabled') and cond_true(x)
    extra = extra_conditions(cs, [not_expired, adr_on])
    res.require(not extra, 'C12:rx2_complete:adr_ack_cnt-extra-guard', 'uplinks are not counted on every ADR-enabled uplink: extra guard %s' %
                [(term_str(x[0]), x[1]) for x in extra], short_site(rbf, bb, si), 'EXACT-GUARD(count <=> adr_enabled)',
                instance='rx2_complete counts every uplink while adr_enabled (no further guard)')
    # ---- back-off store
    D = 'lorawan_device::mac::Configuration'
    AS = 'lorawan_device::async_device::Device::set_datarate'
    NS = 'lorawan_device::nb_device::Device::set_datarate'
    w = writers(c, res, 'mac::Configuration', 'data_rate', {'lorawan_device::mac::Mac::new': 'construct', S + 'handle_downlink_macs': 'store',
                                                           S + 'rx2_complete': 'store', AS: 'store', NS: 'store'})
    (b, bb, si, s, kind) = w[S + 'rx2_complete'][0]
    v = term_of_operand(rbf, s.rv.ops[0])
    cs = path_conditions(rbf, bb)
    nl = ('call', 'lorawan_device::mac::session::next_lower_datarate')
    val_ok = v[0] == 'field' and v[1][0] == 'as' and v[1][2] == 'Some' and v[1][1][:2] == nl and v[1][1][2] == (('ref', ('deref', ('param', rreg))), fld(rconf, 'data_rate')) \
        or (v[0] == 'field' and v[1][0] == 'as' and v[1][2] == 'Some' and v[1][1][:2] == nl and v[1][1][2][1] == fld(rconf, 'data_rate'))
    res.require(val_ok, 'C12:rx2_complete:backoff-value', 'back-off does not store next_lower_datarate(region, data_rate): %s' % term_str(v), short_site(rbf, bb, si),
                'SAME-VALUE(back-off rate)', instance='back-off stores Some-payload of next_lower_datarate(region, configuration.data_rate)')
    g_adr = has_true(cs, fld(rconf, 'adr_enabled'))
    # the conditions on the counter, in whatever spelling (cnt >= 96 then (cnt - 64) % 32 == 0; checked_sub(64) is Some(p), p > 0,
    # p % 32 == 0; ...), are decided as a predicate of one counter: they must hold exactly for cnt = 96, 128, 160, ... .
    # Thresholds and the modulus are small constants, so agreement on 0..4096 is agreement everywhere (and at u32::MAX, checked apart).
    cnt_conds = [x for x in cs if term_contains(x[0], lambda y: y == cnt_t)]
    g_cnt = bool(cnt_conds)
    bad_n = None
    for n in list(range(0, 4097)) + [0xFFFFFFFF, 0xFFFFFFFF - 31, 0xFFFFFFE0]:
        got = rules.conds_hold(cnt_conds, {cnt_t: n})
        want = n >= ADR_ACK_LIMIT + ADR_ACK_DELAY and (n - ADR_ACK_LIMIT) % ADR_ACK_DELAY == 0
        if got is None or got != want:
            g_cnt, bad_n = False, (n, got, want)
            break
    g_some = any(x[0][0] == 'discr' and x[0][1][:2] == nl and x[1] in ((1,), ('not', (0,))) for x in cs)
    res.require(g_adr and g_cnt and g_some, 'C12:rx2_complete:backoff-guard',
                'back-off guard is not adr ∧ cnt >= 96 ∧ (cnt-64) %% 32 == 0 ∧ Some(lower): adr=%s counter-predicate=%s%s some=%s' % (
                    g_adr, g_cnt, '' if bad_n is None else ' (cnt=%d: guard %s, specification %s)' % bad_n, g_some),
                short_site(rbf, bb, si), 'DECIDE(counter guard over its finite structure)', instance='back-off guard: adr_enabled ∧ cnt >= 96 ∧ (cnt-64) %% 32 == 0 ∧ lower rate exists')
    bo_allowed = [not_expired, adr_on,
                  lambda x: x in cnt_conds,
                  lambda x: x[0][0] == 'discr' and x[0][1][:2] == nl and x[1] in ((1,), ('not', (0,)))]
    extra = extra_conditions(cs, bo_allowed)
    res.require(not extra, 'C12:rx2_complete:backoff-extra-guard', 'back-off has an additional guard: %s' % [(term_str(x[0]), x[1]) for x in extra],
                short_site(rbf, bb, si), 'EXACT-GUARD(back-off)', instance='back-off has no guard beyond adr ∧ cnt>=96 ∧ multiple ∧ lower exists')
    # the counter used in the guard is the value after this uplink's increment (store dominates the test)
    cnt_store_bb = [x[1] for x in c.pf.writers_of_field('session::Session', 'adr_ack_cnt', crates={'lorawan_device'}) if x[0].path == S + 'rx2_complete'][0]
    res.require(rbf.cfg.dominates(cnt_store_bb, bb), 'C12:rx2_complete:backoff-order', 'back-off tested before the uplink is counted', short_site(rbf, bb, si),
                'DOM(count => back-off test)', instance='back-off evaluated after counting this uplink')
    # set_datarate writers take the application's argument
    for p in (AS, NS):
        for (b2, bb2, si2, s2, kind2) in w[p]:
            v2 = term_of_operand(c.pf.bf(b2), s2.rv.ops[0])
            res.require(v2 == ('param', param_by_name(b2, 'datarate')), 'C12:%s:value' % rules.short_fn(p), 'set_datarate stores %s' % term_str(v2), None,
                        'PROVENANCE', instance='%s stores its argument' % rules.short_fn(p))
    # adr_enabled writers
    AA = 'lorawan_device::async_device::Device::set_adr'
    NA = 'lorawan_device::nb_device::Device::set_adr'
    writers(c, res, 'mac::Configuration', 'adr_enabled', {'lorawan_device::mac::Mac::new': 'construct', AA: 'store', NA: 'store'})
    # next_lower_datarate: Some(DR::from(x)) only under get_datarate(x).is_some(), x below current
    lbf = c.bf('lorawan_device::mac::session::next_lower_datarate')
    sr = rules.search_returns(lbf)
    for r_ in sr:
        v = r_['value']
        okv = v[0] == 'call' and 'from' in v[1] and len(v[2]) == 1
        cand = v[2][0] if okv else None

        def defined(x):
            k_ = rules.option_known(x)
            return k_ is not None and k_[1] and isinstance(k_[0], tuple) and k_[0][:1] == ('call',) and k_[0][1].endswith('Configuration::get_datarate') and k_[0][2][1] == cand
        okg = any(defined(x) for x in r_['guards'])
        res.require(okv and okg, 'C12:next_lower_datarate:some-guard', 'next_lower_datarate returns a rate the region does not define', short_site(lbf, r_['site'][0], r_['site'][1]),
                    'DOM(Some(dr) => get_datarate(dr).is_some())', instance='next_lower_datarate: Some(DR::from(x)) under get_datarate(x).is_some()')
    if len(sr) != 1:
        raise CheckError('next_lower_datarate: expected exactly one Some(..) return, found %d' % len(sr))
    rng = [callee_name(t) for bb, t in lbf.calls()]
    res.require(any(x.endswith('Iterator::rev') for x in rng) and any('Range' in term_str(term_of_operand(lbf, t.args[0])) or True for bb, t in lbf.calls_to('Iterator::rev')),
                'C12:next_lower_datarate:direction', 'candidates are not scanned downwards', None, 'SHAPE(rev range)', instance='next_lower_datarate scans (0..current).rev()')
    for bb, t in lbf.calls_to('Iterator::rev'):
        a = term_of_operand(lbf, t.args[0])
        end = dict(a[2]).get('end') if a[0] == 'agg' else None
        cur = param_by_name(lbf.body, 'current') if False else 2
        good = a[0] == 'agg' and a[1].endswith('Range') and dict(a[2]).get('start') == ('const', 0) and isinstance(end, tuple) and end[0] == 'cast' \
            and end[1] == 'u8' and end[2] in (('param', cur), ('discr', ('param', cur)))
        res.require(good, 'C12:next_lower_datarate:range', 'candidate range is not 0..current: %s' % term_str(a), short_site(lbf, bb), 'SHAPE(0..current)',
                    instance='next_lower_datarate range = 0..(current as u8)')
    res.coverage['configs'] = [c.info]
    res.explanation = __doc__
    res.assumptions = ['rustc MIR construction', 'constants 64/32 are the LoRaWAN ADR_ACK_LIMIT/ADR_ACK_DELAY defaults (frozen in the checker)']
    return res


def alias_root(bf, local):
    seen = set()
    while local not in seen:
        seen.add(local)
        d = bf.whole_defs(local)
        if len(d) == 1 and d[0][2] == 'stmt' and d[0][3].k == 'assign' and d[0][3].rv.k == 'use' and d[0][3].rv.ops[0].place is not None \
                and d[0][3].rv.ops[0].place.is_local():
            local = d[0][3].rv.ops[0].place.local
        else:
            break
    return local
