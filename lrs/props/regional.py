"""Regional-parameter oracle: the parameter sets the code carries per region (extracted from the MIR of the region
modules by the value-set abstract interpreter, lrs/tables.py — nothing of the crate is executed) are compared with
the LoRaWAN Regional Parameters document (RP002-1.0.x), transcribed below as closed forms / tables.

The oracle is frozen here and does not come from the code under analysis. Cells the document leaves to the
implementation (FSK / LR-FHSS data rates this stack does not implement) may be undefined in the code; a data rate the
document marks RFU must not be defined, and no RX1 cell may name one. Where two published revisions differ (AS923 RX1
cap: MIN(5, ..) up to RP002-1.0.0, MIN(7, ..) from RP002-1.0.1) either value is accepted and the cell says so.

Used by: C09 (data-rate tables, TX power tables, band predicates, default / join channels, fixed-plan frequency maps,
coding rate), C10 (RX1 data-rate tables, RX2 defaults, MAX_RX1_DR_OFFSET), C05 (maximum MAC payload per data rate)."""
import re
from .. import tables, rules
from ..runner import CheckError
from ..rules import callee_name, term_of_operand

D = 'lorawan_device::'
DCR = D + 'region::dynamic_channel_plans::DynamicChannelRegion'
FCR = D + 'region::fixed_channel_plans::FixedChannelRegion'

L = lambda sf, bw: ('_%d' % sf, '_%dKHz' % bw)

# data rates: index -> (SF, BW) for LoRa, 'FSK' / 'LRFHSS' (defined by the document, not implemented here), absent = RFU
_EU_DR = {0: L(12, 125), 1: L(11, 125), 2: L(10, 125), 3: L(9, 125), 4: L(8, 125), 5: L(7, 125), 6: L(7, 250), 7: 'FSK'}
_500 = {8: L(12, 500), 9: L(11, 500), 10: L(10, 500), 11: L(9, 500), 12: L(8, 500), 13: L(7, 500)}


def _sub(dr, off):
    return max(0, dr - off)


def _eff(off):
    return [0, 1, 2, 3, 4, 5, -1, -2][off]


def rx1_eu868(dr, off):
    base = {8: 1, 9: 2, 10: 1, 11: 2}.get(dr, dr)
    return {_sub(base, off)}


def rx1_eu433(dr, off):
    return {_sub(dr, off)}


def rx1_as923(dr, off):
    v = max(0, dr - _eff(off))          # MinDR = 0 (DownlinkDwellTime 0, the only setting this stack implements)
    return {min(5, v), min(7, v)}


_IN865_RX1 = {0: [0, 0, 0, 0, 0, 0, 1, 2], 1: [1, 0, 0, 0, 0, 0, 2, 3], 2: [2, 1, 0, 0, 0, 0, 3, 4], 3: [3, 2, 1, 0, 0, 0, 4, 5],
              4: [4, 3, 2, 1, 0, 0, 5, 5], 5: [5, 4, 3, 2, 1, 0, 5, 7], 7: [7, 5, 5, 4, 3, 2, 7, 7]}


def rx1_in865(dr, off):
    return {_IN865_RX1[dr][off]} if dr in _IN865_RX1 else None


def rx1_us915(dr, off):
    if dr <= 4:
        return {min(13, max(8, 10 + dr - off))}
    if dr in (5, 6):
        return {min(11, max(8, 5 + dr - off))}
    return None


def rx1_au915(dr, off):
    if dr <= 6:
        return {min(13, max(8, 8 + dr - off))}
    if dr == 7:
        return {9 if off == 0 else 8}
    return None


ORACLE = {
    'EU868Region': dict(
        dr={**_EU_DR, 8: 'LRFHSS', 9: 'LRFHSS', 10: 'LRFHSS', 11: 'LRFHSS'}, minimum=range(0, 6),
        max_payload={0: 59, 1: 59, 2: 59, 3: 123, 4: 250, 5: 250, 6: 250, 7: 250},
        tx_power=[16 - 2 * i for i in range(8)], max_eirp='16 dBm', max_rx1_offset=5, rx1=rx1_eu868, rx2=(869_525_000, 0),
        bands=[(863_000_000, 870_000_000)], join_channels=[868_100_000, 868_300_000, 868_500_000]),
    'EU433Region': dict(
        dr=_EU_DR, minimum=range(0, 6), max_payload={0: 59, 1: 59, 2: 59, 3: 123, 4: 250, 5: 250, 6: 250, 7: 250},
        tx_power=[12 - 2 * i for i in range(6)], max_eirp='12.15 dBm (whole dBm: 12)', max_rx1_offset=5, rx1=rx1_eu433, rx2=(434_665_000, 0),
        bands=[(433_050_000, 434_790_000)], join_channels=[433_175_000, 433_375_000, 433_575_000]),
    'IN865Region': dict(
        dr={0: L(12, 125), 1: L(11, 125), 2: L(10, 125), 3: L(9, 125), 4: L(8, 125), 5: L(7, 125), 7: 'FSK'}, minimum=range(0, 6),
        max_payload={0: 59, 1: 59, 2: 59, 3: 123, 4: 250, 5: 250, 7: 250},
        tx_power=[30 - 2 * i for i in range(11)], max_eirp='30 dBm', max_rx1_offset=7, rx1=rx1_in865, rx2=(866_550_000, 2),
        bands=[(865_000_000, 867_000_000)], join_channels=[865_062_500, 865_402_500, 865_985_000]),
    'AS923Region': dict(
        dr=_EU_DR, minimum=range(0, 6), max_payload={0: 59, 1: 59, 2: 123, 3: 123, 4: 250, 5: 250, 6: 250, 7: 250},
        tx_power=[16 - 2 * i for i in range(8)], max_eirp='16 dBm', max_rx1_offset=7, rx1=rx1_as923, rx2=(None, 2),
        bands=[(915_000_000, 928_000_000), (917_000_000, 920_000_000)],
        # group -> frequency offset below the AS923-1 plan; default channels and RX2 = (923.2, 923.4 MHz) - offset
        groups={0: 'AS923-1', 1_800_000: 'AS923-2', 6_600_000: 'AS923-3', 5_900_000: 'AS923-4'}, join_base=[923_200_000, 923_400_000]),
    'US915Region': dict(
        dr={0: L(10, 125), 1: L(9, 125), 2: L(8, 125), 3: L(7, 125), 4: L(8, 500), 5: 'LRFHSS', 6: 'LRFHSS', **_500},
        minimum=list(range(0, 5)) + list(range(8, 14)),
        max_payload={0: 19, 1: 61, 2: 133, 3: 250, 4: 250, 8: 61, 9: 137, 10: 250, 11: 250, 12: 250, 13: 250},
        tx_power=[30 - 2 * i for i in range(15)], max_eirp='30 dBm', max_rx1_offset=3, rx1=rx1_us915, rx2=(923_300_000, 8),
        bands=[(902_000_000, 928_000_000)],
        uplink=[902_300_000 + 200_000 * i for i in range(64)] + [903_000_000 + 1_600_000 * i for i in range(8)],
        downlink=[923_300_000 + 600_000 * i for i in range(8)], join_dr={'125': 0, '500': 4}),
    'AU915Region': dict(
        dr={0: L(12, 125), 1: L(11, 125), 2: L(10, 125), 3: L(9, 125), 4: L(8, 125), 5: L(7, 125), 6: L(8, 500), 7: 'LRFHSS', **_500},
        minimum=list(range(0, 7)) + list(range(8, 14)),
        max_payload={0: 59, 1: 59, 2: 59, 3: 123, 4: 250, 5: 250, 6: 250, 8: 61, 9: 137, 10: 250, 11: 250, 12: 250, 13: 250},
        tx_power=[30 - 2 * i for i in range(15)], max_eirp='30 dBm', max_rx1_offset=5, rx1=rx1_au915, rx2=(923_300_000, 8),
        bands=[(915_000_000, 928_000_000)],
        uplink=[915_200_000 + 200_000 * i for i in range(64)] + [915_900_000 + 1_600_000 * i for i in range(8)],
        downlink=[923_300_000 + 600_000 * i for i in range(8)], join_dr={'125': 2, '500': 6}),
}


def short(r):
    return r.split('::')[-1].split('<')[0]


def rx_datarate(prog, region, dr_index, offset, window):
    """value set of get_rx_datarate(DR::_<dr_index>, offset, &Window::<window>) (list of DR indices) or None"""
    from .. import absint_interp
    from ..absint import Lin
    trait = FCR if 'fixed_channel_plans' in region else DCR
    body = tables._method_body(prog, region, trait, 'get_rx_datarate')
    if body is None:
        raise CheckError('anchor: get_rx_datarate of %s' % short(region))
    wv = tables.enum_value(prog, D + 'mac::Window', window)
    an = absint_interp.new_analyzer(prog, max_depth=5)

    def setup(an2, fr2, st2):
        st2.env[(fr2.id, 1)] = tables.enum_value(prog, 'lorawan::types::DR', prog.adts['lorawan::types::DR']['variants'][dr_index]['name'])
        st2.env[(fr2.id, 2)] = ('int', Lin.const(offset))
        st2.mem[('obj', 'window_arg*')] = wv
        st2.env[(fr2.id, 3)] = ('ref', ('O', 'window_arg*', ()))
    fr2, out2 = an.analyze_entry(body, setup=setup)
    rv = out2.env.get((fr2.id, 0)) if out2 is not None else None
    if rv is None or rv[0] != 'adt' or rv[2] is None:
        return None
    return sorted(rv[2])


def as923_groups(prog):
    s = set()
    for src in (prog.adts, prog.by_short):
        for k in src:
            for m in re.finditer(r'AS923Region<(\d+), (\d+)>', k):
                s.add((int(m.group(1)), int(m.group(2))))
    for im in prog.impls:
        for m in re.finditer(r'AS923Region<(\d+), (\d+)>', im['self_ty']):
            s.add((int(m.group(1)), int(m.group(2))))
    return sorted(s)


def _fn_consts(body):
    out = []
    for blk in body.blocks:
        ops = []
        for st in blk.stmts:
            if st.k == 'assign':
                ops.extend(st.rv.ops)
        if blk.term.k == 'call':
            ops.extend(blk.term.args)
        for o in ops:
            if o.const is not None and 'fn' in o.const:
                out.append(o.const['fn'])
    return out


def region_predicates(c):
    """{region type as instantiated (EU868Region, AS923Region<917300000, 5900000>, US915Region, ..): [predicate fn paths]}, read
    from region::State::new: each arm calls one plan constructor whose result type names the region; the constructor
    (followed through at most three workspace calls, e.g. Default -> FixedChannelPlan::new) hands a fn(u32) -> bool item on."""
    from ..flow import Effects
    prog = c.prog
    bl = prog.by_short.get(D + 'region::State::new') or []
    if len(bl) != 1:
        raise CheckError('anchor: region::State::new')
    bf = c.pf.bf(bl[0])
    eff = Effects(c.pf) if False else None

    def callee_body(t):
        for nm in (t.callee_res(), t.callee()):
            l = prog.by_short.get(nm) if nm else None
            if l and len(l) == 1:
                return l[0]
        return None

    def preds_in(body, depth=0):
        res = []
        if body is None:
            return res
        for f in _fn_consts(body):
            fb = prog.by_short.get(f) or []
            if len(fb) == 1 and fb[0].argc == 1 and fb[0].locals[1] == 'u32' and fb[0].locals[0] == 'bool':
                res.append(f)
        if depth < 3:
            for blk in body.blocks:
                if blk.term.k == 'call' and not blk.cleanup:
                    cn = blk.term.callee_best() or ''
                    if D in cn:
                        res.extend(preds_in(callee_body(blk.term), depth + 1))
        return res
    out = {}
    for bb, t in bf.calls():
        ty = str(t.dest.ty) if t.dest is not None else ''
        m = re.search(r'([A-Za-z0-9]+Region(?:<\d+, \d+>)?)', ty)
        key = m.group(1) if m else None
        if key is None:
            m = re.search(r'::(US915|AU915)$', ty)
            key = m.group(1) + 'Region' if m else None
        if key is None:
            continue
        ps = sorted(set(preds_in(callee_body(t))))
        if not ps:
            raise CheckError('anchor: the %s arm of region::State::new hands no frequency predicate to its channel plan' % key)
        out.setdefault(key, set()).update(ps)
    return {k: sorted(v) for k, v in out.items()}


def default_channel_forms(prog, region):
    """init_channels of a dynamic region run by the abstract interpreter on an all-symbolic plan: (slots array | None,
    [(slot index, constant part of the frequency | None, coefficient of the AS923 OFFSET const generic)])"""
    from .. import absint_interp
    ib = tables._method_body(prog, region, DCR, 'init_channels')
    if ib is None:
        raise CheckError('anchor: init_channels of %s' % short(region))
    an = absint_interp.new_analyzer(prog, max_depth=5)
    an.unroll_concrete = True           # a loop over a constant table of frequencies is followed element by element
    fr, out = an.analyze_entry(ib)
    slots = None
    if out is not None:
        for k_, v_ in out.mem.items():
            if isinstance(v_, tuple) and v_ and v_[0] == 'array' and k_[0] == 'obj' and str(k_[1]).startswith('p1_'):
                slots = v_
    forms = []
    if slots is not None:
        for i_ in sorted(slots[2]):
            e = slots[2][i_]
            if e is None or e[0] != 'adt' or e[2] != frozenset([1]):
                forms.append((i_, None, None))
                continue
            ch = an.field_of(e, 1, '0', out, fr)
            f = an.field_of(ch, 0, 'frequency', out, fr)
            lin = an.as_int(f, out) if f is not None else None
            if lin is None:
                forms.append((i_, None, None))
                continue
            terms = dict(lin.co)
            coef = sum(v for k2, v in terms.items() if 'OFFSET' in str(k2))
            other = [k2 for k2 in terms if 'OFFSET' not in str(k2)]
            forms.append((i_, None if other else lin.k, coef))
    return slots, forms


def check(c, res, pid, groups):
    """append the regional rules of `groups` (subset of {'dr', 'power', 'band', 'channels', 'rx1', 'rx2', 'payload', 'cr'}) to res"""
    prog = c.prog
    regs = tables.regions(prog)
    if len(regs) != 6:
        raise CheckError('floor: ChannelRegion impls %d != 6' % len(regs))
    n_cells = 0
    cov = {}
    preds = region_predicates(c) if 'band' in groups else {}
    for r in regs:
        sr = short(r)
        o = ORACLE.get(sr)
        if o is None:
            res.violation('%s:regional:%s:unknown-region' % (pid, sr), 'region %s has no entry in the regional-parameters oracle (lrs/props/regional.py)' % sr, r, 'ORACLE(regional parameters)')
            continue
        dr = tables.datarates(prog, r)
        defined = [i for i, e in enumerate(dr) if isinstance(e, dict)]
        if 'dr' in groups:
            bad = []
            for i, e in enumerate(dr):
                want = o['dr'].get(i)
                if e == 'unknown':
                    bad.append('DR%d not evaluated' % i)
                elif isinstance(e, dict):
                    got = (e['spreading_factor'], e['bandwidth'])
                    if want is None:
                        bad.append('DR%d is defined (%s/%s) but RFU in the regional parameters' % (i, got[0], got[1]))
                    elif isinstance(want, str):
                        bad.append('DR%d is defined as LoRa %s/%s but is %s in the regional parameters' % (i, got[0], got[1], want))
                    elif got != want:
                        bad.append('DR%d is %s/%s, the regional parameters say %s/%s' % (i, got[0], got[1], want[0], want[1]))
                elif i in o['minimum']:
                    bad.append('DR%d (mandatory for every device of the region) is undefined' % i)
                n_cells += 1
            res.require(not bad, '%s:regional:%s:datarates' % (pid, sr), '%s data-rate table: %s' % (sr, '; '.join(bad[:4])), r, 'ORACLE(data-rate table = RP002)',
                        instance='%s: DR table %s = regional parameters (undefined: not implemented FSK/LR-FHSS or optional rates)' % (sr, defined))
        if 'payload' in groups:
            bad = []
            for i in defined:
                want = o['max_payload'].get(i)
                got = dr[i].get('max_mac_payload_size')
                if want is not None and got != want:
                    bad.append('DR%d: %s bytes, regional parameters M = %d' % (i, got, want))
                n_cells += 1
            res.require(not bad, '%s:regional:%s:max-payload' % (pid, sr), '%s maximum MACPayload size per data rate differs: %s' % (sr, '; '.join(bad[:4])), r,
                        'ORACLE(max MACPayload size M, no repeater, dwell time off)', instance='%s: max MACPayload %s' % (sr, [dr[i].get('max_mac_payload_size') for i in defined]))
        if 'power' in groups:
            b = tables._method_body(prog, r, tables.CR, 'tx_power_adjust')
            tab = tables.option_u8_table(prog, b, range(16))
            vals = [tab[i] for i in range(16)]
            want = o['tx_power']
            bad = []
            for i in range(16):
                w = want[i] if i < len(want) else None
                g = vals[i]
                if g == 'unknown':
                    bad.append('index %d not evaluated' % i)
                elif (g is None) != (w is None):
                    bad.append('TXPower index %d is %s, the regional parameters %s it' % (i, 'undefined' if g is None else 'defined (%d dBm)' % g, 'define' if w is not None else 'do not define'))
                elif g is not None and g > w:
                    bad.append('TXPower index %d gives %d dBm, above MaxEIRP - %d dB = %d dBm (MaxEIRP %s)' % (i, g, 2 * i, w, o['max_eirp']))
                n_cells += 1
            res.require(not bad, '%s:regional:%s:tx-power' % (pid, sr), '%s TX power table: %s' % (sr, '; '.join(bad[:3])), r, 'ORACLE(TXPower index -> EIRP <= MaxEIRP - 2*index, same index set)',
                        instance='%s: TX power %s <= %s' % (sr, [v for v in vals if v is not None], want))
        if 'cr' in groups:
            pass
        if 'rx2' in groups or 'rx1' in groups:
            mo = tables.assoc_const(prog, r, tables.CR, 'MAX_RX1_DR_OFFSET')
            if 'rx2' in groups:
                res.require(mo == o['max_rx1_offset'], '%s:regional:%s:max-rx1-offset' % (pid, sr), '%s MAX_RX1_DR_OFFSET = %s, regional parameters: %d' % (sr, mo, o['max_rx1_offset']), r,
                            'ORACLE(RX1DROffset range)', instance='%s: RX1DROffset 0..%d' % (sr, o['max_rx1_offset']))
                if sr == 'AS923Region':
                    gs = as923_groups(prog)
                    if len(gs) < 4:
                        raise CheckError('anchor: AS923 instantiations %s' % gs)
                    for rx2f, off in gs:
                        res.require(off in o['groups'] and rx2f == 923_200_000 - off, '%s:regional:AS923:%d:rx2-frequency' % (pid, off),
                                    '%s (frequency offset -%d Hz): default RX2 frequency %d Hz, regional parameters 923.2 MHz - offset = %d Hz' % (o['groups'].get(off, 'unknown AS923 group'), off, rx2f, 923_200_000 - off),
                                    r, 'ORACLE(RX2 default frequency)', instance='%s: RX2 default %d Hz' % (o['groups'].get(off, off), rx2f))
                else:
                    f = tables.assoc_const(prog, r, tables.CR, 'DEFAULT_RX2_FREQ')
                    res.require(f == o['rx2'][0], '%s:regional:%s:rx2-frequency' % (pid, sr), '%s default RX2 frequency %s Hz, regional parameters %d Hz' % (sr, f, o['rx2'][0]), r,
                                'ORACLE(RX2 default frequency)', instance='%s: RX2 default %d Hz' % (sr, o['rx2'][0]))
                bad = []
                for i in defined:
                    for off in range((mo or 0) + 1):
                        got = rx_datarate(prog, r, i, off, '_2')
                        n_cells += 1
                        if got != [o['rx2'][1]]:
                            bad.append('(DR%d, offset %d) -> %s' % (i, off, got))
                res.require(not bad, '%s:regional:%s:rx2-datarate' % (pid, sr), '%s default RX2 data rate is not DR%d: %s' % (sr, o['rx2'][1], bad[:3]), r, 'ORACLE(RX2 default data rate)',
                            instance='%s: RX2 default DR%d for every uplink data rate and offset' % (sr, o['rx2'][1]))
            if 'rx1' in groups and mo is not None:
                bad = []
                tab = {}
                for i in defined:
                    row = []
                    for off in range(mo + 1):
                        got = rx_datarate(prog, r, i, off, '_1')
                        want = o['rx1'](i, off)
                        n_cells += 1
                        row.append(got[0] if got and len(got) == 1 else got)
                        if want is None:
                            continue
                        if got is None or len(got) != 1:
                            bad.append('(DR%d, offset %d) not a single data rate: %s' % (i, off, got))
                        elif got[0] not in want:
                            bad.append('(uplink DR%d, RX1DROffset %d) -> DR%d, regional parameters: DR%s%s' % (
                                i, off, got[0], '/DR'.join(str(x) for x in sorted(want)), '' if got[0] in o['dr'] else ' (DR%d is RFU in this region)' % got[0]))
                    tab['DR%d' % i] = row
                cov['%s.rx1' % sr] = tab
                res.require(not bad, '%s:regional:%s:rx1-table' % (pid, sr), '%s RX1 data-rate table: %s' % (sr, '; '.join(bad[:4])), r, 'ORACLE(RX1 data rate = f(uplink DR, RX1DROffset), RP002)',
                            instance='%s: RX1 data-rate table, %d uplink rates x %d offsets' % (sr, len(defined), mo + 1))
        if 'band' in groups:
            mine = sorted(p for k, ps in preds.items() if k.split('<')[0] == sr for p in ps)
            if not mine:
                raise CheckError('anchor: no frequency predicate reaches the %s arms of region::State::new (%s)' % (sr, sorted(preds)))
            if sr == 'AS923Region':
                # per group: AS923-4 is confined to 917-920 MHz, the others to the AS923 band
                for k, ps in sorted(preds.items()):
                    if k.split('<')[0] != sr:
                        continue
                    m = re.search(r'<(\d+), (\d+)>', k)
                    off = int(m.group(2)) if m else None
                    band = o['bands'][1] if off == 5_900_000 else o['bands'][0]
                    _band_rule(c, res, pid, '%s:%s' % (sr, off), r, ps, band, o['groups'].get(off, str(off)))
                    n_cells += 4
            else:
                _band_rule(c, res, pid, sr, r, mine, o['bands'][0], sr)
                n_cells += 4
        if 'channels' in groups:
            if 'fixed_channel_plans' in r:
                for meth, key in (('uplink_channels', 'uplink'), ('downlink_channels', 'downlink')):
                    arr = tables.u32_array(prog, r, FCR, meth)
                    want = o[key]
                    bad = [(i, a, w) for i, (a, w) in enumerate(zip(arr or [], want)) if a != w]
                    n_cells += len(want)
                    res.require(arr is not None and len(arr) == len(want) and not bad, '%s:regional:%s:%s' % (pid, sr, meth),
                                '%s %s differs from the regional channel plan: %s' % (sr, meth, ['channel %d: %s Hz, plan %d Hz' % b_ for b_ in bad[:3]] if arr else 'not evaluated'), r,
                                'ORACLE(channel plan frequencies)', instance='%s: %d %s frequencies = regional plan' % (sr, len(want), key))
            else:
                # default channels: init_channels run by the abstract interpreter on an all-symbolic plan; the slots it defines and their
                # frequencies (a constant, or a constant minus the AS923 group offset) are read from the resulting memory
                slots, forms = default_channel_forms(prog, r)
                for off in (sorted(o['groups']) if sr == 'AS923Region' else [0]):
                    vals = [None if k0 is None else k0 + co * off for (i_, k0, co) in forms]
                    idx = [i_ for (i_, k0, co) in forms]
                    want = [f - off for f in o['join_base']] if sr == 'AS923Region' else o['join_channels']
                    n_cells += len(want)
                    res.require(slots is not None and vals == want and idx == list(range(len(want))), '%s:regional:%s%s:default-channels' % (pid, sr, ':%d' % off if sr == 'AS923Region' else ''),
                                '%s default (join) channels %s in slots %s, regional parameters %s in slots 0..%d' % (o.get('groups', {}).get(off, sr), vals, idx, want, len(want) - 1), r, 'ORACLE(default channels)',
                                instance='%s: default channels %s' % (o.get('groups', {}).get(off, sr), want))
    if 'cr' in groups:
        bl = [b for p_, bl_ in prog.by_short.items() if p_.endswith('region::RegionHandler::get_coding_rate') for b in bl_]
        overrides = [im['self_ty'] for im in prog.impls if im.get('trait') == D + 'region::RegionHandler' and any(it['name'] == 'get_coding_rate' for it in im['items'])]
        v = None
        if len(bl) == 1 and not overrides:
            an, fr, out, rv = tables.run_fn(prog, bl[0])
            if rv is not None and rv[0] == 'adt' and rv[2] is not None and len(rv[2]) == 1:
                v = prog.adts[rv[1]]['variants'][next(iter(rv[2]))]['name']
        res.require(v == '_4_5', '%s:regional:coding-rate' % pid, 'the LoRaWAN coding rate is %s (overrides: %s), every LoRaWAN region uses 4/5' % (v, overrides), D + 'region::RegionHandler::get_coding_rate',
                    'ORACLE(coding rate 4/5)', instance='all regions: coding rate 4/5')
        n_cells += 1
    if n_cells < 20:
        raise CheckError('floor: regional oracle cells compared %d < 20' % n_cells)
    res.coverage.setdefault('regional_oracle', {}).update({'groups': sorted(groups), 'cells_compared': n_cells, 'source': 'LoRaWAN Regional Parameters RP002-1.0.x as transcribed in lrs/props/regional.py', **cov})


def _band_rule(c, res, pid, key, r, pred_paths, band, label):
    prog = c.prog
    lo, hi = band
    pts = [lo - 1, lo, hi, hi + 1]
    ok = len(pred_paths) == 1
    got = None
    if ok:
        tab = tables.bool_table(prog, prog.by_short[pred_paths[0]][0], pts)
        got = [tab[p] for p in pts]
        ok = got == [False, True, True, False]
    res.require(ok, '%s:regional:%s:band' % (pid, key), '%s: the frequency predicate %s is not the band %d..%d Hz (values at %s: %s)' % (label, [p.split('::')[-1] for p in pred_paths], lo, hi, pts, got), r,
                'ORACLE(band edges)', instance='%s: frequency predicate %s = [%d, %d] Hz' % (label, pred_paths[0].split('::')[-1] if pred_paths else None, lo, hi))
