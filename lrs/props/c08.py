"""C08 — MAC command handling is consistent and atomic (structural part).

Decides on MIR: (a) per request arm of Session::handle_downlink_macs, every state write (store to the MAC
configuration, channel-plan mutation) is guarded by every acknowledgement bit that the answer reports
(full acceptance => applied; any rejection => nothing written); for NewChannelReq / DlChannelReq the same
rule inside the channel-plan implementation relates its stores to the acknowledgement tuple it returns;
(b) the values written are the commanded ones; (c) one answer per handled request; (d) answers are appended
whole or not at all (capacity guard covers both pushes); (e) the retained ("sticky") answer set and who
clears it; (f) the RFU verdict of channel_mask_update is not discarded. Not decided: trailing-drop over
sequences, equality of resulting radio parameters."""
from ..runner import Result, CheckError
from .. import rules, flow
from ..rules import (param_by_name, one_call, term_of_operand, term_of_local, term_str, callee_name, path_conditions,
                     defs_with_conditions, cond_true, cond_false, variants_of, effects)
from ..flow import term_contains
from .common import ctx, short_site

PID = 'C08'
STICKY = {'RXParamSetupAns', 'RXTimingSetupAns', 'DlChannelAns'}


def implied(conds, ack):
    """do the path conditions imply that the boolean term `ack` is true?"""
    if ack == ('const', 1):
        return True
    for cnd in conds:
        if cnd[0] == ack and cond_true(cnd):
            return True
    # is_some(&X) / is_some(X)  <=  discr(X) == 1
    if isinstance(ack, tuple) and ack[0] == 'call' and ack[1].endswith('Option::is_some'):
        x = ack[2][0]
        if x[0] == 'ref':
            x = x[1]
        for cnd in conds:
            if cnd[0] == ('discr', x) and cnd[1] in ((1,), ('not', (0,))):
                return True
    return False


def arm_of(conds, cmd_discr_pred):
    for cnd in conds:
        if cmd_discr_pred(cnd[0]) and isinstance(cnd[1], tuple) and cnd[1] and cnd[1][0] != 'not' and len(cnd[1]) == 1:
            return cnd[1][0]
    return None


def handle_downlink_macs(c, res):
    bf = c.bf('lorawan_device::mac::session::Session::handle_downlink_macs')
    body = bf.body
    self_ = param_by_name(body, 'self'); conf = param_by_name(body, 'configuration'); region = param_by_name(body, 'region')
    var = variants_of(c.prog, 'maccommands::DownlinkMacCommand')
    inv = {v: k for k, v in var.items()}

    def is_cmd_discr(t):
        # discr((next(&iter) as Some).0)
        return isinstance(t, tuple) and t[0] == 'discr' and isinstance(t[1], tuple) and t[1][0] == 'field' and \
            term_contains(t[1], lambda x: isinstance(x, tuple) and x[:1] == ('call',) and x[1].endswith('Iterator::next'))
    arms = {}
    # ack setters
    for bb, t in bf.calls():
        cn = callee_name(t)
        nm = cn.split('::')[-1]
        if cn.startswith('lorawan::maccommandcreator') and nm.startswith('set_') and nm.endswith('_ack'):
            arm = arm_of(path_conditions(bf, bb), is_cmd_discr)
            arms.setdefault(arm, {'acks': [], 'effects': [], 'adds': []})['acks'].append((nm, term_of_operand(bf, t.args[1]), bb))
        if cn.endswith('Uplink::add_mac_command'):
            arm = arm_of(path_conditions(bf, bb), is_cmd_discr)
            arms.setdefault(arm, {'acks': [], 'effects': [], 'adds': []})['adds'].append(bb)
    for e in effects(c, bf, {conf, region}):
        arm = arm_of(path_conditions(bf, e['bb']), is_cmd_discr)
        arms.setdefault(arm, {'acks': [], 'effects': [], 'adds': []})['effects'].append(e)
    names = {inv.get(a, str(a)): v for a, v in arms.items()}
    want_arms = {'LinkADRReq', 'RXParamSetupReq', 'RXTimingSetupReq', 'NewChannelReq', 'DlChannelReq', 'DevStatusReq'}
    if not want_arms <= set(names):
        raise CheckError('handle_downlink_macs: request arms not recognised: %s' % sorted(want_arms - set(names)))
    n_eff = 0
    for an, arm in sorted(names.items()):
        for e in arm['effects']:
            conds = path_conditions(bf, e['bb'])
            what = e['callee'].split('::')[-1] if e['kind'] == 'call' else 'store ' + '.'.join(e['path'])
            n_eff += 1
            for (nm, ack, abb) in arm['acks']:
                # acks taken from the result of the effect call itself are related inside the callee (rule a')
                if e['kind'] == 'call' and term_contains(ack, lambda x: isinstance(x, tuple) and len(x) == 4 and x[0] == 'call' and x[3] == e['bb']):
                    res.ok('ACK<=RESULT', '%s: %s reports the verdict returned by %s' % (an, nm, what))
                    continue
                res.require(implied(conds, ack), 'C08:handle_downlink_macs:%s:%s-not-guarded-by-%s' % (an, what, nm),
                            '%s: state change (%s) is not guarded by the acknowledgement bit %s = %s' % (an, what, nm, term_str(ack)),
                            short_site(bf, e['bb'], e['si']), 'DOM(write => every reported ack)', instance='%s: %s guarded by %s' % (an, what, nm))
    # converse: a fully acknowledged request is always applied - the writes carry no guard beyond the arm selection,
    # the fixed-plan test and the acknowledgement bits themselves
    for an, arm in sorted(names.items()):
        for e in arm['effects']:
            conds = path_conditions(bf, e['bb'])
            what = e['callee'].split('::')[-1] if e['kind'] == 'call' else 'store ' + '.'.join(e['path'])
            extra = []
            for x in conds:
                if is_cmd_discr(x[0]):
                    continue
                if x[0][0] == 'discr' and term_contains(x[0], lambda y: isinstance(y, tuple) and y[:1] == ('call',) and y[1].endswith('Iterator::next')) and x[0][1][0] == 'call':
                    continue   # while let Some(cmd) = iter.next()
                if x[0][0] == 'call' and x[0][1].endswith('has_fixed_channel_plan'):
                    continue
                if x[0][0] == 'discr' and x[0][1][0] == 'call' and x[0][1][1].endswith('Peekable::peek'):
                    continue   # last request of a LinkADRReq block
                if x[0][0] == 'discr' and x[0][1][0] == 'field' and term_contains(x[0], lambda y: isinstance(y, tuple) and y[:1] == ('call',) and y[1].endswith('Peekable::peek')):
                    continue
                if any(implied([x], ack) for (nm, ack, abb) in arm['acks']):
                    continue
                fm = rules.flag_meaning(bf, x)
                if fm is not None and fm[1] and all(y[0][0] == 'discr' and term_contains(y[0], lambda z: isinstance(z, tuple) and z[:1] == ('call',) and z[1].endswith('Peekable::peek')) for y in fm[1]):
                    continue   # the same "last request of a block" test through a `matches!` flag
                extra.append(x)
            res.require(not extra, 'C08:handle_downlink_macs:%s:%s-extra-guard' % (an, what),
                        '%s: a fully acknowledged request is not always applied (%s has an extra guard %s)' % (an, what, [(term_str(x[0]), x[1]) for x in extra]),
                        short_site(bf, e['bb'], e['si']), 'EXACT-GUARD(write <=> all acks)', instance='%s: %s applied whenever every ack is set' % (an, what))
    if n_eff < 9:
        raise CheckError('floor: state effects in handle_downlink_macs %d < 9' % n_eff)
    # (b) provenance of stored values
    def stores(field):
        return [(bb, si, s) for bb, si, s, root, path in bf.field_writes() if root == conf and path == [field]]

    def payload_of(t, variant):
        return term_contains(t, lambda x: isinstance(x, tuple) and x[:1] == ('as',) and x[2] == variant)
    for field, chk, desc in (
        ('rx2_frequency', lambda v: v[0] == 'agg' and v[1].endswith('Option::Some') and v[2][0][1][0] == 'call' and v[2][0][1][1].endswith('Frequency::value')
         and payload_of(v, 'RXParamSetupReq'), 'Some(payload.frequency().value())'),
        ('rx1_delay', lambda v: v[0] == 'call' and v[1].endswith('mac::del_to_delay_ms') and v[2][0][0] == 'call' and v[2][0][1].endswith('RXTimingSetupReqPayload::delay')
         and payload_of(v, 'RXTimingSetupReq'), 'del_to_delay_ms(payload.delay())'),
        ('rx1_dr_offset', lambda v: v[0] == 'field' and v[1][0] == 'as' and v[1][2] == 'Some' and v[1][1][0] == 'call' and v[1][1][1].endswith('rx1_dr_offset_validate')
         and term_contains(v, lambda x: isinstance(x, tuple) and x[:1] == ('call',) and x[1].endswith('DLSettings::rx1_dr_offset')), 'validated payload.dl_settings().rx1_dr_offset()'),
    ):
        st = stores(field)
        if len(st) != 1:
            raise CheckError('handle_downlink_macs: expected one store to configuration.%s, found %d' % (field, len(st)))
        bb, si, s = st[0]
        v = term_of_operand(bf, s.rv.ops[0]) if s.rv.k == 'use' else rules.defs_with_conditions(bf, s.lhs.local)[0][0] if False else rv_term(bf, s.rv)
        res.require(chk(v), 'C08:handle_downlink_macs:%s-value' % field, 'configuration.%s is not set to %s: %s' % (field, desc, term_str(v)),
                    short_site(bf, bb, si), 'PROVENANCE(%s)' % field, instance='configuration.%s = %s' % (field, desc))
    # data_rate / rx2_data_rate / tx_power come from an Option local: Some(commanded) under validity, Some(current) for 15 ("keep")
    for field, getter, keepfield, validity in (('data_rate', 'LinkADRReqPayload::data_rate', 'data_rate', 'get_datarate'),
                                              ('rx2_data_rate', 'DLSettings::rx2_data_rate', 'rx2_data_rate', 'get_datarate'),
                                              ('tx_power', 'LinkADRReqPayload::tx_power', 'tx_power', 'check_tx_power')):
        st = stores(field)
        if len(st) != 1:
            raise CheckError('handle_downlink_macs: expected one store to configuration.%s' % field)
        bb, si, s = st[0]
        v = term_of_operand(bf, s.rv.ops[0])
        if not (v[0] == 'field' and v[1][0] == 'as' and v[1][2] == 'Some' and v[1][1][0] == 'phi'):
            res.violation('C08:handle_downlink_macs:%s-value' % field, 'configuration.%s stored from %s' % (field, term_str(v)), short_site(bf, bb, si), 'PROVENANCE(%s)' % field)
            continue
        ph = v[1][1][1]
        okd = True
        detail = []
        for (dv, cs) in rules.value_cases(bf, ('phi', ph)):
            detail.append(term_str(dv))
            if dv == ('agg', 'core::option::Option::None', ()):
                continue
            if dv[0] == 'agg' and dv[1].endswith('Option::Some'):
                inner = dv[2][0][1]
                if inner == ('field', ('deref', ('param', conf)), keepfield):
                    # "keep" arm: only under the value 15
                    continue
                # Some(n) / Some(Some(n)): n is the commanded value, guarded by the region's validity test of the same n
                n = inner
                if n[0] == 'agg' and n[1].endswith('Option::Some'):
                    n = n[2][0][1]
                def validated(x):
                    k_ = rules.option_known(x)
                    return k_ is not None and k_[1] and isinstance(k_[0], tuple) and k_[0][:1] == ('call',) and k_[0][1].endswith('Configuration::' + validity) \
                        and term_contains(k_[0][2][1], lambda z: z == n)
                g = any(validated(x) for x in cs)
                src = n[0] == 'call' and n[1].endswith(getter)
                if not (g and src):
                    okd = False
            elif dv[0] == 'call' and dv[1].endswith('Configuration::' + validity):
                # pw = region.check_tx_power(p as u8): Option from the validity function itself
                if not term_contains(dv, lambda y: isinstance(y, tuple) and y[:1] == ('call',) and y[1].endswith(getter)):
                    okd = False
            else:
                okd = False
        res.require(okd, 'C08:handle_downlink_macs:%s-value' % field, 'configuration.%s candidates are not {commanded value under its validity test, current value}: %s' % (field, detail),
                    short_site(bf, bb, si), 'PROVENANCE(%s)' % field, instance='configuration.%s <- commanded %s() validated by %s, or kept' % (field, getter.split('::')[-1], validity))
    # FRESH-READ: the "current" value a request keeps (data rate / TX power 0xF) is the one in force when that request is handled - a read of
    # configuration.<field> whose value is still used after the handler stored to the field must be repeatable after the store (it lies
    # inside the command loop). A snapshot taken before the loop goes stale once an earlier LinkADRReq block of the same downlink is
    # applied: a later block that "keeps" would write the old value back although both answers report success.
    for field in ('data_rate', 'tx_power'):
        st = stores(field)
        if len(st) != 1:
            continue
        sbb = st[0][0]
        for b_ in body.blocks:
            if b_.cleanup:
                continue
            for s_ in b_.stmts:
                if not (s_.k == 'assign' and s_.rv.k == 'use' and s_.rv.ops[0].place is not None and not s_.lhs.proj):
                    continue
                pl = s_.rv.ops[0].place
                fnames = pl.field_names()
                if pl.local != conf or fnames != [field]:
                    continue
                # locals that carry this value on (copies, tuples, projections of those)
                derived = {s_.lhs.local}
                changed = True
                while changed:
                    changed = False
                    for b2 in body.blocks:
                        if b2.cleanup:
                            continue
                        for s2 in b2.stmts:
                            if s2.k == 'assign' and not s2.lhs.proj and s2.lhs.local not in derived and s2.rv.k in ('use', 'agg') and \
                                    any(o.place is not None and o.place.local in derived for o in s2.rv.ops):
                                derived.add(s2.lhs.local)
                                changed = True
                use_bbs = set()
                for b2 in body.blocks:
                    if b2.cleanup:
                        continue
                    ops = [o for s2 in b2.stmts if s2.k == 'assign' for o in s2.rv.ops] + (list(b2.term.args) if b2.term.k == 'call' else []) + ([b2.term.discr] if b2.term.k == 'switch' else [])
                    if any(o is not None and o.place is not None and o.place.local in derived for o in ops):
                        use_bbs.add(b2.idx)
                stale = [u for u in use_bbs if bf.cfg.can_reach(sbb, u)] if not bf.cfg.can_reach(sbb, b_.idx) else []
                res.require(not stale, 'C08:handle_downlink_macs:%s:stale-current-value' % field,
                            'configuration.%s is read once before the command loop and that value is still used after a request has stored a new one: a later LinkADRReq that keeps the %s (0xF) writes the old value back, '
                            'undoing a request answered with full acceptance' % (field, field.replace('_', ' ')), short_site(bf, b_.idx), 'FRESH-READ(value in force when the request is handled)',
                            instance='handle_downlink_macs: configuration.%s read where it is used (repeatable after the store)' % field)
    # FRESH-TRIAL-MASK: the trial mask a LinkADRReq block edits starts from the mask in force. Once a block has been answered (accepted or
    # rejected), no later channel_mask_update may be reached without the trial mask having been read again from the region: otherwise the
    # edits of a rejected block are carried into a later block of the same downlink and applied with it ("any rejection has changed nothing").
    gets = [(bb, t) for bb, t in bf.calls() if callee_name(t).endswith('Configuration::channel_mask_get')]
    upd = [bb for bb, t in bf.calls() if callee_name(t).endswith('Configuration::channel_mask_update')]
    ends = [bb for bb, t in bf.calls() if callee_name(t).endswith('LinkADRAnsCreator::new')]
    if not gets or not upd or not ends:
        raise CheckError('anchor: channel_mask_get / channel_mask_update / LinkADRAnsCreator::new in handle_downlink_macs')
    get_bbs = {bb for bb, t in gets}
    leak = []
    for e in ends:
        seen, todo = set(), [e]
        while todo:
            n_ = todo.pop()
            for m_ in bf.cfg.succ[n_]:
                if m_ in seen or m_ in get_bbs or body.blocks[m_].cleanup:
                    continue
                seen.add(m_)
                todo.append(m_)
        if any(u in seen for u in upd):
            leak.append(e)
    res.require(not leak, 'C08:handle_downlink_macs:LinkADRReq:trial-mask-not-fresh',
                'after a LinkADRReq block has been answered, the next block\'s channel_mask_update can be reached without re-reading the mask in force (channel_mask_get): the mask edits of a rejected block '
                'are applied together with a later accepted block of the same downlink', short_site(bf, leak[0]) if leak else bf.body.path, 'MUST-PASS(block answered -> channel_mask_get -> next channel_mask_update)',
                instance='LinkADRReq: every block starts from the mask in force (trial mask re-read after each block)')
    # channel_mask_set receives the trial copy that was validated
    for bb, t in bf.calls_to('Configuration::channel_mask_set'):
        a = term_of_operand(bf, t.args[1])
        vb = bf.calls_to('Configuration::channel_mask_validate')
        same = len(vb) == 1 and term_contains(a, lambda x: x == term_of_operand(bf, vb[0][1].args[1])[1] if term_of_operand(bf, vb[0][1].args[1])[0] == 'ref' else False)
        res.require(same, 'C08:handle_downlink_macs:LinkADRReq:mask-set-value', 'channel_mask_set is not given the validated trial mask: %s' % term_str(a),
                    short_site(bf, bb), 'SAME-VALUE(mask)', instance='channel_mask_set(clone of the validated trial mask)')
    # the trial mask is a local copy: channel_mask_update never receives a reference into region state
    for bb, t in bf.calls_to('Configuration::channel_mask_update'):
        root, path = bf.root_of_operand(t.args[1])
        res.require(root not in (self_, conf, region), 'C08:handle_downlink_macs:LinkADRReq:trial-mask-aliases-state', 'channel_mask_update edits region state directly',
                    short_site(bf, bb), 'EFFECT(trial copy)', instance='channel_mask_update works on a local copy')
        # (f) RFU verdict not discarded
        used = False
        d = t.dest.local
        for b2 in body.blocks:
            if b2.cleanup:
                continue
            for s2 in b2.stmts:
                if s2.k == 'assign' and any(o.place is not None and o.place.local == d for o in s2.rv.ops) or (s2.k == 'assign' and s2.rv.place is not None and s2.rv.place.local == d):
                    used = True
            t2 = b2.term
            if t2.k == 'call' and any(a.place is not None and a.place.local == d for a in t2.args):
                used = True
            if t2.k == 'switch' and t2.discr.place is not None and t2.discr.place.local == d:
                used = True
        res.require(used, 'C08:handle_downlink_macs:LinkADRReq:rfu-verdict-discarded',
                    'the Option returned by channel_mask_update (None = reserved ChMaskCntl) is discarded, so reserved values are acknowledged', short_site(bf, bb),
                    'NO-DISCARD(channel_mask_update)', instance='channel_mask_update verdict is used')
    # (f') the verdict accumulates over the whole LinkADRReq block: the flag tested for the channel-mask ack is
    # cleared on a reserved ChMaskCntl and only re-armed before the loop and after the block's answers were queued
    accumulate_rule(c, res, bf, is_cmd_discr, var)
    # (c) one answer per handled request
    for an in ('DevStatusReq', 'DlChannelReq', 'NewChannelReq', 'RXParamSetupReq', 'RXTimingSetupReq', 'LinkADRReq'):
        adds = names[an]['adds']
        res.require(len(adds) == 1, 'C08:handle_downlink_macs:%s:answer-count' % an, '%s has %d add_mac_command sites (expected 1)' % (an, len(adds)), None,
                    'EXACTLY-ONCE(answer)', instance='%s: exactly one answer site' % an)
    # arms without an answer must not change state
    for an, arm in names.items():
        if not arm['adds'] and arm['effects']:
            res.violation('C08:handle_downlink_macs:%s:state-change-without-answer' % an, 'state changed without queuing an answer', None, 'EXACTLY-ONCE(answer)')
    # LinkADR: number of answers = number of requests in the block
    la = names['LinkADRReq']['adds'][0] if names['LinkADRReq']['adds'] else None
    if la is not None:
        conds = path_conditions(bf, la)
        rng = [x for x in conds if x[0][0] == 'discr' and term_contains(x[0], lambda y: isinstance(y, tuple) and y[:1] == ('agg',) and y[1].endswith('Range'))]
        okc = False
        if rng:
            r = rules.find_in_term(rng[0][0], lambda y: isinstance(y, tuple) and y[:1] == ('agg',) and y[1].endswith('Range'))
            d = dict(r[2])
            if d.get('start') == ('const', 0) and d.get('end', ('x',))[0] == 'phi':
                cnt = d['end'][1]
                dl = defs_with_conditions(bf, cnt)
                kinds = sorted(term_str(v) for v, cs, bb in dl)
                incs = [(v, cs) for v, cs, bb in dl if v[0] in ('Add', 'AddWithOverflow') or (v[0] == 'field' and False)]
                # defs: 0 (init), +1 per LinkADRReq, 0 after the answers
                n0 = sum(1 for v, cs, bb in dl if v == ('const', 0))
                n1 = 0
                for (dbb, dsi, kind, obj) in bf.whole_defs(cnt):
                    if kind == 'stmt' and obj.rv.k == 'use' and obj.rv.ops[0].place is not None:
                        tt = term_of_operand(bf, obj.rv.ops[0])
                        if tt[0] == 'Add' and tt[2] == ('const', 1) and arm_of(path_conditions(bf, dbb), is_cmd_discr) == var['LinkADRReq']:
                            n1 += 1
                okc = n0 == 2 and n1 == 1 and len(dl) == 3
        if not okc:
            okc = _countdown_answers(bf, la, is_cmd_discr, var)
        res.require(okc, 'C08:handle_downlink_macs:LinkADRReq:answer-multiplicity', 'LinkADRAns copies are not counted per request', short_site(bf, la),
                    'SHAPE(for _ in 0..num_adrreq)', instance='LinkADRAns repeated num_adrreq times; counter +1 per request, reset after the block')
    res.coverage['arms'] = {k: {'acks': [a[0] for a in v['acks']], 'effects': len(v['effects']), 'answers': len(v['adds'])} for k, v in names.items()}


def _countdown_answers(bf, la, is_cmd_discr, var):
    """`while n > 0 { queue answer; n -= 1 }`: the answers are queued in a loop entered while the request counter is positive,
    each round takes one off, the counter is +1 per LinkADRReq and starts at 0 (it is 0 again when the loop is left)"""
    loops = bf.cfg.natural_loops()
    inner = [h for h, bl in loops.items() if la in bl]
    if not inner:
        return False
    h = min(inner, key=lambda x: len(loops[x]))
    blks = loops[h]
    conds = [x for x in path_conditions(bf, la) if x[0][0] in ('Gt', 'Ne', 'Lt') and cond_true(x)]
    cnt = None
    for x in conds:
        a_, b_ = x[0][1], x[0][2]
        if x[0][0] in ('Gt', 'Ne') and b_ == ('const', 0) and a_[:1] == ('phi',):
            cnt = a_[1]
        if x[0][0] == 'Lt' and a_ == ('const', 0) and b_[:1] == ('phi',):
            cnt = b_[1]
    if cnt is None:
        return False
    kinds = []
    for v, cs, bb in defs_with_conditions(bf, cnt):
        lin = rules.linear(v)
        if v == ('const', 0):
            kinds.append('zero' if bb not in blks else 'other')
        elif lin == ({('phi', cnt): 1}, 1) and bb not in blks and arm_of(path_conditions(bf, bb), is_cmd_discr) == var['LinkADRReq']:
            kinds.append('inc')
        elif lin == ({('phi', cnt): 1}, -1) and bb in blks and bf.cfg.can_reach(la, bb):
            kinds.append('dec')
        else:
            kinds.append('other')
    return sorted(set(kinds)) == ['dec', 'inc', 'zero'] and kinds.count('inc') == 1 and kinds.count('dec') == 1


def accumulate_rule(c, res, bf, is_cmd_discr, var):
    body = bf.body
    acks = [(bb, t) for bb, t in bf.calls() if callee_name(t).endswith('set_channel_mask_ack')]
    if len(acks) != 1:
        raise CheckError('handle_downlink_macs: set_channel_mask_ack call not unique')
    a = term_of_operand(bf, acks[0][1].args[1])
    upd = bf.calls_to('Configuration::channel_mask_update')
    if len(upd) != 1:
        raise CheckError('handle_downlink_macs: channel_mask_update call not unique')
    ubb, ut = upd[0]
    none_edges = bf.err_edges(ut.dest.local)
    # find the flag: a condition of the validate(..) alternative of the ack
    flag = None
    if a[0] == 'phi':
        for v, cs, bb in defs_with_conditions(bf, a[1]):
            if v[0] == 'call' and v[1].endswith('channel_mask_validate'):
                for x in cs:
                    if cond_true(x) and x[0][0] == 'phi' and not is_cmd_discr(x[0]):
                        flag = x[0][1]
    key = 'C08:handle_downlink_macs:LinkADRReq:rfu-verdict-not-accumulated'
    if flag is None:
        res.violation(key, 'the channel-mask acknowledgement does not depend on a block-wide "all ChMaskCntl defined" flag (a reserved value in an earlier '
                      'LinkADRReq of the block is forgotten): ack = %s' % term_str(a), short_site(bf, acks[0][0]), 'ACCUMULATE(block verdict)')
        return
    dl = defs_with_conditions(bf, flag)
    loops = bf.cfg.natural_loops()
    # the command loop: the loop containing the channel_mask_update call
    outer = None
    for h, blks in loops.items():
        if ubb in blks and (outer is None or len(blks) > len(loops[outer])):
            outer = h
    clears = [(v, cs, bb) for v, cs, bb in dl if v == ('const', 0)]
    arms = [(v, cs, bb) for v, cs, bb in dl if v == ('const', 1)]
    others = [(v, cs, bb) for v, cs, bb in dl if v not in (('const', 0), ('const', 1))]

    def is_and_step(v):
        # flag &= update(..).is_some(): the same accumulation without a branch
        if not (isinstance(v, tuple) and v[0] == 'BitAnd'):
            return False
        x_, y_ = v[1], v[2]
        if x_ != ('phi', flag):
            x_, y_ = y_, x_
        return x_ == ('phi', flag) and isinstance(y_, tuple) and y_[:1] == ('call',) and y_[1].endswith('Option::is_some') and \
            term_contains(y_, lambda z: isinstance(z, tuple) and len(z) == 4 and z[0] == 'call' and z[3] == ubb)
    def is_and_phi(v):
        # flag = flag && update(..).is_some(): the short-circuit form - a merged value whose alternatives are `false` (on the side where the flag
        # was already false) and the verdict of this request's update
        if not (isinstance(v, tuple) and v[:1] == ('phi',) and v[1] != flag):
            return False
        try:
            cases = rules.value_cases(bf, v)
        except Exception:
            return False
        seen_step = False
        for dv, cs in cases:
            if dv == ('const', 0) or dv == ('phi', flag):
                continue
            if isinstance(dv, tuple) and dv[:1] == ('call',) and dv[1].endswith('Option::is_some') and \
                    term_contains(dv, lambda z: isinstance(z, tuple) and len(z) == 4 and z[0] == 'call' and z[3] == ubb):
                seen_step = True
                continue
            return False
        return seen_step
    steps = [o for o in others if is_and_step(o[0]) or is_and_phi(o[0])]
    others = [o for o in others if not (is_and_step(o[0]) or is_and_phi(o[0]))]
    okc = (len(clears) >= 1 or len(steps) >= 1) and all(bf.guarded_by_edges(bb, none_edges) for v, cs, bb in clears) and not others
    # re-arming: outside the loop, or in a block dominated by the queuing of the answers (the reset of the request counter)
    adds = [bb for bb, t in bf.calls() if callee_name(t).endswith('Uplink::add_mac_command') and rules.path_conditions(bf, bb) and
            any(is_cmd_discr(x[0]) and x[1] == (var['LinkADRReq'],) for x in rules.path_conditions(bf, bb))]
    oka = True
    for v, cs, bb in arms:
        inside = outer is not None and bb in loops[outer]
        if inside:
            # must come after the answer loop of the block: the answer site can reach it, and it cannot reach the answer site again without a new request
            if not adds or not bf.cfg.can_reach(adds[0], bb) or not any(is_cmd_discr(x[0]) and x[1] == (var['LinkADRReq'],) for x in cs):
                oka = False
            # and not before the block is answered: every path from the update to the re-arming passes the answer loop
            ans_loop = [b2 for b2, t2 in bf.calls() if callee_name(t2).endswith('Iterator::next') and
                        any(is_cmd_discr(x[0]) and x[1] == (var['LinkADRReq'],) for x in rules.path_conditions(bf, b2)) and
                        term_contains(term_of_operand(bf, t2.args[0]), lambda y: isinstance(y, tuple) and y[:1] == ('agg',) and y[1].endswith('Range'))]
            if not ans_loop and adds:
                # a counting `while` instead of `for _ in 0..n`: the header of the innermost loop around the queuing of the answers
                inner = [h_ for h_, bl_ in loops.items() if adds[0] in bl_ and h_ != outer]
                if inner:
                    ans_loop = [min(inner, key=lambda h_: len(loops[h_]))]
            if not ans_loop or bf.cfg.can_reach(ubb, bb, skip_nodes=ans_loop):
                oka = False
    res.require(okc and oka and arms, key, 'the block-wide verdict flag is not accumulated correctly (clears under None: %s, re-armed only outside the block: %s, other definitions: %s)'
                % (okc, oka, [term_str(v) for v, _, _ in others]), short_site(bf, ubb), 'ACCUMULATE(block verdict)',
                instance='LinkADRReq block: reserved ChMaskCntl in any request clears the verdict until the block is answered')


def rv_term(bf, rv):
    if rv.k == 'use':
        return term_of_operand(bf, rv.ops[0])
    if rv.k == 'agg' and rv.d.get('ak') == 'adt':
        nm = flow.strip_generics(rv.d['adt']) + ('::' + rv.d['variant'] if rv.d.get('is_enum') else '')
        fl = rv.d.get('fields', [])
        return ('agg', nm, tuple((fl[i] if i < len(fl) else str(i), term_of_operand(bf, o)) for i, o in enumerate(rv.ops)))
    return ('other', rv.k)


def plan_function(c, res, fn, short):
    """rule (a'): in a channel-plan function returning the acknowledgement tuple, every mutation of the plan is
    followed only by returns whose tuple elements are implied true"""
    bf = c.bf(fn)
    body = bf.body
    self_ = param_by_name(body, 'self')
    evs = effects(c, bf, {self_})
    if not evs:
        raise CheckError('floor: no plan mutation found in %s' % fn)
    # return sites
    rets = []
    for b in body.blocks:
        if b.cleanup or b.idx not in bf.cfg.reach:
            continue
        for si, s in enumerate(b.stmts):
            if s.k == 'assign' and s.lhs.is_local() and s.lhs.local == 0 and s.rv.k == 'agg' and s.rv.d['ak'] == 'tuple':
                rets.append((b.idx, si, [term_of_operand(bf, o) for o in s.rv.ops]))
    if len(rets) < 2:
        raise CheckError('floor: return sites of %s' % fn)
    for e in evs:
        what = e['callee'].split('::')[-1] if e['kind'] == 'call' else 'store ' + '.'.join(e['path'])
        reach = bf.cfg.reachable_from(e['bb'])
        for (rbb, rsi, elems) in rets:
            if rbb not in reach:
                continue
            conds = path_conditions(bf, rbb) + path_conditions(bf, e['bb'])
            for i, el in enumerate(elems):
                res.require(implied(conds, el), 'C08:%s:%s-with-nak-%d' % (short, what, i),
                            '%s: plan mutation (%s) on a path that reports acknowledgement[%d] = %s, which is not known to be true there' % (short, what, i, term_str(el)),
                            short_site(bf, e['bb'], e['si']), "DOM(write => returned acks true)", instance='%s: %s only with ack[%d] true' % (short, what, i))


def _is_call(t, suffix):
    return isinstance(t, tuple) and len(t) >= 3 and t[0] == 'call' and t[1].endswith(suffix)


def plan_values(c, res, fn_dl, fn_new):
    """rule (b'): the channel-plan functions store exactly the commanded values. DlChannelReq: the slot `index` gets
    its own channel back with dl_frequency = Some(freq), or None only when freq equals that channel's uplink
    frequency (the two are equivalent for RX1); NewChannelReq: slot `index` becomes None only for freq == 0 (and the
    mask bit is cleared), else Some(Channel::new_with_dr(freq, the commanded range)) with the mask bit set."""
    bf = c.bf(fn_dl)
    body = bf.body
    self_, idx, freq = param_by_name(body, 'self'), param_by_name(body, 'index'), param_by_name(body, 'freq')
    slot = ('index', ('field', ('deref', ('param', self_)), 'channels'), ('cast', 'usize', ('param', idx), 'u8'))
    stores = []
    for b in body.blocks:
        if b.cleanup or b.idx not in bf.cfg.reach:
            continue
        for si, s in enumerate(b.stmts):
            if s.k == 'assign' and s.lhs.proj:
                root, path = bf.root_of_place(s.lhs)
                stores.append((b.idx, si, root, path, s))
    slot_st = [x for x in stores if x[2] == self_ and x[3][:1] == ['channels']]
    ok = len(slot_st) == 1 and flow.term_of_place(bf, slot_st[0][4].lhs) == slot
    why = 'the store into the channel table is not the single store to channels[index]'
    if ok:
        v = rv_term(bf, slot_st[0][4].rv)
        ok = v[0] == 'agg' and v[1].endswith('Option::Some') and v[2][0][1][0] == 'phi'
        why = 'the stored slot is not Some(the modified copy of the channel)'
    if ok:
        ch = v[2][0][1][1]
        defs = rules.defs_with_conditions(bf, ch)
        ok = len(defs) == 1 and defs[0][0] == ('field', ('as', slot, 'Some'), '0')
        why = 'the channel written back is not a copy of channels[index]'
    if ok:
        fst = [x for x in stores if x[2] == ch]
        ok = len(fst) == 1 and fst[0][3] == ['dl_frequency'] and fst[0][4].rv.k == 'use'
        why = 'fields other than dl_frequency of the channel are modified'
    if ok:
        val = term_of_operand(bf, fst[0][4].rv.ops[0])
        chf = ('field', ('phi', ch), 'frequency')
        for dv, cs in rules.value_cases(bf, val, path_conditions(bf, fst[0][0])):
            if dv == ('agg', 'core::option::Option::Some', (('0', ('param', freq)),)):
                continue
            if dv == ('agg', 'core::option::Option::None', ()) and rules.implies_order(cs, '==', ('param', freq), chf):
                continue
            ok = False
            why = 'dl_frequency := %s under %s' % (term_str(dv), [term_str(x[0]) for x in cs][-1:])
    res.require(ok, 'C08:DynamicChannelPlan::channel_dl_update:commanded-value', 'DlChannelReq does not take effect exactly as commanded: ' + why, body.path,
                'PROVENANCE(dl_frequency)', instance='channel_dl_update: channels[index].dl_frequency = Some(freq), or None only when freq is the uplink frequency of that channel; nothing else changes')
    # ---- NewChannelReq
    bf = c.bf(fn_new)
    body = bf.body
    self_, idx, freq, dr = (param_by_name(body, n) for n in ('self', 'index', 'freq', 'dr'))
    slot = ('index', ('field', ('deref', ('param', self_)), 'channels'), ('cast', 'usize', ('param', idx), 'u8'))
    n_none = n_some = 0
    ok, why = True, ''
    for b in body.blocks:
        if b.cleanup or b.idx not in bf.cfg.reach:
            continue
        for si, s in enumerate(b.stmts):
            if not (s.k == 'assign' and s.lhs.proj):
                continue
            root, path = bf.root_of_place(s.lhs)
            if root != self_:
                continue
            v = rv_term(bf, s.rv)
            cs = path_conditions(bf, b.idx)
            if path[:1] != ['channels'] or flow.term_of_place(bf, s.lhs) != slot:
                ok, why = False, 'store to %s' % term_str(flow.term_of_place(bf, s.lhs))
            elif v == ('agg', 'core::option::Option::None', ()):
                n_none += 1
                if not any(x[0] == ('Eq', ('param', freq), ('const', 0)) and cond_true(x) for x in cs):
                    ok, why = False, 'channel removed without freq == 0'
            elif v[0] == 'agg' and v[1].endswith('Option::Some') and _is_call(v[2][0][1], 'Channel::new_with_dr') and \
                    tuple(v[2][0][1][2]) == (('param', freq), ('field', ('as', ('param', dr), 'Some'), '0')):
                n_some += 1
            else:
                ok, why = False, 'channels[index] := %s' % term_str(v)
        t = b.term
        if t.k == 'call' and callee_name(t).endswith('ChannelMask::set_channel'):
            a = [term_of_operand(bf, x) for x in t.args]
            on = a[2]
            cs = path_conditions(bf, b.idx)
            removed = any(x[0] == ('Eq', ('param', freq), ('const', 0)) and cond_true(x) for x in cs)
            if a[1] != ('cast', 'usize', ('param', idx), 'u8') or on != ('const', 0 if removed else 1):
                ok, why = False, 'set_channel(%s, %s) %s' % (term_str(a[1]), term_str(on), 'on the removal path' if removed else 'on the creation path')
    ok = ok and n_none == 1 and n_some == 1
    res.require(ok, 'C08:DynamicChannelPlan::handle_new_channel:commanded-value', 'NewChannelReq does not take effect exactly as commanded: %s (removals %d, creations %d)' % (why, n_none, n_some), body.path,
                'PROVENANCE(channel slot, mask bit)', instance='handle_new_channel: channels[index] = None (mask bit off) only for freq 0, else Channel::new_with_dr(freq, commanded range) (mask bit on)')


def add_mac_command(c, res):
    bf = c.bf('lorawan_device::mac::uplink::Uplink::add_mac_command')
    body = bf.body
    self_ = param_by_name(body, 'self')
    evs = effects(c, bf, {self_})
    if len(evs) != 2:
        raise CheckError('add_mac_command: expected 2 appends, found %d' % len(evs))
    for e in evs:
        conds = path_conditions(bf, e['bb'])
        g = False
        for x in conds:
            if cond_true(x) and x[0][0] == 'Lt':
                co, k = rules.linear(x[0][1])
                lim = x[0][2]
                names = sorted(term_str(a) for a in co)
                g = lim == ('const', 15) and k == 0 and len(co) == 2 and all(v == 1 for v in co.values()) and any('len' in n for n in names) and any('payload_len' in n for n in names)
        res.require(g, 'C08:add_mac_command:append-unguarded:%s' % e['callee'].split('::')[-1], 'append not under the capacity guard len + payload_len < 15',
                    short_site(bf, e['bb']), 'DOM(append => capacity)', instance='add_mac_command: %s under len + payload_len < 15' % e['callee'].split('::')[-1])
    # both appends on the same paths (all or nothing): the second post-dominates the first
    a, b = sorted(e['bb'] for e in evs)
    res.require(bf.cfg.dominates(a, b) and not bf.returns_reachable(a, avoid_nodes=[b]), 'C08:add_mac_command:partial-append', 'CID can be appended without its payload',
                short_site(bf, a), 'MPT(push cid -> extend payload)', instance='add_mac_command: cid and payload appended together')
    # payload bytes and cid come from the same command
    ts = [term_of_operand(bf, e['term'].args[1]) for e in evs]
    res.require(all(term_contains(t, lambda x: x == ('param', 2)) for t in ts), 'C08:add_mac_command:source', 'appended bytes are not the command\'s cid/payload', None,
                'PROVENANCE', instance='add_mac_command appends cmd.cid() then cmd.payload_bytes()')


def sticky(c, res):
    var = variants_of(c.prog, 'maccommands::UplinkMacCommand')
    inv = {v: k for k, v in var.items()}
    # the selection is a switch on the discriminant of an UplinkMacCommand: in a filter closure (variants that return true) or
    # in clear_mac_commands itself (variants from which the copy into the new vector is reached before the next command)
    FN = 'lorawan_device::mac::uplink::Uplink::clear_mac_commands'
    cands = [FN] + sorted(p for p in c.prog.by_short if p.startswith(FN + '::{closure'))
    found = []
    for p in cands:
        cbf = c.bf(p)
        for b_ in cbf.body.blocks:
            if b_.cleanup or b_.idx not in cbf.cfg.reach or b_.term.k != 'switch' or b_.term.discr.place is None:
                continue
            rv_ = cbf.single_rvalue(b_.term.discr.place.local) if b_.term.discr.place.is_local() else None
            if rv_ is not None and rv_.k == 'discr' and flow.strip_generics(rv_.place.ty or '').lstrip('&').strip().endswith('maccommands::UplinkMacCommand') and len(b_.term.targets) >= 2:
                found.append((cbf, b_))
    if len(found) > 1:
        # keep the switch that decides: its edges differ in whether the copy is reached
        def decides(cbf, b_):
            cps = [bb_ for bb_, t_ in cbf.calls() if callee_name(t_).endswith(('::push', '::extend_from_slice'))]
            outs = {tgt for _, tgt in b_.term.targets} | {b_.term.otherwise}
            r_ = {any(cbf.cfg.can_reach(o_, x, skip_nodes={b_.idx}) for x in cps) for o_ in outs}
            return len(r_) == 2
        found = [f for f in found if '{closure' in f[0].body.path or decides(*f)]
    if len(found) != 1:
        raise CheckError('sticky selection: expected one switch on the command kind, found %d' % len(found))
    cb, swb = found[0]
    body = cb.body
    sw = [swb]
    t = swb.term
    kept = set()

    def ret_const(bb):
        seen = set()
        while bb not in seen:
            seen.add(bb)
            for s in body.blocks[bb].stmts:
                if s.k == 'assign' and s.lhs.is_local() and s.lhs.local == 0 and s.rv.k == 'use' and s.rv.ops[0].const_int() is not None:
                    return s.rv.ops[0].const_int()
            if body.blocks[bb].term.k == 'goto':
                bb = body.blocks[bb].term.target
            else:
                break
        return None
    copy_bbs = [bb_ for bb_, t_ in cb.calls() if callee_name(t_).endswith(('::push', '::extend_from_slice'))]

    def selected(tgt):
        if '{closure' in body.path:
            return ret_const(tgt) == 1
        # follow the straight-line continuation of this edge, resolving switches on flags it has just set (`matches!` lowers to
        # a flag assignment followed by a switch on the flag)
        env, cur, seen_ = {}, tgt, set()
        while cur not in seen_:
            seen_.add(cur)
            blk = body.blocks[cur]
            for s_ in blk.stmts:
                if s_.k == 'assign' and s_.lhs.is_local():
                    if s_.rv.k == 'use' and s_.rv.ops[0].const_int() is not None:
                        env[s_.lhs.local] = s_.rv.ops[0].const_int()
                    elif s_.rv.k == 'use' and s_.rv.ops[0].place is not None and s_.rv.ops[0].place.is_local() and s_.rv.ops[0].place.local in env:
                        env[s_.lhs.local] = env[s_.rv.ops[0].place.local]
                    else:
                        env.pop(s_.lhs.local, None)
            t_ = blk.term
            if t_.k == 'goto':
                cur = t_.target
            elif t_.k == 'switch' and t_.discr.place is not None and t_.discr.place.is_local() and t_.discr.place.local in env:
                val = env[t_.discr.place.local]
                nxt = [tg for v_, tg in t_.targets if v_ == val]
                cur = nxt[0] if nxt else t_.otherwise
            else:
                break
        return any(cb.cfg.can_reach(cur, x, skip_nodes={swb.idx}) for x in copy_bbs)
    for v, tgt in t.targets:
        if selected(tgt):
            kept.add(inv.get(v, str(v)))
    if selected(t.otherwise):
        kept |= set(var) - {inv.get(v) for v, _ in t.targets}
    res.require(kept == STICKY, 'C08:clear_mac_commands:sticky-set', 'retained answers are %s, expected %s' % (sorted(kept), sorted(STICKY)), short_site(cb, sw[0].idx),
                'DTABLE(sticky set)', instance='retained answers = {RXParamSetupAns, RXTimingSetupAns, DlChannelAns}')
    res.coverage['sticky_table'] = {n: (n in kept) for n in sorted(var)}
    # who calls clear_mac_commands with which flag
    S = 'lorawan_device::mac::session::Session::'
    calls = c.pf.callers_of('Uplink::clear_mac_commands', crates={'lorawan_device'})
    seen = set()
    for bf, bb, t in calls:
        flag = t.args[1].const_int()
        seen.add((bf.body.path, flag))
        if bf.body.path == S + 'handle_rx' and flag == 0:
            mb, mt = one_call(bf, 'EncryptedDataPayload::validate_mic')
            im = rules.param_by_name(bf.body, 'ignore_mac')
            conds = path_conditions(bf, bb)
            res.require(bf.guarded_by_edges(bb, bf.ok_edges(mt.dest.local)) and any(x[0] == ('param', im) and cond_false(x) for x in conds),
                        'C08:handle_rx:sticky-cleared-unaccepted', 'retained answers cleared without an accepted Class A downlink', short_site(bf, bb),
                        'DOM(clear(false) => MIC ok ∧ Class A)', instance='retained answers cleared only on an accepted Class A downlink')
        elif bf.body.path == S + 'prepare_buffer' and flag == 1:
            bb2, t2 = one_call(bf, 'DataFrame::build_into')
            res.require(bf.cfg.dominates(bb2, bb), 'C08:prepare_buffer:cleared-before-build', 'pending answers cleared before the frame carrying them is built', short_site(bf, bb),
                        'DOM(clear(true) => frame built)', instance='non-sticky answers dropped only after the frame was built')
        elif '::certification::' in bf.body.path or '::multicast::' in bf.body.path:
            res.ok('WHO-CALLS', 'clear_mac_commands from %s (feature code)' % bf.body.path)
        else:
            res.violation('C08:who-calls:clear_mac_commands:%s' % rules.short_fn(bf.body.path), 'unexpected clear_mac_commands(%s)' % flag, short_site(bf, bb), 'WHO-CALLS')
    if not {(S + 'handle_rx', 0), (S + 'prepare_buffer', 1)} <= seen:
        raise CheckError('floor: clear_mac_commands call sites missing: %s' % seen)
    # the frame carries the pending answers: f_opts / payload come from uplink.mac_commands()
    pbf = c.bf(S + 'prepare_buffer')
    # the frame built carries them: FOpts = mac_commands() when there is a port, the MacCommands payload = mac_commands() for port 0
    has_mc = lambda t_: term_contains(t_, lambda y: isinstance(y, tuple) and y[:1] == ('call',) and isinstance(y[1], str) and y[1].endswith('Uplink::mac_commands'))
    okm = False
    n_frames = 0
    for b in pbf.body.blocks:
        if b.cleanup or b.idx not in pbf.cfg.reach:
            continue
        for s_ in b.stmts:
            if s_.k == 'assign' and s_.rv.k == 'agg' and (s_.rv.d.get('adt') or '').endswith('creator::DataFrame'):
                n_frames += 1
                fl = dict(zip(s_.rv.d['fields'], [term_of_operand(pbf, o) for o in s_.rv.ops]))
                alts = []          # (f_opts term, payload term) per way of reaching the construction
                src = rules.find_in_term(fl['f_opts'], lambda y: isinstance(y, tuple) and y[:1] == ('phi',))
                if src is not None:
                    for v_, cs_, b_ in defs_with_conditions(pbf, src[1]):
                        alts.append((v_[1][0], v_[1][1]) if v_[0] == 'tuple' and len(v_[1]) == 2 else (v_, fl['payload']))
                else:
                    alts.append((fl['f_opts'], fl['payload']))
                in_fopts = any(has_mc(a_[0]) and term_contains(a_[1], lambda y: isinstance(y, tuple) and y[:1] == ('agg',) and isinstance(y[1], str) and y[1].endswith('Payload::Data')) for a_ in alts)
                in_port0 = any(term_contains(a_[1], lambda y: isinstance(y, tuple) and y[:1] == ('agg',) and isinstance(y[1], str) and y[1].endswith('Payload::MacCommands') and has_mc(y)) for a_ in alts)
                okm = in_fopts and in_port0
    res.require(okm and n_frames == 1, 'C08:prepare_buffer:mac_commands-source', 'the frame does not carry the queued answers both ways (FOpts next to application data, FRMPayload on port 0)', None, 'PROVENANCE(frame fields)',
                instance='prepare_buffer: FOpts = uplink.mac_commands() with a data payload; payload = MacCommands(uplink.mac_commands()) on port 0')


def run(tier):
    res = Result(PID)
    c = ctx('ws')
    handle_downlink_macs(c, res)
    D = 'lorawan_device::region::dynamic_channel_plans::DynamicChannelPlan::'
    # trait impl bodies: resolved path is `<DynamicChannelPlan<R> as RegionHandler>::name`
    fns = {}
    for name in ('channel_dl_update', 'handle_new_channel'):
        cands = [p for p in c.prog.by_short if p.endswith('RegionHandler>::' + name) and 'DynamicChannelPlan' in p]
        if len(cands) != 1:
            raise CheckError('missing anchor: DynamicChannelPlan::%s (%d candidates)' % (name, len(cands)))
        plan_function(c, res, cands[0], 'DynamicChannelPlan::' + name)
        fns[name] = cands[0]
    plan_values(c, res, fns['channel_dl_update'], fns['handle_new_channel'])
    add_mac_command(c, res)
    sticky(c, res)
    res.coverage['configs'] = [c.info]
    res.explanation = __doc__
    res.assumptions = ['rustc MIR construction', 'path conditions are the branch edges every path to the site must take (necessary conditions)',
                       'the sticky set and FOPTS limit 15 are frozen from the LoRaWAN 1.0.x specification']
    return res
