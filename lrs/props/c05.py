"""C05 — a downlink is accepted iff authentic and fresh (structural part).

Decides on MIR: in Session::handle_rx one reconstructed counter value (the Some-payload of
next_fcnt_down(self.fcnt_down, wire counter of the parsed frame)) is the counter argument of validate_mic,
the value stored to self.fcnt_down and the counter argument of decrypt_in_place (SAME-VALUE); the MIC
crypto is built from self.nwkskey; the None result returns NoUpdate without effect; every persistent
effect is dominated by the MIC-true edge (shared with C07) and the fcnt_down store lies on every accept
path; the size test compares the frame length with max_payload_len (the window's RfConfig) + MHDR + MIC;
WHO-WRITES fcnt_down. The arithmetic post-condition of next_fcnt_down is decided by the absint engine
(clause d): with last = 65536 H + L and the wire counter W symbolic, the reconstruction is analysed under each case of the
specification's window rule (fresh in the same / next 16-bit epoch, replay, too far ahead, top-epoch wrap, first downlink)
and must return exactly Some(the reconstructed counter) resp. None. Does not decide MIC arithmetic."""
from ..runner import Result, CheckError
from .. import rules, flow
from ..rules import param_by_name, one_call, term_of_operand, term_of_local, term_str, callee_name
from ..flow import strip_calls_bb, term_contains
from .common import ctx, short_site, is_session_replacement, SESSION_REPLACERS
from . import c07

PID = 'C05'


def is_call(t, suffix):
    return isinstance(t, tuple) and t and t[0] == 'call' and t[1].endswith(suffix)


def run(tier):
    res = Result(PID)
    c = ctx('ws')
    # (b) effects dominated by MIC ok (same rule as C07, reported under C05 keys as well)
    sub = Result(PID)
    bf, ok = c07.session_handle_rx(c, sub)
    for v in sub.violations:
        res.violation(v['key'].replace('C07:', 'C05:'), v['what'], v['site'], v['rule'], v['detail'])
    res.instances += sub.instances
    body = bf.body
    self_ = param_by_name(body, 'self')
    # (a) SAME-VALUE of the counter
    bbn, tn = one_call(bf, 'session::next_fcnt_down')
    bbm, tm = one_call(bf, 'EncryptedDataPayload::validate_mic')
    bbd, td = one_call(bf, 'DecryptedDataPayload::decrypt_in_place')
    a0 = term_of_operand(bf, tn.args[0])
    a1 = term_of_operand(bf, tn.args[1])
    res.require(a0 == ('field', ('deref', ('param', self_)), 'fcnt_down'), 'C05:handle_rx:next_fcnt_down-last',
                'next_fcnt_down is not given self.fcnt_down: %s' % term_str(a0), short_site(bf, bbn), 'SAME-VALUE(last)',
                instance='next_fcnt_down(last = self.fcnt_down)')
    # wire counter: fcnt(fhdr(parsed frame)) where parsed = parse(as_mut_for_read(rx))
    rx = param_by_name(body, 'rx')
    wire_ok = is_call(a1, 'Fhdr::fcnt') and term_contains(a1, lambda x: is_call(x, 'EncryptedDataPayload::fhdr')) \
        and term_contains(a1, lambda x: is_call(x, 'EncryptedDataPayload::parse')) and term_contains(a1, lambda x: x == ('param', rx))
    res.require(wire_ok, 'C05:handle_rx:next_fcnt_down-wire', 'wire counter is not fhdr().fcnt() of the frame parsed from rx: %s' % term_str(a1),
                short_site(bf, bbn), 'SAME-VALUE(wire)', instance='next_fcnt_down(wire = parsed.fhdr().fcnt())')
    n = term_of_operand(bf, tm.args[2])
    n_ok = n[0] == 'field' and n[1][0] == 'as' and n[1][2] == 'Some' and n[1][1] == ('call', 'lorawan_device::mac::session::next_fcnt_down', (a0, a1), bbn)
    res.require(n_ok, 'C05:handle_rx:mic-counter', 'validate_mic counter is not the reconstructed counter: %s' % term_str(n), short_site(bf, bbm),
                'SAME-VALUE(N@MIC)', instance='validate_mic(.., N) with N = next_fcnt_down(..)?')
    nd = term_of_operand(bf, td.args[3])
    res.require(nd == n, 'C05:handle_rx:decrypt-counter', 'decrypt_in_place counter differs from the MIC counter: %s' % term_str(nd), short_site(bf, bbd),
                'SAME-VALUE(N@decrypt)', instance='decrypt_in_place(.., N) same N')
    # the frame validated is the frame parsed; the frame decrypted is the same buffer
    fr = term_of_operand(bf, tm.args[0])
    res.require(term_contains(fr, lambda x: is_call(x, 'EncryptedDataPayload::parse')) and term_contains(fr, lambda x: x == ('param', rx)),
                'C05:handle_rx:mic-frame', 'validate_mic not applied to the frame parsed from rx', short_site(bf, bbm), 'SAME-VALUE(frame)',
                instance='validate_mic on the parsed frame')
    db = term_of_operand(bf, td.args[0])
    res.require(term_contains(db, lambda x: is_call(x, 'RadioBuffer::as_mut_for_read')) and term_contains(db, lambda x: x == ('param', rx)),
                'C05:handle_rx:decrypt-buffer', 'decrypt_in_place not applied to the receive buffer', short_site(bf, bbd), 'SAME-VALUE(buffer)',
                instance='decrypt_in_place on rx buffer')
    # DIRECTION: the MIC is computed with the frame's own direction bit, so an uplink frame (the device's own one echoed back, with its
    # uplink counter) verifies under the same key. Only a downlink message type may reach the MIC check and everything behind it.
    def downlink_only(cnd):
        tm_ = cnd[0]
        if not isinstance(tm_, tuple):
            return False
        up = term_contains(tm_, lambda x: isinstance(x, tuple) and x[:1] == ('call',) and isinstance(x[1], str) and x[1].endswith('::is_uplink'))
        down = term_contains(tm_, lambda x: isinstance(x, tuple) and x[:1] == ('call',) and isinstance(x[1], str) and x[1].endswith('::is_downlink'))
        on_frame = term_contains(tm_, lambda x: is_call(x, 'EncryptedDataPayload::parse'))
        if up and on_frame and tm_[:1] == ('call',):
            return rules.cond_false(cnd)
        if down and on_frame and tm_[:1] == ('call',):
            return rules.cond_true(cnd)
        # a match on the message type of the parsed frame
        return tm_[:1] == ('discr',) and on_frame and term_contains(tm_, lambda x: isinstance(x, tuple) and x[:1] == ('call',) and isinstance(x[1], str) and x[1].endswith(('::frame_type', '::mtype', '::mhdr')))
    res.require(any(downlink_only(cnd) for cnd in rules.path_conditions(bf, bbm)), 'C05:handle_rx:downlink-only',
                'the MIC of a received frame is checked whatever its message type: the MIC uses the frame\'s own direction, so the device\'s own uplink echoed back into a receive window verifies, advances FCntDown '
                'and is delivered / executed as a downlink', short_site(bf, bbm), 'DOM(message type is a downlink => validate_mic)', instance='handle_rx: only downlink message types reach the MIC check')
    # MIC key: DefaultCrypto::new(self.nwkskey.inner())
    k = term_of_operand(bf, tm.args[1])
    key_ok = term_contains(k, lambda x: x == ('field', ('deref', ('param', self_)), 'nwkskey')) and \
        not term_contains(k, lambda x: isinstance(x, tuple) and x and x[0] == 'field' and x[2] == 'appskey')
    res.require(key_ok, 'C05:handle_rx:mic-key', 'MIC crypto is not derived from self.nwkskey: %s' % term_str(k), short_site(bf, bbm),
                'PROVENANCE(key)', instance='MIC key = self.nwkskey')
    # decrypt keys: nwk then app
    kn = term_of_operand(bf, td.args[1]); ka = term_of_operand(bf, td.args[2])
    res.require(term_contains(kn, lambda x: isinstance(x, tuple) and x[:1] == ('field',) and x[2] == 'nwkskey') and
                term_contains(ka, lambda x: isinstance(x, tuple) and x[:1] == ('field',) and x[2] == 'appskey'),
                'C05:handle_rx:decrypt-keys', 'decrypt_in_place key arguments are not (nwkskey, appskey)', short_site(bf, bbd),
                'PROVENANCE(keys)', instance='decrypt_in_place(nwk=self.nwkskey, app=self.appskey)')
    # the stored value
    stores = [(bb, si, s) for bb, si, s, root, path in bf.field_writes() if root == self_ and path == ['fcnt_down']]
    if len(stores) != 1:
        raise CheckError('expected exactly one store to self.fcnt_down in Session::handle_rx, found %d' % len(stores))
    sbb, ssi, st = stores[0]
    sv = term_of_operand(bf, st.rv.ops[0])
    res.require(sv == ('agg', 'core::option::Option::Some', (('0', n),)), 'C05:handle_rx:stored-counter',
                'value stored to fcnt_down is not Some(N): %s' % term_str(sv), short_site(bf, sbb, ssi), 'SAME-VALUE(N@store)',
                instance='self.fcnt_down = Some(N)')
    # MPT: on the accept path the store precedes every return
    tgt = ok[0][1]
    ex = bf.returns_reachable(tgt, avoid_nodes=[sbb])
    res.require(not ex or tgt == sbb, 'C05:handle_rx:accept-without-store', 'an accept path returns without remembering the counter',
                short_site(bf, tgt), 'MPT(MIC ok -> store fcnt_down)', instance='every accept path stores fcnt_down')
    # None => NoUpdate without effect
    none_edges = bf.err_edges(tn.dest.local)
    if not none_edges:
        raise CheckError('next_fcnt_down result is not branched on')
    for (u, v) in none_edges:
        reach = bf.cfg.reachable_from(v)
        evs = [e for e in rules.effects(c, bf, {self_, param_by_name(body, 'region'), param_by_name(body, 'configuration'), param_by_name(body, 'dl')})
               if e['bb'] in reach and bf.guarded_by_edges(e['bb'], [(u, v)])]
        res.require(not evs, 'C05:handle_rx:stale-counter-effect', 'effects on the stale-counter path: %s' % [e['what'] for e in evs], short_site(bf, v),
                    'EFFECT(none on None)', instance='stale counter path has no effect')
        # the value returned is NoUpdate
        rets = []
        for x in reach:
            if bf.guarded_by_edges(x, [(u, v)]) or x == v:
                for s in body.blocks[x].stmts:
                    if s.k == 'assign' and s.lhs.is_local() and s.lhs.local == 0 and s.rv.k == 'agg':
                        rets.append(s.rv.d.get('variant'))
        res.require(rets == ['NoUpdate'], 'C05:handle_rx:stale-counter-response', 'stale counter path returns %s' % rets, short_site(bf, v),
                    'RETURNS(NoUpdate)', instance='stale counter => Response::NoUpdate')
    # validate_mic must be dominated by the Some edge (MIC never computed with a bogus counter)
    some_edges = bf.ok_edges(tn.dest.local)
    res.require(bf.guarded_by_edges(bbm, some_edges), 'C05:handle_rx:mic-before-freshness', 'validate_mic not dominated by a fresh counter',
                short_site(bf, bbm), 'DOM(MIC => fresh)', instance='validate_mic dominated by next_fcnt_down == Some')
    # (c) size rule: callers pass the window's RfConfig.max_payload_len
    mpl = param_by_name(body, 'max_payload_len')
    size_ok = False
    for b in body.blocks:
        t = b.term
        if b.cleanup or t.k != 'switch' or t.discr.place is None or not t.discr.place.is_local():
            continue
        tt = term_of_local(bf, t.discr.place.local)
        if tt[0] in ('Gt', 'Lt', 'Ge', 'Le') and term_contains(tt, lambda x: x == ('param', mpl)):
            lhs, rhs = (tt[1], tt[2]) if tt[0] in ('Gt', 'Ge') else (tt[2], tt[1])
            co, k = rules.linear(rhs)
            lco, lk = rules.linear(lhs)
            # frame_len > max_payload_len + 5   (MHDR 1 + MIC 4); Ge form needs +6
            want = 5 if tt[0] in ('Gt', 'Lt') else 6
            lhs_ok = lk == 0 and len(lco) == 1 and is_call(list(lco)[0], '::len') and term_contains(lhs, lambda x: is_call(x, 'EncryptedDataPayload::parse'))
            size_ok = co == {('param', mpl): 1} and k == want and lhs_ok
            res.require(size_ok, 'C05:handle_rx:size-limit', 'oversize test is not len(frame) > max_payload_len + MHDR_LEN + MIC_LEN: %s' % term_str(tt),
                        short_site(bf, b.idx), 'SHAPE(size test)', instance='oversize test: len(frame) > max_payload_len + 5')
    if not size_ok and not any(v['key'] == 'C05:handle_rx:size-limit' for v in res.violations):
        res.violation('C05:handle_rx:size-limit-missing', 'no size test against max_payload_len found', None, 'SHAPE(size test)')
    n_callers = 0
    for name in ('lorawan_device::mac::Mac::handle_rx', 'lorawan_device::mac::Mac::handle_rxc'):
        if not c.has(name):
            continue
        mbf = c.bf(name)
        rf = param_by_name(mbf.body, 'rf_config')
        for bb, t in mbf.calls_to('Session::handle_rx'):
            # position of max_payload_len in callee params == index in args
            a = term_of_operand(mbf, t.args[mpl - 1])
            n_callers += 1
            res.require(a == ('field', ('deref', ('param', rf)), 'max_payload_len'), 'C05:%s:max_payload_len' % name.split('::')[-1],
                        'size limit is not the window RfConfig.max_payload_len: %s' % term_str(a), short_site(mbf, bb), 'SAME-VALUE(size limit)',
                        instance='%s passes rf_config.max_payload_len' % name.split('::')[-1])
    if n_callers < 2:
        raise CheckError('floor: expected 2 callers of Session::handle_rx in Mac, found %d' % n_callers)
    # front-ends pass the RfConfig of the window the frame was received in
    fe = 0
    nb = c.bf('lorawan_device::nb_device::state::WaitingForRx::handle_event')
    for bb, t in nb.calls_to('Mac::handle_rx'):
        a = term_of_operand(nb, t.args[4])
        fe += 1
        res.require(a == ('ref', ('field', ('param', param_by_name(nb.body, 'self')), 'rf_config')), 'C05:nb:rf_config',
                    'nb front-end does not pass the window rf_config: %s' % term_str(a), short_site(nb, bb), 'SAME-VALUE(window rf)',
                    instance='nb WaitingForRx passes self.rf_config')
    # and that rf_config was the one handed to the radio when the window was opened
    wbf = c.bf('lorawan_device::nb_device::state::WaitingForRxWindow::handle_event')
    for b in wbf.body.blocks:
        for si, s in enumerate(b.stmts):
            if s.k == 'assign' and s.rv.k == 'agg' and s.rv.d.get('adt', '').endswith('state::WaitingForRx'):
                fl = s.rv.d['fields']
                rfop = term_of_operand(wbf, s.rv.ops[fl.index('rf_config')])
                rxreq = None
                for bb2, t2 in wbf.calls_to('PhyRxTx::handle_event'):
                    ev = term_of_operand(wbf, t2.args[1])
                    if ev[0] == 'agg' and ev[1].endswith('Event::RxRequest'):
                        rxreq = ev[2][0][1]
                fe += 1
                res.require(rxreq is not None and rxreq == rfop, 'C05:nb:rf_config-bound', 'rf_config stored in WaitingForRx differs from the RxRequest config',
                            short_site(wbf, b.idx, si), 'SAME-VALUE(window rf)', instance='nb: WaitingForRx.rf_config == RxRequest(rf_config)')
    al = c.bf('lorawan_device::async_device::Device::rx_listen::{closure#0}')
    for bb, t in al.calls_to('Mac::handle_rx'):
        a = term_of_operand(al, t.args[4])
        fe += 1
        res.require(term_contains(a, lambda x: x == ('field', ('param', 1), '1')) or 'rf_config' in term_str(a), 'C05:async:rf_config',
                    'async rx_listen does not pass its rf_config argument: %s' % term_str(a), short_site(al, bb), 'SAME-VALUE(window rf)',
                    instance='async rx_listen passes rf_config')
    if fe < 3:
        raise CheckError('floor: front-end size-limit bindings found %d < 3' % fe)
    # WHO-WRITES fcnt_down
    ws = c.pf.writers_of_field('session::Session', 'fcnt_down', crates={'lorawan_device'})
    allowed = {'lorawan_device::mac::session::Session::handle_rx': 'store', 'lorawan_device::mac::session::Session::new': 'construct'}
    seen = set()
    for (b, bb, si, s, kind) in ws:
        if b.exp and 'derive' in (b.exp or ''):
            continue
        if is_session_replacement(b, s, kind):
            res.require(True, 'C05:who-writes:fcnt_down:%s' % b.path.split('::')[-1], '', None, 'WHO-WRITES(fcnt_down)', instance='session replaced as a whole: %s (%s)' % (b.path, SESSION_REPLACERS[b.path]))
            continue
        seen.add(b.path)
        res.require(allowed.get(b.path) == kind, 'C05:who-writes:fcnt_down:%s' % b.path.split('::')[-1],
                    'unexpected writer of Session.fcnt_down (%s)' % kind, flow.Site(b, bb, si), 'WHO-WRITES(fcnt_down)',
                    instance='writer of fcnt_down: %s (%s)' % (b.path, kind))
    if set(allowed) - seen:
        raise CheckError('floor: writers of fcnt_down missing: %s' % (set(allowed) - seen))
    # Session::new stores None
    nbf = c.bf('lorawan_device::mac::session::Session::new')
    for b in nbf.body.blocks:
        for s in b.stmts:
            if s.k == 'assign' and s.rv.k == 'agg' and s.rv.d.get('adt', '').endswith('session::Session'):
                fl = s.rv.d['fields']
                v = term_of_operand(nbf, s.rv.ops[fl.index('fcnt_down')])
                res.require(v == ('agg', 'core::option::Option::None', ()), 'C05:Session::new:fcnt_down', 'new session does not start with fcnt_down = None',
                            None, 'CONST(fcnt_down=None)', instance='Session::new: fcnt_down = None')
    # (d) the counter reconstruction: sound (only fresh counters) AND complete (every fresh counter) - case analysis
    next_fcnt_down_cases(c, res)
    res.coverage['configs'] = [c.info]
    # "fits the maximum size of the data rate it was received at": the per-data-rate maxima are the regional ones
    from . import regional
    regional.check(c, res, PID, {'payload'})
    res.explanation = __doc__
    res.assumptions += ['rustc MIR construction; SAME-VALUE compares single-assignment definition chains (copies/moves/reborrows)']
    return res


def next_fcnt_down_cases(c, res):
    """LoRaWAN 1.0.x counter window: a frame with 16-bit wire counter W is fresh after `last` iff the unique N with
    N = W (mod 2^16), last < N <= last + MAX_FCNT_GAP exists (and fits 32 bits); the first downlink is taken at face value"""
    from .. import absint_interp, tables
    from ..absint import Lin
    prog = c.prog
    bl = prog.by_short.get('lorawan_device::mac::session::next_fcnt_down') or []
    if len(bl) != 1:
        raise CheckError('anchor: next_fcnt_down')
    b = bl[0]
    gb = prog.by_short.get('lorawan_device::region::constants::MAX_FCNT_GAP') or []
    G = None
    if len(gb) == 1:
        a_, f_, o_, r_ = tables.run_fn(prog, gb[0])
        G = tables._single(o_, r_) if o_ is not None else None
    res.require(G == 16384, 'C05:MAX_FCNT_GAP', 'MAX_FCNT_GAP = %s (specification: 16384)' % G, 'MAX_FCNT_GAP', 'CONST(spec)', instance='MAX_FCNT_GAP = 16384')
    G = G or 16384
    one = Lin.const(1)
    E = 65536
    H, L, W = Lin.sym('H'), Lin.sym('L'), Lin.sym('W')
    gap_same = W - L
    gap_next = Lin.const(E) + W - L
    cases = [
        ('fresh, same epoch (1 <= W - L <= gap)', [one - gap_same, gap_same - Lin.const(G)], ('some', H.scale(E) + W)),
        ('fresh, next epoch (W < L, 1 <= 65536 + W - L <= gap, epoch < 65535)', [W - L + one, one - gap_next, gap_next - Lin.const(G), H - Lin.const(65534)], ('some', H.scale(E) + W + Lin.const(E))),
        ('replay of the last counter (W = L)', [W - L, L - W], ('none', None)),
        ('too far ahead in the same epoch (W - L > gap)', [Lin.const(G + 1) - gap_same], ('none', None)),
        ('older counter / too far ahead in the next epoch (W < L, 65536 + W - L > gap)', [W - L + one, Lin.const(G + 1) - gap_next, H - Lin.const(65534)], ('none', None)),
        ('32-bit counter exhausted (W < L in epoch 65535)', [W - L + one, Lin.const(65535) - H, H - Lin.const(65535)], ('none', None)),
    ]
    for name, cons, (kind, expv) in cases:
        an = absint_interp.new_analyzer(prog, max_depth=5)

        def setup(an_, fr, st, cons=cons):
            for s_ in ('H', 'L', 'W'):
                st.lo[s_] = 0
                st.hi[s_] = 65535
            st.env[(fr.id, 1)] = ('adt', 'core::option::Option', frozenset([1]), {(1, '0'): ('int', H.scale(E) + L)}, None, ('u32',))
            st.env[(fr.id, 2)] = ('int', W)
            for con in cons:
                st.add_con(con)
        fr, out = an.analyze_entry(b, setup=setup)
        outs = []
        for u, v, st in an.entry_ret_edges:
            rv = st.env.get((fr.id, 0))
            if rv is None or rv[0] != 'adt' or rv[2] is None:
                outs.append(('unknown', None, st))
                continue
            for var in sorted(rv[2]):
                outs.append(('some' if var == 1 else 'none', an.field_of(rv, 1, '0', st, fr) if var == 1 else None, st))
        ok = bool(outs) and all(k_ == kind for k_, v_, st_ in outs)
        if ok and kind == 'some':
            for k_, v_, st_ in outs:
                lin = an.as_int(v_, st_) if v_ is not None else None
                ok = ok and lin is not None and st_.prove_cmp('Eq', lin, expv)
        bad = [o for o in an.obl.values() if o.bad]
        res.require(ok and not bad, 'C05:next_fcnt_down:case:%s' % name.split(' (')[0].replace(' ', '-').replace(',', ''),
                    'counter reconstruction, case "%s": expected %s, the analysis finds %s%s' % (name, kind if kind == 'none' else 'Some(%r)' % (expv,), sorted({k_ for k_, v_, s_ in outs}),
                                                                                              '; possible panic: %s' % [(o.kind, o.desc) for o in bad] if bad else ''),
                    b.path, 'CASE-ANALYSIS(counter window, symbolic H, L, W)', instance='next_fcnt_down, %s: %s' % (name, 'None' if kind == 'none' else 'Some(reconstructed counter)'))
    # first downlink
    an = absint_interp.new_analyzer(prog, max_depth=5)

    def setup0(an_, fr, st):
        st.lo['W'] = 0
        st.hi['W'] = 65535
        st.env[(fr.id, 1)] = ('adt', 'core::option::Option', frozenset([0]), {}, None, ('u32',))
        st.env[(fr.id, 2)] = ('int', W)
    fr, out = an.analyze_entry(b, setup=setup0)
    rv = out.env.get((fr.id, 0)) if out is not None else None
    okf = rv is not None and rv[0] == 'adt' and rv[2] == frozenset([1]) and an.as_int(an.field_of(rv, 1, '0', out, fr), out) == W
    res.require(okf, 'C05:next_fcnt_down:case:first-downlink', 'the first downlink of a session is not taken at face value', b.path, 'CASE-ANALYSIS(first downlink)',
                instance='next_fcnt_down, no downlink yet: Some(wire counter)')
