"""C16 — time on air equals the Semtech formula (structural part).

Decides: (a) never overflows / never divides by zero: every arithmetic assertion in
BaseBandModulationParams::new and time_on_air_us (and the local div_ceil) is discharged by interval analysis from
the enum ranges, with the inferred invariant of the private field t_sym_us (hull over its only construction site);
no integer cast in time_on_air_us loses information; (b) the result is non-decreasing in the payload length
(monotonicity typing of the return expression); (c) the ceiling-division idiom `(n-1)/d + 1` is only used where
the numerator is >= 1 (it is not ⌈n/d⌉ for n <= 0 under truncating division); (d) shape of the symbol time
2^SF * 10^6 / BW. Does not decide value equality with the formula for all inputs."""
from ..runner import Result, CheckError
from .. import absint_run, rules, flow
from ..rules import term_of_operand, term_of_local, term_str, defs_with_conditions, cond_true, cond_false, param_by_name, callee_name
from .common import ctx, short_site

PID = 'C16'
BBMP = 'lora_modulation::BaseBandModulationParams::'


def run(tier):
    res = Result(PID)
    c = ctx('ws' if tier == 'quick' else 'ws')
    prog = c.prog
    ents = absint_run.exported_entries(prog, 'lora_modulation')
    if len(ents) < 15:
        raise CheckError('floor: lora-modulation entries %d < 15' % len(ents))
    probes = []

    def setup(an):
        an.call_probes['time_on_air_us::div_ceil'] = probes
    an, inv, skipped = absint_run.run_passes(prog, ents, {'lora_modulation'}, setup=setup)
    obl = an.finalize_obligations()
    scope = ('BaseBandModulationParams::new', 'BaseBandModulationParams::time_on_air_us', 'Bandwidth::hz', 'SpreadingFactor::factor', 'CodingRate::denom')
    n_ok = 0
    n_obl = 0
    args_assumed = []
    for o in sorted(obl, key=lambda o: o.key()):
        if not any(s in o.fn for s in scope):
            # other helpers (delay_in_symbols, symbols_to_ms): caller-chosen scalar arguments
            if o.bad:
                from .c03 import classify
                cls = [classify(d) for d in o.bad_entries.values()]
                if all(x == 'argument' for x in cls):
                    args_assumed.append(o.key())
                    continue
                res.violation('C16:%s:%s:%s#%d' % (o.fn.split('::', 1)[1], o.kind, o.desc, o.ord), 'arithmetic site not discharged: %s' % (o.detail or {}).get('why'),
                              '%s (%s)' % (o.fn, o.span), 'OBLIGATION(%s)' % o.kind, o.detail)
            continue
        n_obl += 1
        if o.bad:
            res.violation('C16:%s:%s:%s#%d' % (o.fn.split('::', 1)[1], o.kind, o.desc, o.ord),
                          'arithmetic in the airtime computation can overflow / divide by zero: %s' % (o.detail or {}).get('why'),
                          '%s (%s)' % (o.fn, o.span), 'OBLIGATION(%s)' % o.kind, o.detail)
        else:
            n_ok += 1
            res.ok('OBLIGATION(%s)' % o.kind, o.key(), o.span)
    if n_obl < 14:
        raise CheckError('floor: arithmetic obligations in new/time_on_air_us %d < 14' % n_obl)
    tinv = inv.len_inv.get('lora_modulation::BaseBandModulationParams', {}).get('#t_sym_us')
    if tinv is None:
        raise CheckError('t_sym_us invariant not inferred (no construction site found)')
    res.require(len(tinv[3]) == 1 and tinv[3][0][0] == BBMP + 'new', 'C16:t_sym_us:writers', 'symbol time is constructed outside BaseBandModulationParams::new: %s' % tinv[3],
                None, 'WHO-CONSTRUCTS(t_sym_us)', instance='t_sym_us constructed only by new(): [%d, %d]' % (tinv[0], tinv[1]))
    res.require(tinv[0] >= 1, 'C16:t_sym_us:positive', 't_sym_us may be zero', None, 'INVARIANT', instance='t_sym_us >= %d' % tinv[0])
    lossy = an.lossy_casts.get(BBMP + 'time_on_air_us', [])
    res.require(not lossy, 'C16:time_on_air_us:lossy-cast', 'an integer cast in time_on_air_us may lose information: %s' % lossy[:3], None, 'CAST-LOSSLESS',
                instance='all integer casts in time_on_air_us are value-preserving')
    # (c) ceiling idiom
    ceil_rule(c, res, probes)
    # (b) monotone in len
    mono_rule(c, res)
    # (d) symbol time shape
    tsym_shape(c, res)
    formula_shape(c, res)
    res.coverage.update({'obligations_in_scope': n_obl, 'discharged_in_scope': n_ok, 'caller_argument_preconditions': args_assumed,
                         't_sym_us_invariant': list(tinv[:2]), 'div_ceil_call_probes': probes, 'configs': [c.info]})
    res.explanation = __doc__
    res.assumptions = ['with feature `serde` a deserialised BaseBandModulationParams can carry any t_sym_us (not covered: the property quantifies over parameters built by new())',
                       'the pub field `ldro` may be overridden by the caller: both values are analysed']
    return res


def callee_return_term(c, name):
    bf = c.bf(name)
    rets = []
    for b in bf.body.blocks:
        if b.cleanup:
            continue
        for s in b.stmts:
            if s.k == 'assign' and s.lhs.is_local() and s.lhs.local == 0:
                rets.append(term_of_local(bf, 0) if False else (term_of_operand(bf, s.rv.ops[0]) if s.rv.k == 'use' else None))
    return bf, rets


def ceil_rule(c, res, probes):
    """every occurrence of the idiom (x - 1) / d + 1 in the airtime code must be reached only with x >= 1: by a dominating
    branch condition on x, or (when x is a parameter of a local helper and no branch guards it) by the interval of the
    argument at every call site"""
    n_idiom = 0
    for b in c.prog.bodies.values():
        if b.crate != 'lora_modulation' or 'time_on_air_us' not in b.path:
            continue
        bf = c.pf.bf(b)
        for blk in b.blocks:
            if blk.cleanup or blk.idx not in bf.cfg.reach:
                continue
            for si, s_ in enumerate(blk.stmts):
                if s_.k != 'assign' or not s_.lhs.is_local():
                    continue
                if s_.rv.k == 'use':
                    t = term_of_operand(bf, s_.rv.ops[0])
                elif s_.rv.k == 'bin':
                    t = (s_.rv.d['op'], term_of_operand(bf, s_.rv.ops[0]), term_of_operand(bf, s_.rv.ops[1]))
                else:
                    t = None
                # only the outermost occurrence (skip plain copies of an already inspected temporary)
                if s_.rv.k == 'use' and s_.rv.ops[0].place is not None and s_.rv.ops[0].place.is_local() and not s_.rv.ops[0].place.proj:
                    t = None
                if not (t and t[0] == 'Add' and t[2] == ('const', 1) and t[1][0] == 'Div' and t[1][1][0] == 'Sub' and t[1][1][2] == ('const', 1)):
                    continue
                n_idiom += 1
                x = t[1][1][1]
                conds = rules.path_conditions(bf, blk.idx)
                guarded = False
                for cnd in conds:
                    tt = cnd[0]
                    if tt[0] == 'Gt' and tt[1] == x and tt[2] == ('const', 0) and cond_true(cnd):
                        guarded = True
                    if tt[0] == 'Ge' and tt[1] == x and tt[2] == ('const', 1) and cond_true(cnd):
                        guarded = True
                    if tt[0] == 'Le' and tt[1] == x and tt[2] == ('const', 0) and cond_false(cnd):
                        guarded = True
                    if tt[0] == 'Lt' and tt[1] == x and tt[2] == ('const', 1) and cond_false(cnd):
                        guarded = True
                site = short_site(bf, blk.idx, si)
                if guarded:
                    res.ok('CEIL-IDIOM(n >= 1)', '(n-1)/d+1 in %s is reached only with n >= 1 (branch condition)' % b.path.split('::')[-1], site)
                    continue
                lo = None
                if x[0] == 'param' and b.path.endswith('div_ceil'):
                    los = [p['args'][x[1] - 1][0] for p in probes if p['args'][x[1] - 1] is not None]
                    lo = min(los) if los and len(los) == len(probes) else None
                res.require(lo is not None and lo >= 1, 'C16:time_on_air_us:div_ceil-nonpositive-numerator',
                            'the ceiling idiom (n-1)/d+1 can be reached with n <= 0 (n >= %s here; conditions: %s): under truncating division it is 1 + (n-1)/d, '
                            'not ceil(n/d), e.g. one extra coding block when the numerator is exactly zero (SF11, explicit header, empty payload)'
                            % (lo, [(term_str(x_[0]), x_[1]) for x_ in conds]), site, 'CEIL-IDIOM(n >= 1)', instance='ceil idiom numerator >= 1 at %s' % site)
    if n_idiom == 0:
        res.ok('CEIL-IDIOM(n >= 1)', 'no (n-1)/d+1 idiom in the airtime code (rule not applicable)')
    for p in probes:
        dlo = p['args'][1][0] if p['args'][1] else None
        res.require(dlo is not None and dlo >= 1, 'C16:time_on_air_us:div_ceil-nonpositive-denominator', 'ceiling division with denominator %s' % (p['args'][1],), p['site'],
                    'CEIL-IDIOM(d >= 1)', instance='div_ceil denominator >= 1')


UP, DOWN, CONST, UNK = 'up', 'down', 'const', '?'


def mono_rule(c, res):
    bf = c.bf(BBMP + 'time_on_air_us')
    body = bf.body
    lenp = param_by_name(body, 'len')
    memo = {}

    def flip(m):
        return {UP: DOWN, DOWN: UP}.get(m, m)

    def comb(a, b):
        if a == CONST:
            return b
        if b == CONST:
            return a
        if a == b:
            return a
        return UNK

    def phi(local):
        if local in memo:
            return memo[local]
        memo[local] = UNK
        dl = defs_with_conditions(bf, local)
        ms = [mono(v) for v, cs, bb in dl]
        r = UNK
        if ms and all(m in (UP, CONST) for m in ms):
            # a choice between non-decreasing alternatives is non-decreasing when the selecting condition is itself
            # monotone in the right direction or independent of len: conditions seen here are `x > 0` with x one of the
            # alternatives (max(x, 0)) or tests of other parameters
            okc = True
            for v, cs, bb in dl:
                for cnd in cs:
                    cm = mono(cnd[0])
                    if cm == CONST:
                        continue
                    # Gt(x, const) selecting x on the true side and a constant <= on the false side
                    t = cnd[0]
                    if t[0] in ('Gt', 'Ge', 'Lt', 'Le') and {mono(t[1]), mono(t[2])} == {UP, CONST}:
                        continue        # which side gets which alternative is decided by the max(ceil, 0) rule of formula_shape
                    okc = False
            r = UP if okc and UP in ms else (CONST if okc else UNK)
        memo[local] = r
        return r

    def mono(t):
        if not isinstance(t, tuple):
            return CONST
        h = t[0]
        if h == 'param':
            return UP if t[1] == lenp else CONST
        if h in ('const', 'constx', 'cdef', 'fn'):
            return CONST
        if h in ('field', 'deref', 'ref', 'as', 'discr'):
            return mono(t[1]) if mono(t[1]) == CONST else UNK
        if h == 'cast':
            return mono(t[2])
        if h in ('Not', 'Neg') and len(t) == 2:
            return CONST if mono(t[1]) == CONST else UNK
        if h in ('Add', 'AddWithOverflow'):
            return comb(mono(t[1]), mono(t[2]))
        if h in ('Sub', 'SubWithOverflow'):
            return comb(mono(t[1]), flip(mono(t[2])))
        if h in ('Mul', 'MulWithOverflow'):
            a, b = mono(t[1]), mono(t[2])
            # factors here are non-negative (lengths, symbol counts, symbol time, positive constants): checked by (a)'s intervals
            return comb(a, b) if UNK not in (a, b) and not (a == DOWN or b == DOWN) else UNK
        if h == 'Div':
            a, b = mono(t[1]), mono(t[2])
            return a if b == CONST else UNK
        if h in ('Gt', 'Ge', 'Lt', 'Le', 'Eq', 'Ne'):
            a, b = mono(t[1]), mono(t[2])
            return CONST if a == CONST and b == CONST else UNK
        if h == 'phi':
            return phi(t[1])
        if h == 'call':
            nm = t[1]
            if nm.endswith('time_on_air_us::div_ceil'):
                n, d = mono(t[2][0]), mono(t[2][1])
                # any correct or idiomatic ceiling division is non-decreasing in the numerator for a positive constant denominator
                return n if d == CONST else UNK
            if nm.endswith('::factor') or nm.endswith('::denom') or nm.endswith('::hz'):
                return CONST if all(mono(a) == CONST for a in t[2]) else UNK
            if nm.endswith('::max') or nm.endswith('::min'):
                return comb(mono(t[2][0]), mono(t[2][1]))
            return CONST if all(mono(a) == CONST for a in t[2]) else UNK
        if h in ('tuple', 'agg'):
            return UNK
        return UNK
    rets = []
    for b in body.blocks:
        if b.cleanup:
            continue
        for s in b.stmts:
            if s.k == 'assign' and s.lhs.is_local() and s.lhs.local == 0:
                if s.rv.k == 'use':
                    rets.append((b.idx, term_of_operand(bf, s.rv.ops[0])))
                elif s.rv.k == 'bin':
                    rets.append((b.idx, (s.rv.d['op'], term_of_operand(bf, s.rv.ops[0]), term_of_operand(bf, s.rv.ops[1]))))
    if not rets:
        raise CheckError('time_on_air_us: return expression not found')
    for bb, t in rets:
        m = mono(t)
        # the selecting conditions of the returns must not depend on len
        cs = rules.path_conditions(bf, bb)
        dep = [term_str(x[0]) for x in cs if mono(x[0]) != CONST]
        res.require(m in (UP, CONST) and not dep, 'C16:time_on_air_us:not-monotone', 'time on air is not provably non-decreasing in the payload length (%s; len-dependent branch: %s): %s'
                    % (m, dep, term_str(t)[:200]), short_site(bf, bb), 'MONOTONE(len)', instance='return expression at bb%d is non-decreasing in len' % bb)


def formula_shape(c, res):
    """the LoRa time-on-air formula (Semtech AN1200.13 / SX127x datasheet 4.1.1.7), as integer arithmetic in microseconds:
       n_payload = 8 + max(ceil((8 PL - 4 SF + 28 + 16 - 20 H) / (4 (SF - 2 DE))), 0) * CRdenom
       T = ((4 n_preamble + 17) + 4 n_payload) * T_sym / 4      (preamble given),   T = n_payload * T_sym   (payload only)
    checked on the def-chain terms as linear forms (so re-association and re-ordering do not matter) with a single final
    division: dividing T_sym (or any intermediate) before multiplying truncates and is reported"""
    bf = c.bf(BBMP + 'time_on_air_us')
    body = bf.body
    lenp, prep, hp = param_by_name(body, 'len'), param_by_name(body, 'preamble'), param_by_name(body, 'explicit_header')

    def is_tsym(t):
        return isinstance(t, tuple) and t[0] == 'field' and t[2] == 't_sym_us'

    def strip_cast(t):
        while isinstance(t, tuple) and t[0] == 'cast':
            t = t[2]
        return t
    rets = {}
    for b in body.blocks:
        if b.cleanup:
            continue
        for s_ in b.stmts:
            if s_.k == 'assign' and s_.lhs.is_local() and s_.lhs.local == 0:
                t = term_of_operand(bf, s_.rv.ops[0]) if s_.rv.k == 'use' else ((s_.rv.d['op'], term_of_operand(bf, s_.rv.ops[0]), term_of_operand(bf, s_.rv.ops[1])) if s_.rv.k == 'bin' else None)
                kind = 'preamble' if any(x[0][0] == 'discr' and x[0][1] == ('param', prep) and x[1] in ((1,), ('not', (0,))) for x in rules.path_conditions(bf, b.idx)) else 'payload'
                rets[kind] = (b.idx, t)
    if set(rets) != {'preamble', 'payload'}:
        raise CheckError('time_on_air_us: return expressions not recognised: %s' % sorted(rets))
    # payload-only: T_sym * n_payload
    bb, t = rets['payload']
    np_ = None
    okp = t is not None and t[0] == 'Mul' and (is_tsym(t[1]) or is_tsym(t[2]))
    if okp:
        np_ = strip_cast(t[2] if is_tsym(t[1]) else t[1])
    # preamble: floor(((4 p + 17 + 4 n_payload) * T_sym) / 4), compared as polynomials over the atoms (so any re-association,
    # distribution or `integer + floor(x / 4)` split that yields the same value is accepted); a division nested inside a
    # product is an atom of its own and therefore never matches
    bb2, t2 = rets['preamble']

    def poly(t):
        """polynomial {sorted tuple of atoms: coefficient}"""
        t = strip_cast(t)
        if not isinstance(t, tuple):
            return {(t,): 1}
        h = t[0]
        if h == 'const':
            return {(): t[1]} if t[1] else {}
        if h in ('Add', 'AddWithOverflow', 'Sub', 'SubWithOverflow'):
            a, b = poly(t[1]), poly(t[2])
            sgn = 1 if h.startswith('Add') else -1
            out = dict(a)
            for m_, c_ in b.items():
                out[m_] = out.get(m_, 0) + sgn * c_
            return {m_: c_ for m_, c_ in out.items() if c_}
        if h in ('Mul', 'MulWithOverflow'):
            a, b = poly(t[1]), poly(t[2])
            out = {}
            for m1, c1 in a.items():
                for m2, c2 in b.items():
                    m_ = tuple(sorted(m1 + m2, key=repr))
                    out[m_] = out.get(m_, 0) + c1 * c2
            return {m_: c_ for m_, c_ in out.items() if c_}
        return {(t,): 1}

    def quarters(t):
        """t = floor(P / 4) + Q  ->  polynomial 4 Q + P, or None"""
        t0 = strip_cast(t)
        if isinstance(t0, tuple) and t0[0] == 'Div' and t0[2] == ('const', 4):
            return poly(t0[1])
        if isinstance(t0, tuple) and t0[0] in ('Add', 'AddWithOverflow'):
            for a, b in ((t0[1], t0[2]), (t0[2], t0[1])):
                qa = quarters(a)
                if qa is not None and not _has_div(b):
                    out = dict(qa)
                    for m_, c_ in poly(b).items():
                        out[m_] = out.get(m_, 0) + 4 * c_
                    return {m_: c_ for m_, c_ in out.items() if c_}
        return None

    def _has_div(t):
        return flow.term_contains(t, lambda y: isinstance(y, tuple) and y and y[0] in ('Div', 'Rem', 'Shr'))
    pre = ('field', ('as', ('param', prep), 'Some'), '0')
    oka = t2 is not None and np_ is not None
    if oka:
        got = quarters(t2)
        tsym = ('field', ('deref', ('param', 1)), 't_sym_us')
        want = poly(('Mul', ('Add', ('Add', ('Mul', ('const', 4), pre), ('const', 17)), ('Mul', ('const', 4), np_)), tsym))
        oka = got is not None and got == want
    res.require(okp and oka, 'C16:time_on_air_us:formula', 'time on air is not n_payload * T_sym resp. ((4 n_preamble + 17 + 4 n_payload) * T_sym) / 4 with one final division: %s | %s' % (
        term_str(t)[:120] if t else None, term_str(t2)[:160] if t2 else None), short_site(bf, bb2), 'SPEC-SHAPE(time on air, single final division)',
        instance='T = (4 n_pre + 17 + 4 n_payload) * T_sym / 4 (preamble) and n_payload * T_sym (payload only)')
    # n_payload = 8 + max(ceil(num / den), 0) * CRdenom
    okn = np_ is not None and np_[0] == 'Add'
    if okn:
        lin, k = rules.linear(np_)
        okn = k == 8 and len(lin) == 1
        if okn:
            prod = list(lin)[0]
            okn = prod[0] == 'Mul' and lin[prod] == 1
            if okn:
                f1, f2 = strip_cast(prod[1]), strip_cast(prod[2])
                crd = f1 if (isinstance(f1, tuple) and f1[0] == 'call' and f1[1].endswith('CodingRate::denom')) else f2
                ratio = f2 if crd is f1 else f1
                okn = isinstance(crd, tuple) and crd[0] == 'call' and crd[1].endswith('CodingRate::denom')
                if okn:
                    # max(ceil, 0) in any spelling: Ord::max, or a selection where 0 is taken only if ceil <= 0 and ceil only if ceil >= 0
                    def is_ceil(v):
                        return isinstance(v, tuple) and v[:1] == ('call',) and v[1].endswith('div_ceil')
                    kinds = set()
                    for v, cs in rules.value_cases(bf, ratio):
                        v = strip_cast(v)
                        if isinstance(v, tuple) and v[:1] == ('call',) and v[1].endswith('::max') and sorted('ceil' if is_ceil(strip_cast(a_)) else 'zero' if strip_cast(a_) == ('const', 0) else '?' for a_ in v[2]) == ['ceil', 'zero']:
                            kinds |= {'ceil', 'zero'}
                        elif v == ('const', 0):
                            cl = [y for x in cs if isinstance(x[0], tuple) and len(x[0]) == 3 for y in (x[0][1], x[0][2]) if is_ceil(strip_cast(y))]
                            okn = okn and bool(cl) and rules.implies_order(cs, '<=', cl[0], ('const', 0))
                            kinds.add('zero')
                        elif is_ceil(v):
                            okn = okn and rules.implies_order(cs, '<=', ('const', 0), v)
                            kinds.add('ceil')
                        else:
                            okn = False
                    okn = okn and kinds == {'ceil', 'zero'}
    res.require(okn, 'C16:time_on_air_us:payload-symbols', 'payload symbol count is not 8 + max(ceil(..), 0) * CR denominator: %s' % (term_str(np_)[:160] if np_ else None), bf.body.path,
                'SPEC-SHAPE(n_payload)', instance='n_payload = 8 + max(ceil(num / den), 0) * (CR + 4)')
    dc = [(bb_, t_) for bb_, t_ in bf.calls() if callee_name(t_).endswith('time_on_air_us::div_ceil')]
    okd = len(dc) == 1
    if okd:
        num = rules.linear(term_of_operand(bf, dc[0][1].args[0]))
        den = rules.linear(term_of_operand(bf, dc[0][1].args[1]))

        def classify(lin):
            out = {}
            for a_, c_ in lin.items():
                a0 = strip_cast(a_)
                if a0 == ('param', lenp):
                    out['PL'] = out.get('PL', 0) + c_
                elif isinstance(a0, tuple) and a0[0] == 'call' and a0[1].endswith('SpreadingFactor::factor'):
                    out['SF'] = out.get('SF', 0) + c_
                elif isinstance(a0, tuple) and a0[0] in ('field', 'Not', 'param') and (a0 == ('param', hp) or (a0[0] == 'field' and a0[2] == 'ldro') or (a0[0] == 'Not' and len(a0) == 2)):
                    # `flag as i32`: the indicator of the flag itself (or of its negation)
                    neg = a0[0] == 'Not'
                    b0 = strip_cast(a0[1]) if neg else a0
                    while isinstance(b0, tuple) and b0 and b0[0] in ('ref', 'deref') and len(b0) == 2:
                        b0 = b0[1]
                    if b0 == ('param', hp):
                        nm = 'H' if neg else 'H-inverted'
                    elif isinstance(b0, tuple) and b0[0] == 'field' and b0[2] == 'ldro':
                        nm = 'DE-inverted' if neg else 'DE'
                    else:
                        nm = '?' + term_str(a0)[:20]
                    out[nm] = out.get(nm, 0) + c_
                elif isinstance(a0, tuple) and a0[0] == 'phi':
                    dl = rules.defs_with_conditions(bf, a0[1])
                    consts = sorted(v[1] for v, cs, b_ in dl if v[0] == 'const')
                    sel = set()
                    for v, cs, b_ in dl:
                        for x in cs[-1:]:
                            sel.add('H' if x[0] == ('param', hp) else 'DE' if (isinstance(x[0], tuple) and x[0][0] == 'field' and x[0][2] == 'ldro') else '?')
                    nm = next(iter(sel)) if len(sel) == 1 and consts == [0, 1] else '?'
                    # H = 1 for implicit header: value 1 is chosen when explicit_header is false
                    if nm == 'H':
                        one = [cs for v, cs, b_ in dl if v == ('const', 1)][0]
                        if not rules.cond_false(one[-1]):
                            nm = 'H-inverted'
                    if nm == 'DE':
                        one = [cs for v, cs, b_ in dl if v == ('const', 1)][0]
                        if not rules.cond_true(one[-1]):
                            nm = 'DE-inverted'
                    out[nm] = out.get(nm, 0) + c_
                else:
                    out['?' + term_str(a0)[:20]] = c_
            return out
        okd = (classify(num[0]), num[1]) == ({'PL': 8, 'SF': -4, 'H': -20}, 44) and (classify(den[0]), den[1]) == ({'SF': 4, 'DE': -8}, 0)
    res.require(okd, 'C16:time_on_air_us:ratio-terms', 'the ceiling division is not (8 PL - 4 SF + 28 + 16 - 20 H) / (4 (SF - 2 DE)) with H = implicit header, DE = low data rate optimisation', bf.body.path,
                'SPEC-SHAPE(numerator, denominator as linear forms)', instance='ceil((8 PL - 4 SF + 44 - 20 H) / (4 SF - 8 DE)), H = 1 iff implicit header, DE = 1 iff LDRO')


def tsym_shape(c, res):
    bf = c.bf(BBMP + 'new')
    for b in bf.body.blocks:
        for s in b.stmts:
            if s.k == 'assign' and s.rv.k == 'agg' and s.rv.d.get('adt', '').endswith('BaseBandModulationParams'):
                fl = s.rv.d['fields']
                t = term_of_operand(bf, s.rv.ops[fl.index('t_sym_us')])
                def is_pow2_sf(x):
                    x = rules.strip_widening(x)
                    def is_sf(y):
                        y = rules.strip_widening(y)
                        return isinstance(y, tuple) and y[:1] == ('call',) and y[1].endswith('SpreadingFactor::factor')
                    return (x[0] == 'call' and x[1].endswith('::pow') and x[2][0] == ('const', 2) and is_sf(x[2][1])) or \
                        (x[0] in ('Shl', 'ShlUnchecked') and x[1] == ('const', 1) and is_sf(x[2]))
                ok = t[0] == 'Div' and t[1][0] in ('Mul', 'MulWithOverflow') and t[2][0] == 'call' and t[2][1].endswith('Bandwidth::hz') and \
                    ((rules.linear(t[1][2]) == ({}, 1000000) and is_pow2_sf(t[1][1])) or (rules.linear(t[1][1]) == ({}, 1000000) and is_pow2_sf(t[1][2])))
                res.require(ok, 'C16:new:t_sym-shape', 'symbol time is not 2^SF * 1e6 / BW: %s' % term_str(t), short_site(bf, b.idx), 'SHAPE(t_sym)',
                            instance='t_sym_us = 2^sf.factor() * 1_000_000 / bw.hz()')
                l = term_of_operand(bf, s.rv.ops[fl.index('ldro')])
                res.require(l == ('Ge', t, ('const', 16384)), 'C16:new:ldro-shape', 'ldro is not t_sym_us >= 16384: %s' % term_str(l), short_site(bf, b.idx), 'SHAPE(ldro)',
                            instance='ldro = t_sym_us >= 16_384')
                return
    raise CheckError('BaseBandModulationParams construction not found in new()')
