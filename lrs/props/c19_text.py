"""C19, text forms of identifiers, addresses and keys (Display / FromStr): structural rules.

The hex formatters / parsers themselves (core::fmt, u32::from_str_radix, the `hex` crate) are trusted libraries; what the
repository's code decides - and what these rules judge - is *which bytes in which order with which width* are handed to
them, on both sides:

wire newtypes (parser.rs: DevAddr, DevEui, JoinEui, McAddr, DevNonce, JoinNonce, NetId): N wire bytes, LSB first.
  * VALUE: `from_value(v).value()` gives back `v` on its low 8N bits and zero above (bit provenance, composed in the
    abstract interpreter); so the printed number determines the wire bytes.
  * PRINT: Display formats `self.value()` as hex (either case), one placeholder, no other text, no sign or `#`, zero
    padding whenever a width is given (the format template of core::fmt::Arguments is decoded, the width read).
  * PARSE: every length Display can print (max(width, digits)) passes FromStr's length test; the *whole* string is
    parsed with radix 16 and the result is `from_value` of that number; every other path is an error.
byte-array newtypes (keys.rs via string.rs: the keys, DevEui, AppEui): N stored bytes.
  * PARSE: the whole N-byte array is filled by hex::decode_to_slice from the whole string, optionally reversed as a
    whole, and handed to `From<[u8; N]>`; a decode error is returned before anything else.
  * PRINT: 2N characters, either the whole byte slice encoded in one call, or byte i of the (optionally reversed)
    iteration encoded at characters 2i..2i+2.
  * SYMMETRY: the byte order is reversed on both sides or on neither; keys (big-endian by definition) are not reversed,
    EUIs (stored in wire order, printed MSB first) are.
A text form written in a way none of the recognised shapes covers is reported in the evidence as *not judged* and raises
no alarm (these rules are shape-bound; an unrecognised but correct formatter must not be reported)."""
import ast
import re
from ..runner import CheckError
from .. import tables, rules, bits, absint_interp
from ..absint import Lin
from ..flow import term_of_operand, term_str, term_contains
from ..rules import callee_name, find_in_term, path_conditions, cond_true

ZERO_PAD = 1 << 24
WIDTH_FLAG = 1 << 27
BAD_FLAGS = (1 << 21) | (1 << 22) | (1 << 23)       # + - #


def decode_template(bs):
    """core::fmt::Arguments template -> list of ('lit', bytes) | ('arg', {flags, width, width_indirect, precision, index})"""
    out = []
    i = 0
    nxt = 0
    while i < len(bs):
        n = bs[i]
        i += 1
        if n == 0:
            break
        if n < 0x80:
            out.append(('lit', bs[i:i + n]))
            i += n
        elif n == 0x80:
            ln = bs[i] | (bs[i + 1] << 8)
            i += 2
            out.append(('lit', bs[i:i + ln]))
            i += ln
        elif n == 0xC0:
            out.append(('arg', {'flags': None, 'width': None, 'width_indirect': False, 'precision': None, 'index': nxt}))
            nxt += 1
        else:
            d = {'flags': None, 'width': None, 'width_indirect': bool(n & 16), 'precision': None, 'precision_indirect': bool(n & 32), 'index': None}
            if n & 1:
                d['flags'] = int.from_bytes(bs[i:i + 4], 'little')
                i += 4
            if n & 2:
                d['width'] = int.from_bytes(bs[i:i + 2], 'little')
                i += 2
            if n & 4:
                d['precision'] = int.from_bytes(bs[i:i + 2], 'little')
                i += 2
            if n & 8:
                nxt = int.from_bytes(bs[i:i + 2], 'little')
                i += 2
            d['index'] = nxt
            nxt += 1
            out.append(('arg', d))
    return out


def _const_bytes(t):
    f = find_in_term(t, lambda y: isinstance(y, tuple) and len(y) == 2 and y[0] == 'constx' and isinstance(y[1], str) and y[1].startswith('b"'))
    if f is None:
        return None
    try:
        return ast.literal_eval(f[1])
    except Exception:
        return None


def _is_call(t, suffix):
    # `AsRef::as_ref` also matches the resolved spelling `<T as core::convert::AsRef>::as_ref`
    if not (isinstance(t, tuple) and len(t) == 4 and t[0] == 'call' and isinstance(t[1], str)):
        return False
    if t[1].endswith(suffix):
        return True
    if '::' in suffix:
        a, b = suffix.rsplit('::', 1)
        return t[1].endswith('>::' + b) and (a.split('::')[-1] + '>') in t[1]
    return False


def _calls_in(t, suffix):
    out = []

    def walk(y):
        if isinstance(y, tuple):
            if _is_call(y, suffix):
                out.append(y)
            for z in y:
                walk(z)
    walk(t)
    return out


def _int_of_term(c, bf, t):
    """constant integer value of a term (literal, 2 * N, or a promoted constant), else None"""
    while isinstance(t, tuple) and t and t[0] in ('ref', 'deref') and len(t) == 2:
        t = t[1]
    if isinstance(t, tuple) and t[:1] == ('const',):
        return t[1]
    if isinstance(t, tuple) and t[:1] == ('promoted',):
        for key in ('%s::promoted[%d]' % (t[1], t[2]), '%s::promoted[%d]' % (rules.strip_generics(t[1] or ''), t[2])):
            bl = c.prog.by_short.get(key) or []
            if len(bl) == 1:
                an, fr, out, rv = tables.run_fn(c.prog, bl[0])
                if rv is not None and rv[0] == 'ref':
                    v = an.read_ptr(rv[1], fr, out)
                    if v and v[0] == 'int':
                        return v[1] if isinstance(v[1], int) else tables._single(out, v)
                return None
    lin, k = rules.linear(t) if isinstance(t, tuple) else ({}, None)
    if isinstance(t, tuple) and not lin and k is not None:
        return k
    if isinstance(t, tuple) and t[:1] in (('Mul',), ('MulWithOverflow',)) and len(t) == 3:
        a, b = _int_of_term(c, bf, t[1]), _int_of_term(c, bf, t[2])
        return a * b if a is not None and b is not None else None
    if isinstance(t, tuple) and t[:1] == ('field',) and len(t) >= 3 and t[2] in ('0', 0):
        return _int_of_term(c, bf, t[1])
    return None


def _array_len(prog, ty):
    for _ in range(3):          # newtypes over newtypes (AppKey(AES128([u8; 16])))
        a = prog.adts.get(ty)
        if not a or len(a['variants']) != 1 or len(a['variants'][0]['fields']) != 1:
            return None
        ty = a['variants'][0]['fields'][0]['ty']
        m = re.match(r'^\[u8; (\d+)\]$', ty)
        if m:
            return int(m.group(1))
    return None


def _pairs(prog):
    out = {}
    for p in prog.by_short:
        m = re.match(r'^<(lorawan::[\w:]+) as core::(str::traits::FromStr>::from_str|fmt::Display>::fmt)$', p) or \
            re.match(r'^lorawan::string::<impl core::(str::traits::FromStr|fmt::Display) for (lorawan::[\w:]+)>::(from_str|fmt)$', p)
        if not m:
            continue
        if p.startswith('<'):
            ty, kind = m.group(1), ('from_str' if m.group(2).endswith('from_str') else 'fmt')
        else:
            ty, kind = m.group(2), m.group(3)
        out.setdefault(ty, {})[kind] = p
    return {ty: d for ty, d in out.items() if 'from_str' in d and 'fmt' in d}


# ---------------------------------------------------------------------------------------------- wire newtypes

def value_roundtrip(c, ty, n):
    """from_value(v).value(): result bits vs v. Returns (ok, description); ok None = not evaluated"""
    prog = c.prog
    fb = prog.by_short.get(ty + '::from_value') or []
    vb = prog.by_short.get(ty + '::value') or []
    if len(fb) != 1 or len(vb) != 1:
        return None, 'no from_value / value'
    an = absint_interp.new_analyzer(prog, max_depth=6)
    ity = fb[0].locals[1]
    width = {'u16': 16, 'u32': 32, 'u64': 64, 'u128': 128}.get(ity)
    if width is None:
        return None, 'integer type %s' % ity
    fr, out = an.analyze_entry(fb[0])
    if out is None:
        return None, 'from_value not evaluated'
    obj = out.env.get((fr.id, 0))
    arg = out.env.get((fr.id, 1))
    if obj is None or arg is None or arg[0] != 'int':
        return None, 'from_value result / argument not tracked'
    src = arg[1].single()
    if not src or src[1] != 1 or arg[1].k != 0:
        return None, 'argument is not one symbol'
    out.mem[('obj', 'textform*')] = obj
    rv = an.call_body(vb[0], [('ref', ('O', 'textform*', ()))], None, out, {})
    if rv is None or rv[0] != 'int':
        return None, 'value() result %s' % str(rv)[:40]
    view = bits.BitView(an, out).lin_bits(rv[1], ity)
    if len(view) != width:
        return None, 'result width'
    ok = True
    for k in range(width):
        b = view[k]
        want = ('i', src[0], k) if k < 8 * n else 0
        if b == want:
            continue
        # a bit the interpreter could not follow (a byte copy written as a loop, a helper it does not model) is not a verdict;
        # a bit that is known and different (another bit of the argument, a constant) is
        definite = b in (0, 1) or (isinstance(b, tuple) and b[0] in ('i', 'n') and (b[1] == src[0] or (isinstance(b[1], tuple) and b[1][1] == src[0])))
        if definite:
            return False, 'result bit %d is %s' % (k, bits.fmt([b]))
        ok = None
    return ok, ('identity' if ok else 'some result bits are not followed by the interpreter')


def check_wire(c, res, ty, d, n, not_judged):
    prog = c.prog
    short = ty.split('::')[-1]
    bf = c.bf(d['fmt'])
    printed = {'lengths': [2 * n], 'width': None}
    # ---- PRINT
    news = [(bb, t) for bb, t in bf.calls() if callee_name(t).endswith('fmt::Arguments::new') or callee_name(t).endswith('Arguments::new_v1_formatted')]
    hexa = [(bb, t) for bb, t in bf.calls() if re.search(r'Argument::new_(lower|upper)_hex$', callee_name(t))]
    if len(news) != 1 or len(hexa) != 1:
        not_judged.append('%s: Display is not one hex placeholder through core::fmt::Arguments::new' % short)
    else:
        t = news[0][1]
        tmpl = _const_bytes(term_of_operand(bf, t.args[0]))
        args_t = term_of_operand(bf, t.args[1])
        arr = find_in_term(args_t, lambda y: isinstance(y, tuple) and y[:1] == ('array',))
        if tmpl is None or arr is None:
            not_judged.append('%s: format template / argument array not a constant' % short)
        else:
            parts = decode_template(tmpl)
            ph = [p for p in parts if p[0] == 'arg']
            lits = [p for p in parts if p[0] == 'lit' and p[1]]
            okp = len(ph) == 1 and not lits
            why = []
            if not okp:
                why.append('%d placeholders, literal text %s' % (len(ph), [x[1] for x in lits]))
            else:
                o = ph[0][1]
                a0 = arr[1][o['index']] if o['index'] is not None and o['index'] < len(arr[1]) else None
                is_hex = a0 is not None and isinstance(a0, tuple) and a0[0] == 'call' and re.search(r'new_(lower|upper)_hex$', a0[1])
                val = is_hex and _calls_in(a0, ty.split('::')[-1] + '::value')
                val_ok = bool(val) and term_contains(val[0][2][0], lambda y: y == ('param', 1))
                if not is_hex:
                    why.append('the placeholder does not print in hexadecimal')
                elif not val_ok:
                    why.append('the number printed is not self.value(): %s' % term_str(a0)[:80])
                fl = o['flags'] or 0
                w = None
                if o['width'] is not None:
                    if o['width_indirect']:
                        wa = arr[1][o['width']] if o['width'] < len(arr[1]) else None
                        w = _int_of_term(c, bf, wa[2][0]) if isinstance(wa, tuple) and wa[0] == 'call' and wa[1].endswith('from_usize') else None
                    else:
                        w = o['width']
                if fl & BAD_FLAGS:
                    why.append('format flags 0x%08x: a sign or `#` prefix is not part of the hex text form' % fl)
                if o['width'] is not None and w is None:
                    why.append('the field width is not a constant')
                padded = bool(fl & ZERO_PAD) or (fl & 0x1FFFFF) == 0x30
                if w is not None and w > 1 and not padded:
                    why.append('width %d without zero padding: short values are printed with leading blanks, which the parser refuses' % w)
                printed['lengths'] = sorted({max(w or 0, dgt) for dgt in range(1, 2 * n + 1)})
                printed['width'] = w
            res.require(not why, 'C19:text:%s:print' % short, '%s Display: %s' % (short, '; '.join(why)), bf.body.path, 'TEXT-PRINT(hex of value(), one placeholder, zero-padded when a width is given)',
                        instance='%s: Display = hex of value(), width %s, zero-padded' % (short, printed['width']))
    # ---- PARSE
    bp = c.bf(d['from_str'])
    radix = [(bb, t) for bb, t in bp.calls() if callee_name(t).endswith('::from_str_radix')]
    fv = [(bb, t) for bb, t in bp.calls() if callee_name(t).endswith(short + '::from_value')]
    if len(radix) != 1 or len(fv) != 1:
        not_judged.append('%s: FromStr is not from_str_radix followed by from_value' % short)
    else:
        why = []
        rb, rt = radix[0]
        a0 = term_of_operand(bp, rt.args[0])
        a1 = term_of_operand(bp, rt.args[1])
        whole = term_contains(a0, lambda y: y == ('param', 1)) and not _calls_in(a0, 'index') and not _calls_in(a0, 'get') and not _calls_in(a0, 'split_at') and not _calls_in(a0, 'trim')
        if not whole:
            why.append('the digits parsed are not the whole input string: %s' % term_str(a0)[:60])
        if a1 != ('const', 16):
            why.append('radix %s' % term_str(a1))
        fb_, ft = fv[0]
        src = term_of_operand(bp, ft.args[0])
        if not _calls_in(src, '::from_str_radix'):
            why.append('from_value is not given the parsed number: %s' % term_str(src)[:60])
        # the length test must let the printed form through: every condition on len(s) on the way to from_str_radix holds
        # for len(s) = 2N (a parser that also accepts shorter input still round-trips what Display prints)
        import operator
        ops = {'Eq': operator.eq, 'Ne': operator.ne, 'Lt': operator.lt, 'Le': operator.le, 'Gt': operator.gt, 'Ge': operator.ge}
        flip = {'Lt': 'Gt', 'Le': 'Ge', 'Gt': 'Lt', 'Ge': 'Le', 'Eq': 'Eq', 'Ne': 'Ne'}
        conds = path_conditions(bp, rb)
        for cnd in conds:
            tm = cnd[0]
            if isinstance(tm, tuple) and tm[0] in ops and len(tm) == 3:
                for x, y, op in ((tm[1], tm[2], tm[0]), (tm[2], tm[1], flip[tm[0]])):
                    if _calls_in(x, '::len') and not _calls_in(y, '::len'):
                        v = _int_of_term(c, bp, y)
                        if v is None:
                            continue
                        for ln_ in printed['lengths']:
                            if ops[op](ln_, v) != bool(cond_true(cnd)):
                                why.append('a string of %d characters (which Display prints%s) is refused: the parser requires len(s) %s %d to be %s' % (
                                    ln_, '' if ln_ == 2 * n else ' for small values', op, v, bool(cond_true(cnd))))
                                break
        # Ok only with from_value's result
        oks = 0
        for b in bp.body.blocks:
            if b.cleanup:
                continue
            for s in b.stmts:
                if s.k == 'assign' and s.rv.k == 'agg' and s.rv.d.get('variant') == 'Ok' and s.lhs.local == 0:
                    oks += 1
                    pv = term_of_operand(bp, s.rv.ops[0])
                    if not _calls_in(pv, short + '::from_value'):
                        why.append('an Ok result is not from_value(parsed number): %s' % term_str(pv)[:60])
        if oks != 1:
            why.append('%d Ok results' % oks)
        res.require(not why, 'C19:text:%s:parse' % short, '%s FromStr: %s' % (short, '; '.join(why)), bp.body.path, 'TEXT-PARSE(every printed length accepted, whole string, radix 16, from_value)',
                    instance='%s: FromStr = from_value(from_str_radix(s, 16)), accepts the printed lengths %s' % (short, printed['lengths']))


# ---------------------------------------------------------------------------------------------- byte-array newtypes

def _reversed_whole(bf, local):
    """calls of <[T]>::reverse on the whole local array"""
    out = []
    for bb, t in bf.calls():
        if callee_name(t).endswith('<impl [T]>::reverse') or callee_name(t).endswith('slice::<impl [T]>::reverse'):
            a = term_of_operand(bf, t.args[0])
            whole = not _calls_in(a, 'index_mut') and not _calls_in(a, 'split_at_mut') and not _calls_in(a, 'get_mut')
            out.append((bb, whole, a))
    return out


def wrappers_roundtrip(c, ty, n):
    """AsRef<[u8]>::as_ref(&From<[u8; N]>::from(bytes)) element by element; (True | False | None, text)"""
    prog = c.prog
    fb = prog.by_short.get('<%s as core::convert::From<[u8; %d]>>::from' % (ty, n)) or []
    ab = prog.by_short.get('<%s as core::convert::AsRef<[u8]>>::as_ref' % ty) or []
    if len(fb) != 1 or len(ab) != 1:
        return None, 'bodies not found'
    an = absint_interp.new_analyzer(prog, max_depth=6)
    names = ['wb%d' % i for i in range(n)]

    def setup(an_, fr, st):
        els = {}
        for i, nm in enumerate(names):
            st.lo[nm], st.hi[nm] = 0, 255
            els[i] = ('int', Lin.sym(nm))
        st.env[(fr.id, 1)] = ('array', n, els, None, None, 'u8')
    try:
        fr, out = an.analyze_entry(fb[0], setup=setup)
        if out is None:
            return None, 'From not evaluated'
        out.mem[('obj', 'textwrap*')] = out.env.get((fr.id, 0))
        rv = an.call_body(ab[0], [('ref', ('O', 'textwrap*', ()))], None, out, {})
        if rv is None or rv[0] != 'sref' or not rv[3].is_const():
            return None, 'as_ref result %s' % str(rv)[:40]
        if rv[3].k != n:
            return False, 'as_ref returns %d bytes' % rv[3].k
        unknown = False
        for i in range(n):
            e = an.read_elem(rv, Lin.const(i), fr, out)
            lin = an.as_int(e, out) if e is not None else None
            sg = lin.single() if lin is not None else None
            if sg and sg[1] == 1 and lin.k == 0 and sg[0] == names[i]:
                continue
            if sg and sg[1] == 1 and lin.k == 0 and sg[0] in names:
                return False, 'byte %d handed back is byte %d of the array stored' % (i, names.index(sg[0]))
            unknown = True
        return (None, 'not followed by the interpreter') if unknown else (True, 'identity')
    except Exception as e:
        return None, 'not evaluated (%s)' % type(e).__name__


def _per_octet_format(c, bf, clos):
    """Display written as `for b in bytes { write!(f, "{:02x}", b) }` (loop, for_each or try_for_each; closure or inline):
    {n_formats, literals, width, zero, bad_flags, whole, n_rev} or None when the body has no hex placeholder of a byte"""
    bodies = [bf] + [c.bf(p) for p in clos]
    fmts = []
    for b in bodies:
        for bb, t in b.calls():
            if callee_name(t).endswith('fmt::Arguments::new'):
                tmpl = _const_bytes(term_of_operand(b, t.args[0]))
                arr = find_in_term(term_of_operand(b, t.args[1]), lambda y: isinstance(y, tuple) and y[:1] == ('array',))
                if tmpl is None or arr is None:
                    continue
                hexes = [a for a in arr[1] if isinstance(a, tuple) and a[0] == 'call' and re.search(r'new_(lower|upper)_hex$', a[1])]
                if hexes:
                    fmts.append((b, tmpl, arr))
    if not fmts:
        return None
    out = {'n_formats': len(fmts), 'literals': [], 'width': None, 'zero': False, 'bad_flags': False, 'whole': False, 'n_rev': 0}
    b, tmpl, arr = fmts[0]
    parts = decode_template(tmpl)
    out['literals'] = [p[1] for p in parts if p[0] == 'lit' and p[1]]
    ph = [p[1] for p in parts if p[0] == 'arg']
    if len(ph) == 1:
        o = ph[0]
        fl = o['flags'] or 0
        out['zero'] = bool(fl & ZERO_PAD) or (fl & 0x1FFFFF) == 0x30
        out['bad_flags'] = bool(fl & BAD_FLAGS)
        if o['width'] is not None:
            if o['width_indirect']:
                wa = arr[1][o['width']] if o['width'] < len(arr[1]) else None
                out['width'] = _int_of_term(c, b, wa[2][0]) if isinstance(wa, tuple) and wa[0] == 'call' and wa[1].endswith('from_usize') else None
            else:
                out['width'] = o['width']
        else:
            out['width'] = 0
    else:
        out['n_formats'] = len(ph) if len(ph) != 1 else out['n_formats']
    # the iteration: some chain in the Display body starts from self.as_ref() (whole) and is reversed at most once
    for bb, t in bf.calls():
        for a in t.args:
            tm = term_of_operand(bf, a)
            if _calls_in(tm, 'AsRef::as_ref') and term_contains(tm, lambda y: y == ('param', 1)):
                if not any(_calls_in(tm, s_) for s_ in ('index', 'get', 'split_at', 'skip', 'take', 'step_by')):
                    out['whole'] = True
                out['n_rev'] = max(out['n_rev'], len(_calls_in(tm, 'Iterator::rev')))
    return out


def check_bytes(c, res, ty, d, n, not_judged, expect_reversed):
    short = ty.split('::')[-1]
    key = ty.split('::')[-2] + '::' + short
    bp = c.bf(d['from_str'])
    dec = [(bb, t) for bb, t in bp.calls() if callee_name(t).endswith('hex::decode_to_slice')]
    rev_p = None
    if len(dec) != 1:
        not_judged.append('%s: FromStr does not use one hex::decode_to_slice call' % key)
    else:
        why = []
        db, dt = dec[0]
        src = term_of_operand(bp, dt.args[0])
        dst = term_of_operand(bp, dt.args[1])
        if not (term_contains(src, lambda y: y == ('param', 1)) and not any(_calls_in(src, s_) for s_ in ('index', 'get', 'split_at', 'trim'))):
            why.append('the text decoded is not the whole input: %s' % term_str(src)[:60])
        rep = find_in_term(dst, lambda y: isinstance(y, tuple) and y[:1] == ('repeat',))
        dst_local = dt.args[1].place.local if dt.args[1].place is not None else None
        root = bp.root_of_operand(dt.args[1])
        arr_local = root[0] if root else None
        arr_ty = bp.body.locals[arr_local] if arr_local is not None and arr_local < len(bp.body.locals) else None
        whole_dst = arr_ty == '[u8; %d]' % n and not any(_calls_in(dst, s_) for s_ in ('index_mut', 'get_mut', 'split_at_mut'))
        if not whole_dst:
            why.append('the bytes decoded into are not the whole [u8; %d] array (%s)' % (n, arr_ty))
        revs = _reversed_whole(bp, arr_local)
        rev_p = len(revs) == 1 and revs[0][1] and bp.cfg.dominates(db, revs[0][0])
        if revs and not rev_p:
            why.append('reverse() is not applied once to the whole array after decoding')
        froms = [(bb, t) for bb, t in bp.calls() if t.callee_best() and 'as core::convert::From<[u8; %d]>>::from' % n in (t.callee_res() or t.callee_best())]
        okf = len(froms) == 1
        if okf:
            fr_root = bp.root_of_operand(froms[0][1].args[0])
            a = term_of_operand(bp, froms[0][1].args[0])
            okf = (fr_root and fr_root[0] == arr_local) or term_contains(a, lambda y: y == ('phi', arr_local)) or (a == dst) or term_contains(a, lambda y: isinstance(y, tuple) and y[:1] == ('repeat',))
            okf = okf and bp.cfg.dominates(db, froms[0][0]) and (not revs or bp.cfg.dominates(revs[0][0], froms[0][0]))
        if not okf:
            why.append('the value returned is not From<[u8; %d]> of the decoded array' % n)
        # the decode error is propagated: the Ok result is only reachable over the Ok edge of the decode call
        oks = [(b.idx) for b in bp.body.blocks if not b.cleanup for s in b.stmts if s.k == 'assign' and s.rv.k == 'agg' and s.rv.d.get('variant') == 'Ok' and s.lhs.local == 0]
        edges = bp.ok_edges(dt.dest.local) if dt.dest is not None else []
        if len(oks) != 1 or not edges or not bp.guarded_by_edges(oks[0], edges):
            why.append('Ok is returned without the decoding having succeeded')
        res.require(not why, 'C19:text:%s:parse' % key, '%s FromStr: %s' % (key, '; '.join(why)), bp.body.path, 'TEXT-PARSE(whole string -> whole array, error propagated)',
                    instance='%s: FromStr decodes %d hex digits into the whole array%s' % (key, 2 * n, ', reversed' if rev_p else ''))
    # the two conversions the text forms go through are plain wrappers of the stored bytes: From<[u8; N]> followed by AsRef<[u8]> hands
    # back the same N bytes in the same order (composed in the abstract interpreter on N symbolic bytes)
    okw, whatw = wrappers_roundtrip(c, ty, n)
    if okw is None:
        not_judged.append('%s: From<[u8; %d]> / AsRef<[u8]> composition %s' % (key, n, whatw))
    else:
        res.require(okw, 'C19:text:%s:wrappers' % key, '%s: AsRef<[u8]> of From<[u8; %d]>(bytes) is not the same bytes in the same order: %s' % (key, n, whatw), ty,
                    'TEXT-WRAP(From ; AsRef = identity on the bytes)', instance='%s: From<[u8; %d]> stores, AsRef<[u8]> returns the same bytes' % (key, n))
    bf = c.bf(d['fmt'])
    rev_d = None
    enc = [(bb, t) for bb, t in bf.calls() if callee_name(t).endswith('hex::encode_to_slice')]
    clos = [p for p in c.prog.by_short if p.startswith(d['fmt'] + '::{closure#') and 'promoted' not in p]
    enc_c = []
    for p in clos:
        cb = c.bf(p)
        enc_c += [(cb, bb, t) for bb, t in cb.calls() if callee_name(t).endswith('hex::encode_to_slice')]
    takes = [(bb, t) for bb, t in bf.calls() if callee_name(t).endswith('Iterator::take')]
    why = []
    judged = True
    one_byte = None
    if len(enc) + len(enc_c) == 1:
        eb, ebb, et = (bf, enc[0][0], enc[0][1]) if enc else enc_c[0]
        one_byte = find_in_term(term_of_operand(eb, et.args[0]), lambda y: isinstance(y, tuple) and y[:1] == ('array',) and len(y[1]) == 1) is not None
    if len(enc) == 1 and not enc_c and not one_byte:
        t = enc[0][1]
        src = term_of_operand(bf, t.args[0])
        dst = term_of_operand(bf, t.args[1])
        if not (_calls_in(src, 'AsRef::as_ref') and term_contains(src, lambda y: y == ('param', 1)) and not any(_calls_in(src, s_) for s_ in ('index', 'get', 'rev'))):
            why.append('the bytes encoded are not the whole self.as_ref(): %s' % term_str(src)[:60])
        if any(_calls_in(dst, s_) for s_ in ('index_mut', 'get_mut', 'split_at_mut')):
            why.append('the characters written are not the whole string')
        rev_d = False
    elif len(enc) + len(enc_c) == 1 and one_byte:
        cb, bb, t = (bf, enc[0][0], enc[0][1]) if enc else enc_c[0]
        src = term_of_operand(cb, t.args[0])
        dst = term_of_operand(cb, t.args[1])
        # item = (i, &b): one byte *b at characters 2i .. 2i + 2
        one = find_in_term(src, lambda y: isinstance(y, tuple) and y[:1] == ('array',) and len(y[1]) == 1)
        if one is None or not term_contains(one, lambda y: isinstance(y, tuple) and y[:1] == ('field',) and y[2] in ('1', 1)):
            why.append('the closure does not encode exactly the byte of its item: %s' % term_str(src)[:60])
        rng = find_in_term(dst, lambda y: isinstance(y, tuple) and y[:1] == ('agg',) and 'Range' in str(y[1]))
        okr = False
        if rng is not None:
            fl = dict(rng[2])
            ls, ks = rules.linear(fl.get('start'))
            le, ke = rules.linear(fl.get('end'))
            okr = ks == 0 and ke == 2 and ls == le and len(ls) == 1 and list(ls.values()) == [2] and \
                term_contains(list(ls)[0], lambda y: isinstance(y, tuple) and y[:1] == ('field',) and y[2] in ('0', 0))
        if not okr:
            why.append('byte i is not written at characters 2i..2i+2: %s' % term_str(dst)[:80])
        chain = None
        for bb2, t2 in bf.calls():
            # the iteration handed to for_each / a `for` loop (IntoIterator::into_iter) / try_for_each
            for a_ in t2.args[:1]:
                tm_ = term_of_operand(bf, a_)
                if _calls_in(tm_, 'AsRef::as_ref') and _calls_in(tm_, 'Iterator::enumerate') and (chain is None or len(str(tm_)) < len(str(chain))):
                    chain = tm_
        if chain is None or not (_calls_in(chain, 'AsRef::as_ref') and _calls_in(chain, 'Iterator::enumerate')):
            why.append('the bytes iterated are not self.as_ref() enumerated')
        else:
            nrev = len(_calls_in(chain, 'Iterator::rev'))
            en = _calls_in(chain, 'Iterator::enumerate')[0]
            # rev must be applied before enumerate (the index counts positions of the text)
            rev_inside = len(_calls_in(en[2][0], 'Iterator::rev'))
            if nrev > 1 or rev_inside != nrev:
                why.append('the order of rev() and enumerate() makes the index count from the wrong end')
            rev_d = nrev == 1
    elif not enc and not enc_c and _per_octet_format(c, bf, clos) is not None:
        # one octet at a time through the formatter: write!(f, "{:02x}", b) for every byte of the (optionally reversed) iteration
        o = _per_octet_format(c, bf, clos)
        if o['n_formats'] != 1:
            why.append('%d hex placeholders' % o['n_formats'])
        if o['literals']:
            why.append('literal text %s between the octets' % o['literals'])
        if o['width'] != 2 or not o['zero']:
            why.append('each octet is printed with width %s%s: an octet below 0x10 does not give two hex digits' % (o['width'], '' if o['zero'] else ' and blank padding'))
        if o['bad_flags']:
            why.append('a sign or `#` prefix is not part of the hex text form')
        if not o['whole']:
            why.append('the octets printed are not the bytes of self.as_ref()')
        rev_d = o['n_rev'] == 1
        if o['n_rev'] > 1:
            why.append('%d reversals of the iteration' % o['n_rev'])
    else:
        judged = False
        not_judged.append('%s: Display is neither one whole hex::encode_to_slice, one per-byte closure nor a per-octet format' % key)
    if judged:
        cnt = [_int_of_term(c, bf, term_of_operand(bf, t.args[1])) for bb, t in takes]
        if takes and cnt != [2 * n]:
            why.append('the string is pre-filled with %s characters, %d bytes need %d' % (cnt, n, 2 * n))
        res.require(not why, 'C19:text:%s:print' % key, '%s Display: %s' % (key, '; '.join(why)), bf.body.path, 'TEXT-PRINT(every stored byte once, two digits each, in order)',
                    instance='%s: Display writes %d hex digits%s' % (key, 2 * n, ', bytes reversed' if rev_d else ''))
    if rev_p is not None and rev_d is not None:
        res.require(rev_p == rev_d, 'C19:text:%s:symmetry' % key, '%s: FromStr %s the byte order, Display %s: printing and parsing do not round-trip' % (
            key, 'reverses' if rev_p else 'keeps', 'reverses it' if rev_d else 'keeps it'), bf.body.path, 'TEXT-SYMMETRY(reverse on both sides or on neither)',
            instance='%s: byte order %s on both sides' % (key, 'reversed' if rev_p else 'kept'))
        res.require(rev_p == expect_reversed and rev_d == expect_reversed, 'C19:text:%s:msb-first' % key,
                    '%s: the text form is %s; %s' % (key, 'reversed' if rev_p else 'in storage order',
                                                     'EUIs are stored in wire order (LSB first) and printed MSB first' if expect_reversed else 'keys are stored and printed MSB first'),
                    bf.body.path, 'TEXT-ORDER(MSB-first hex)', instance='%s: MSB-first text (%s)' % (key, 'reversed storage' if expect_reversed else 'storage order'))


def check(c, res):
    prog = c.prog
    pairs = _pairs(prog)
    if len(pairs) < 15:
        raise CheckError('floor: types with Display and FromStr %d < 15' % len(pairs))
    not_judged = []
    n_wire = n_bytes = 0
    for ty in sorted(pairs):
        d = pairs[ty]
        n = _array_len(prog, ty)
        if n is None:
            not_judged.append('%s: not a newtype over [u8; N]' % ty)
            continue
        if ty.startswith('lorawan::parser::'):
            n_wire += 1
            check_wire(c, res, ty, d, n, not_judged)
            try:
                ok, what = value_roundtrip(c, ty, n)
            except Exception as e:          # the composition is an extra; an interpreter limitation is not a verdict
                ok, what = None, 'not evaluated (%s)' % type(e).__name__
            if ok is None:
                not_judged.append('%s: from_value/value composition %s' % (ty.split('::')[-1], what))
            else:
                res.require(ok, 'C19:text:%s:value' % ty.split('::')[-1], '%s: from_value(v).value() is not v on the low %d bits and zero above (%s)' % (ty.split('::')[-1], 8 * n, what), ty,
                            'TEXT-VALUE(from_value ; value = identity on N bytes)', instance='%s: value(from_value(v)) = v mod 2^%d' % (ty.split('::')[-1], 8 * n))
        else:
            n_bytes += 1
            check_bytes(c, res, ty, d, n, not_judged, expect_reversed=ty.split('::')[-1].endswith('Eui'))
    res.coverage['text_forms'] = {'types': len(pairs), 'wire_newtypes': n_wire, 'byte_array_newtypes': n_bytes, 'not_judged': not_judged}
