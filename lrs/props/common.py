"""shared state for property modules: program/flow/effects per configuration (lazy, cached)"""
from .. import runner, flow

_cache = {}


class Ctx:
    def __init__(self, config):
        self.config = config
        self.prog, self.info = runner.load_program(config)
        self.pf = flow.ProgFlow(self.prog)
        self._ef = None

    @property
    def ef(self):
        if self._ef is None:
            self._ef = flow.Effects(self.pf)
        return self._ef

    def bf(self, short):
        try:
            return self.pf.get(short)
        except KeyError as e:
            raise runner.CheckError('missing anchor: %s (renamed or removed? update the rule table)' % e)

    def has(self, short):
        return len(self.prog.by_short.get(short, [])) == 1


def ctx(config='ws'):
    if config not in _cache:
        _cache[config] = Ctx(config)
    return _cache[config]


def short_site(bf, bb, si=None):
    return str(flow.Site(bf.body, bb, si))
