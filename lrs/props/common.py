"""shared state for property modules: program/flow/effects per configuration (lazy, cached)"""
from .. import runner, flow

_cache = {}


class Ctx:
    def __init__(self, config):
        self.config = config
        self.prog, self.info = runner.load_program(config)
        self.pf = flow.ProgFlow(self.prog)
        from .. import rules as _rules
        _rules.set_progflow(self.pf)
        self._ef = None

    @property
    def ef(self):
        if self._ef is None:
            self._ef = flow.Effects(self.pf)
        return self._ef

    def bf(self, short):
        try:
            return self.pf.get(short)
        except KeyError as e:
            raise runner.CheckError('missing anchor: %s (renamed or removed? update the rule table)' % e)

    def has(self, short):
        return len(self.prog.by_short.get(short, [])) == 1


def ctx(config='ws'):
    import os
    # thorough tier of the device-stack checks: the same rules over the all-features build of lorawan-device
    if config == 'ws' and os.environ.get('LRS_CONFIG_OVERRIDE'):
        config = os.environ['LRS_CONFIG_OVERRIDE']
    if config not in _cache:
        _cache[config] = Ctx(config)
    return _cache[config]


def short_site(bf, bb, si=None):
    return str(flow.Site(bf.body, bb, si))


# whole-object overwrites that replace the session (and with it every counter / flag it holds). The writer set of
# Mac.state itself is decided by C11 (who may install a session) and C20 (restore installs the given session whole).
SESSION_REPLACERS = {
    'lorawan_device::mac::Mac::join_otaa': 'state = Otaa(..): a new join discards the session on application request',
    'lorawan_device::mac::Mac::join_abp': 'state = Joined(new ABP session) on application request',
    'lorawan_device::mac::Mac::set_session': 'state = Joined(restored session) on application request (C20)',
    'lorawan_device::mac::Mac::handle_rx': 'state = Joined(session derived from an authenticated JoinAccept) (C11)',
}


def is_session_replacement(body, stmt, kind):
    """an 'overwrite' writer that is one of the reviewed session replacements: a store to Mac.state in a listed function"""
    if kind != 'overwrite' or body.path not in SESSION_REPLACERS:
        return False
    lhs = getattr(stmt, 'lhs', None)
    if lhs is None or not lhs.proj:
        return False
    last = lhs.proj[-1]
    return isinstance(last, dict) and 'f' in last and last.get('n') == 'state'
