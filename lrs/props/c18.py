"""C18 — reading a received packet never overruns the caller's buffer.

Decides on MIR: (a) abstract interpretation of the packet-fetch path of both drivers and of the generic PHY layer
and LoRaWAN adapter with every chip-reported byte unconstrained: every bounds / slice / overflow / unwrap site in
get_rx_payload, get_rx_packet_status, get_rssi (SX126x, SX127x; LR11xx through the generic layer), their SPI
helpers, LoRa::complete_rx / get_rx_result / rx and LorawanRadio::rx_single / rx_continuous is discharged - in
particular the slice handed to the SPI read is `receiving_buffer[..payload_length]` with payload_length <=
len(buffer) proven; (b) structural rules: the slice starts at 0 and its bound is the value returned; the only
write through the caller's buffer is that read; explicit header: the length is the chip's status byte, implicit:
the configured length; the read position comes from the chip (status byte 1 / RegFifoRxCurrentAddr); an error
status returns Err before the bytes are used; (c) the adapter returns the driver's length unchanged and the MAC
front-end positions its buffer with exactly that length."""
import re
from ..runner import Result, CheckError
from .. import absint_interp, absint_inv, rules, flow
from ..rules import term_of_operand, term_of_local, term_str, param_by_name, callee_name, path_conditions, cond_true, cond_false
from ..flow import term_contains
from .common import ctx, short_site
from ..layout import peel

PID = 'C18'

ENTRIES = [
    r'^<lora_phy::sx126x::Sx126x<SPI, IV, C> as lora_phy::mod_traits::RadioKind>::(get_rx_payload|get_rx_packet_status|get_rssi)$',
    r'^<lora_phy::sx127x::Sx127x<SPI, IV, C> as lora_phy::mod_traits::RadioKind>::(get_rx_payload|get_rx_packet_status|get_rssi)$',
    r'^lora_phy::LoRa::(complete_rx|get_rx_result|rx)$',
    r'^<lora_phy::lorawan_radio::LorawanRadio<RK, DLY, P, G> as lorawan_device::async_device::radio::PhyRxTx>::(rx_single|rx_continuous)$',
]
# obligations of these functions (and everything they call except the listed other-property functions) are in scope
SCOPE = re.compile(r'get_rx_payload|get_rx_packet_status|get_rssi|LoRa::complete_rx|LoRa::get_rx_result|LoRa::rx\b|LorawanRadio<.*>::rx_(single|continuous)|'
                   r'SpiInterface::|::read_register|::read_buffer|::write_register|::reg_r_8|::linearize_rssi|rssi_offset|OpStatusErrorMask|Register::')
OUT_OF_SCOPE = re.compile(r'process_irq_event|get_irq_state|do_rx|start_rx|set_lora_symbol_num_timeout|prepare_for_rx|ensure_ready|set_standby|wait_for_irq|await_irq|clear_irq')


def run(tier):
    res = Result(PID)
    c = ctx('ws')
    prog = c.prog
    an = absint_interp.new_analyzer(prog, max_depth=8)
    n_ent = 0
    for pat in ENTRIES:
        for b in prog.find(pat):
            if b.coroutine or b.stage == 'promoted':
                continue
            n_ent += 1
            absint_interp.analyze_async_entry(an, b)
    if n_ent != 11:
        raise CheckError('floor: expected 11 packet-fetch entry points, found %d (renamed? update ENTRIES)' % n_ent)
    n_obl = n_ok = 0
    for o in sorted(an.finalize_obligations(), key=lambda o: o.key()):
        if OUT_OF_SCOPE.search(o.fn) or not SCOPE.search(o.fn):
            continue
        n_obl += 1
        if o.bad:
            res.violation('C18:%s:%s:%s#%d' % (short(o.fn), o.kind, o.desc, o.ord), 'panic-capable site on the packet-fetch path not discharged: %s' % (o.detail or {}).get('why'),
                          '%s (%s)' % (o.fn, o.span), 'OBLIGATION(%s)' % o.kind, o.detail)
        else:
            n_ok += 1
            res.ok('OBLIGATION(%s)' % o.kind, short(o.fn) + ':' + o.kind + ':' + o.desc + '#%d' % o.ord, o.span)
    if n_obl < 25:
        raise CheckError('floor: obligations on the packet-fetch path %d < 25' % n_obl)
    for drv in ('sx126x::Sx126x', 'sx127x::Sx127x'):
        fetch_rules(c, res, drv)
    adapter_rules(c, res)
    res.coverage.update({'obligations': n_obl, 'discharged': n_ok, 'entries': n_ent, 'class_hierarchy_joins': an.cha_log,
                         'unmodelled_external_calls': dict(sorted(an.havoc_log.items(), key=lambda x: -x[1])[:12]), 'configs': [c.info]})
    res.explanation = __doc__
    res.assumptions = ['SPI/bus traits (embedded-hal) are external: reads return unconstrained bytes, which is exactly the quantifier of the property',
                       'foreign PhyRxTx implementations must return a length <= len(buffer) (trait contract); the workspace adapter is checked']
    return res


def short(fn):
    return re.sub(r'<[A-Z, ]+>', '', fn.replace('lora_phy::', '').replace(' as mod_traits::RadioKind', ''))


def fetch_rules(c, res, drv):
    name = [p for p in c.prog.by_short if p.endswith('RadioKind>::get_rx_payload::{closure#0}') and drv in p]
    if len(name) != 1:
        raise CheckError('missing anchor: %s::get_rx_payload' % drv)
    bf = c.bf(name[0])
    body = bf.body
    d = drv.split('::')[0]
    # coroutine upvars: _1.0 = self, _1.1 = rx_pkt_params, _1.2 = receiving_buffer
    def upvar(i):
        return ('field', ('param', 1), str(i))
    buf_t = upvar(2)
    # the SPI read into the caller's buffer
    reads = []
    AWAIT_MACHINERY = ('Pin::new_unchecked', 'IntoFuture::into_future', 'Future::poll', 'future::get_context')
    for bb, t in bf.calls():
        cn = callee_name(t)
        if any(cn.endswith(x) for x in AWAIT_MACHINERY):
            continue
        for i, a in enumerate(t.args):
            tt = term_of_operand(bf, a)
            if term_contains(tt, lambda x: x == buf_t) and (a.ty or '').startswith('&mut'):
                reads.append((bb, t, i, tt, cn))
    # `receiving_buffer.len()` is a shared read; mutable uses are: the Index call producing the sub-slice and the read
    idx = [r for r in reads if r[4].endswith('IndexMut::index_mut')]
    rd = [r for r in reads if not r[4].endswith('IndexMut::index_mut')]
    res.require(len(idx) == 1 and len(rd) == 1, 'C18:%s:buffer-writers' % d, 'the caller buffer is handed to %d index and %d read operations (expected 1/1): %s'
                % (len(idx), len(rd), [r[4] for r in reads]), short_site(bf, 0), 'EFFECT(single write through buffer)',
                instance='%s get_rx_payload: the caller buffer is written by exactly one SPI read' % d)
    if len(idx) != 1 or len(rd) != 1:
        return
    bbi, ti, _, _, _ = idx[0]
    rng = term_of_operand(bf, ti.args[1])
    # range 0..len or ..len
    start_ok = rng[0] == 'agg' and (rng[1].endswith('RangeTo') or (rng[1].endswith('::Range') and dict(rng[2]).get('start') == ('const', 0)))
    end = dict(rng[2]).get('end') if rng[0] == 'agg' else None
    res.require(start_ok, 'C18:%s:slice-start' % d, 'packet bytes are not stored from the start of the caller buffer: %s' % term_str(rng), short_site(bf, bbi),
                'SHAPE(buffer[..len])', instance='%s: read target is receiving_buffer[0..len]' % d)
    # the returned length is the slice bound
    rets = []
    for b in body.blocks:
        if b.cleanup:
            continue
        for si, s in enumerate(b.stmts):
            if s.k == 'assign' and s.lhs.is_local() and s.lhs.local == 0 and s.rv.k == 'agg' and s.rv.d.get('variant') == 'Ok':
                rets.append((b.idx, term_of_operand(bf, s.rv.ops[0])))
    same = end is not None and len(rets) == 1 and rules.strip_widening(end) == rules.strip_widening(rets[0][1])
    res.require(same, 'C18:%s:returned-length' % d, 'returned length %s is not the bound of the slice that was filled (%s)' % ([term_str(r[1]) for r in rets], term_str(end) if end else None),
                short_site(bf, bbi), 'SAME-VALUE(len)', instance='%s: Ok(len) where len bounds the filled slice' % d)
    # the read uses that sub-slice
    bbr, tr, ai, tt, cn = rd[0]
    res.require(term_contains(tt, lambda x: isinstance(x, tuple) and len(x) == 4 and x[0] == 'call' and x[3] == bbi), 'C18:%s:read-target' % d,
                'the SPI read does not target the bounded sub-slice: %s' % term_str(tt), short_site(bf, bbr), 'SAME-VALUE(slice)', instance='%s: SPI read into the bounded sub-slice' % d)
    # length source
    if rets:
        lt = rets[0][1]
        if lt[0] == 'phi':
            dl = rules.defs_with_conditions(bf, lt[1])
        else:
            dl = [(lt, [], 0)]
        srcs = []
        imp = ('field', ('deref', upvar(1)), 'implicit_header')
        for v, cs, bb in dl:
            imp_true = any(x[0] == imp and cond_true(x) for x in cs)
            imp_false = any(x[0] == imp and cond_false(x) for x in cs)
            srcs.append((term_str(v)[:90], 'implicit' if imp_true else 'explicit' if imp_false else '?'))
        ok_src = len(dl) == 2 and sorted(s[1] for s in srcs) == ['explicit', 'implicit']
        if d == 'sx127x':
            ok_src = ok_src and any(s[1] == 'implicit' and 'payload_length' in s[0] for s in srcs) and any(s[1] == 'explicit' and 'read_register' in s[0] or s[1] == 'explicit' for s in srcs)
        res.require(ok_src, 'C18:%s:length-source' % d, 'packet length sources are %s (expected: chip-reported for explicit header, configured for implicit)' % srcs,
                    None, 'PROVENANCE(len)', instance='%s: length = chip status (explicit) / configured (implicit)' % d)
    # the size test guards the read: len as usize > buffer.len() => Err
    conds = path_conditions(bf, bbi)
    g = False
    for x in conds:
        if cond_false(x) and x[0][0] == 'Gt' and term_contains(x[0][2], lambda y: isinstance(y, tuple) and y[:1] == ('call',) and y[1].endswith('::len') and term_contains(y, lambda z: z == buf_t)):
            g = True
    res.require(g, 'C18:%s:size-guard' % d, 'the sub-slice is not guarded by `len > buffer.len() => Err`', short_site(bf, bbi), 'DOM(slice => len <= buffer.len())',
                instance='%s: slice guarded by the size test' % d)
    if d == 'sx126x':
        # error status => Err before use; read offset = status byte 1
        st = [bb for bb, t in bf.calls() if callee_name(t).endswith('OpStatusErrorMask::is_error')]
        res.require(len(st) == 1 and bf.cfg.dominates(st[0], bbi), 'C18:sx126x:status-check', 'GetRxBufferStatus result used without the error-status test', None,
                    'DOM(use => status ok)', instance='sx126x: buffer status checked before use')
        cmd = term_of_operand(bf, tr.args[1]) if ai != 1 else term_of_operand(bf, tr.args[2])
        res.require('ReadBuffer' in term_str(cmd) or term_contains(cmd, lambda y: isinstance(y, tuple) and y[:1] == ('array',)), 'C18:sx126x:read-command', 'unexpected read command', None,
                    'SHAPE(ReadBuffer)', instance='sx126x: ReadBuffer command issued')


def adapter_rules(c, res):
    # LorawanRadio::rx_single / rx_continuous: the length handed on is the driver's length
    for nm, kind in (('rx_single', 'Rx'), ('rx_continuous', 'tuple')):
        cands = [p for p in c.prog.by_short if p.endswith('PhyRxTx>::%s::{closure#0}' % nm) and 'LorawanRadio' in p]
        if len(cands) != 1:
            raise CheckError('missing anchor LorawanRadio::%s' % nm)
        bf = c.bf(cands[0])
        aw = [a for a in bf.awaits() if rules.short_fn(a.callee) == 'LoRa::rx']
        if len(aw) != 1:
            raise CheckError('LorawanRadio::%s: await of lora.rx not found' % nm)
        found = False
        for b in bf.body.blocks:
            if b.cleanup:
                continue
            for si, s in enumerate(b.stmts):
                if s.k == 'assign' and s.rv.k == 'agg' and ((kind == 'Rx' and s.rv.d.get('variant') == 'Rx') or (kind == 'tuple' and s.rv.d.get('ak') == 'tuple' and len(s.rv.ops) == 2)):
                    t = term_of_operand(bf, s.rv.ops[0])
                    if kind == 'tuple' and not (t[0] == 'cast'):
                        continue
                    found = True
                    okv = t[0] == 'cast' and t[1] == 'usize' and term_contains(t, lambda x: isinstance(x, tuple) and len(x) == 4 and x[0] == 'call' and x[3] == aw[0].poll_bb)
                    res.require(okv, 'C18:LorawanRadio::%s:length' % nm, 'adapter does not pass on the length returned by the driver: %s' % term_str(t), short_site(bf, b.idx, si),
                                'SAME-VALUE(len)', instance='LorawanRadio::%s hands on the driver length (as usize)' % nm)
        if not found:
            raise CheckError('LorawanRadio::%s: result construction not found' % nm)
        # the buffer given to the driver is the caller's buffer
        a = term_of_operand(bf, aw[0].term.args[2])
        res.require(term_contains(a, lambda x: x == ('field', ('param', 1), '1')), 'C18:LorawanRadio::%s:buffer' % nm, 'adapter reads into a different buffer', None,
                    'SAME-VALUE(buffer)', instance='LorawanRadio::%s passes the caller buffer to lora.rx' % nm)
    # MAC front-end: set_pos(len) with the length just returned, for the buffer that was passed
    D = 'lorawan_device::async_device::Device::'
    n = 0
    for fn, rxfn in (('rx_listen::{closure#0}', 'PhyRxTx::rx_single'), ('rxc_listen::{closure#0}', 'PhyRxTx::rx_continuous')):
        if not c.has(D + fn):
            continue
        bf = c.bf(D + fn)
        aw = [a for a in bf.awaits() if rules.short_fn(a.callee) == rxfn]
        for bb, t in bf.calls_to('RadioBuffer::set_pos'):
            n += 1
            v = term_of_operand(bf, t.args[1])
            okv = aw and term_contains(v, lambda x: isinstance(x, tuple) and len(x) == 4 and x[0] == 'call' and x[3] == aw[0].poll_bb)
            tgt = term_of_operand(bf, t.args[0])
            src = term_of_operand(bf, aw[0].term.args[1]) if aw else None
            same_buf = src is not None and term_contains(src, lambda x: isinstance(x, tuple) and x[:1] == ('field',) and x[2] == 'radio_buffer') and \
                term_contains(tgt, lambda x: isinstance(x, tuple) and x[:1] == ('field',) and x[2] == 'radio_buffer')
            res.require(bool(okv) and same_buf, 'C18:async::%s:set_pos' % fn.split('::')[0], 'the MAC buffer is not positioned with the length the radio returned', short_site(bf, bb),
                        'SAME-VALUE(set_pos(len))', instance='async %s: radio_buffer.set_pos(len returned by %s)' % (fn.split('::')[0], rxfn.split('::')[-1]))
    if n < 2:
        raise CheckError('floor: set_pos call sites %d < 2' % n)
    # RadioBuffer::set_pos records exactly the length it is given (the link between the length the radio returned and packet[..pos])
    sp = c.bf('lorawan_device::radio::RadioBuffer::set_pos')
    sts = [(bb, si, s_) for bb, si, s_, root, path in sp.field_writes() if path == ['pos']]
    def _is_given(v):
        # the argument itself, or the argument capped at the capacity (the same value for every length a radio may report)
        if v == ('param', 2):
            return True
        if isinstance(v, tuple) and v[:1] == ('call',) and v[1].endswith(('cmp::min', 'Ord::min')) and len(v[2]) == 2:
            a, b = v[2]
            if a != ('param', 2):
                a, b = b, a
            cap = term_str(b)
            return a == ('param', 2) and cap in ('len(&*arg1.packet)', 'N')
        return False
    okp = len(sts) == 1 and sts[0][2].rv.k == 'use' and _is_given(term_of_operand(sp, sts[0][2].rv.ops[0])) and len(list(sp.field_writes())) == 1
    res.require(okp, 'C18:RadioBuffer::set_pos', 'set_pos does not record exactly the length it is given: %s' % [term_str(term_of_operand(sp, x[2].rv.ops[0])) if x[2].rv.k == 'use' else x[2].rv.k for x in sts],
                sp.body.path, 'PROVENANCE(pos = argument)', instance='RadioBuffer::set_pos: pos = the given length, nothing else written')
    # ... for every length up to the capacity: the store may only be guarded by conditions that hold for 0 <= pos <= N
    # (a guard `pos < N` drops the position of a packet that fills the buffer; the MAC then reads the stale length)
    if okp:
        import operator
        ops_ = {'Eq': operator.eq, 'Ne': operator.ne, 'Lt': operator.lt, 'Le': operator.le, 'Gt': operator.gt, 'Ge': operator.ge}
        bad = []
        for cnd in rules.path_conditions(sp, sts[0][0]):
            tm = cnd[0]
            if not (isinstance(tm, tuple) and tm[0] in ops_ and len(tm) == 3):
                bad.append(term_str(tm)[:60])
                continue
            def val(x, pos):
                x = peel(x)
                if x == ('param', 2):
                    return pos
                if term_str(x) in ('len(&*arg1.packet)', 'N') or (isinstance(x, tuple) and x[:1] == ('call',) and x[1].endswith('::len')):
                    return 10
                return None
            for pos in (0, 5, 10):
                a, b = val(tm[1], pos), val(tm[2], pos)
                if a is None or b is None or ops_[tm[0]](a, b) != bool(rules.cond_true(cnd)):
                    bad.append('%s required %s' % (term_str(tm)[:60], bool(rules.cond_true(cnd))))
                    break
        res.require(not bad, 'C18:RadioBuffer::set_pos:guard', 'set_pos records the length only under %s: a length the buffer can hold (0..=N, N itself for a packet that fills it) is not recorded and the MAC reads the previous length' % bad,
                    sp.body.path, 'EXACT-GUARD(pos stored for every pos <= N)', instance='RadioBuffer::set_pos: stored for every length up to the capacity')
    # RadioBuffer::as_mut_for_read is packet[..pos]
    rb = c.bf('lorawan_device::radio::RadioBuffer::as_mut_for_read')
    for bb, t in rb.calls_to('IndexMut::index_mut'):
        r = term_of_operand(rb, t.args[1])
        res.require(r[0] == 'agg' and r[1].endswith('RangeTo') and dict(r[2]).get('end') == ('field', ('deref', ('param', 1)), 'pos'), 'C18:RadioBuffer::as_mut_for_read',
                    'the MAC does not read exactly the first `pos` bytes: %s' % term_str(r), short_site(rb, bb), 'SHAPE(packet[..pos])', instance='RadioBuffer::as_mut_for_read = packet[..pos]')
