"""C10 — receive windows follow the regional parameters in force when the uplink was sent (structural part).

Decided on MIR terms: (a) the RxWindows returned by Mac::send / Mac::join_otaa are computed from the TxChannel returned
by the create_tx_config call of the same invocation (SAME-VALUE on the call site), and the non-blocking states carry
them unchanged; (b) RX1 = (rx1_frequency of that channel, get_rx_datarate(channel.dr, rx1_dr_offset, Window::_1)),
RX2 = (negotiated rx2_frequency else the region default, negotiated rx2_data_rate else the regional table for
Window::_2), every window RfConfig through build_rf_config = a data rate the region defines; the channel's
rx1_frequency comes from the same channel as its uplink frequency; (c) delays: get_rx_delay table (join 5000/6000 ms
constants, data rx1_delay and rx1_delay + 1000), del_to_delay_ms over all 256 inputs by value-set abstract
interpretation, async start = delay + TxDone time - lead time, nb t1 = delay + timestamp + offset and the second
window at +(delay2 - delay1); both front-ends use Window::_1 for the first and Window::_2 for the second window;
(d) only Mac::{rx_windows, rx2_rf_config, build_rf_config} consult the regional RX tables; Class C uses the RX2
configuration; (e) the regional RX1 data-rate table (every defined uplink rate x every RX1DROffset), the RX2 default
frequency and data rate and the RX1DROffset range of each region equal the regional parameters document (oracle
frozen in props/regional.py; cells on which published revisions differ accept either value)."""
import re
from ..runner import Result, CheckError
from .. import rules, flow, layout
from ..rules import param_by_name, term_of_operand, term_str, callee_name, path_conditions
from ..flow import term_contains
from ..layout import peel
from .common import ctx, short_site
from .c11 import is_call, has_call, field_path

PID = 'C10'
D = 'lorawan_device::'


def promoted_variant(c, bf, t):
    """variant name of a promoted `&Enum::Variant` constant used as an argument"""
    t = peel(t)
    if not (isinstance(t, tuple) and t and t[0] == 'promoted'):
        return None
    # the promoted constant belongs to the function the expression was written in (a helper merged into this body keeps its own)
    bl = (isinstance(t[1], str) and (c.prog.by_short.get('%s::promoted[%d]' % (t[1], t[2])) or c.prog.by_short.get('%s::promoted[%d]' % (rules.strip_generics(t[1]), t[2])))) \
        or c.prog.by_short.get('%s::promoted[%d]' % (bf.body.path, t[2])) or []
    for b in bl:
        for blk in b.blocks:
            for s in blk.stmts:
                if s.k == 'assign' and s.rv.k == 'agg' and s.rv.d.get('is_enum'):
                    return s.rv.d.get('variant')
    return None


def window_of(c, bf, t):
    v = promoted_variant(c, bf, t)
    if v:
        return v
    return None


def fallback_windows(c):
    """window constants of the get_rx_datarate lookups that feed an `unwrap` in Mac::build_rf_config (the fallback for a data rate
    the region does not define); used by C04: the unwrap is safe only for Window::_2, whose rate every region defines"""
    bf = c.bf(D + 'mac::Mac::build_rf_config')
    out = []
    for bb, t in bf.calls():
        if callee_name(t).endswith('Option::unwrap'):
            v = term_of_operand(bf, t.args[0])
            gr = call_site(v, 'get_rx_datarate')
            if gr is not None and gr[2]:
                out.append(window_of(c, bf, gr[2][-1]) or term_str(gr[2][-1])[:40])
            else:
                out.append('no get_rx_datarate lookup')
    return out


def call_site(t, suffix):
    """the call term (with its block index) for `suffix` inside t"""
    return rules.find_in_term(t, lambda y: isinstance(y, tuple) and len(y) == 4 and y[0] == 'call' and y[1].endswith(suffix))


def run(tier):
    res = Result(PID)
    c = ctx('ws')
    prog = c.prog
    # ------------------------------------------------------------------ (a) bound by value at TX time
    for fn in ('mac::Mac::send', 'mac::Mac::join_otaa'):
        bf = c.bf(D + fn)
        rw = [(bb, t) for bb, t in bf.calls() if callee_name(t).endswith('Mac::rx_windows')]
        ct = [(bb, t) for bb, t in bf.calls() if callee_name(t).endswith('Configuration::create_tx_config')]
        if len(rw) != 1 or len(ct) != 1:
            raise CheckError('anchor: %s calls rx_windows %d / create_tx_config %d times' % (fn, len(rw), len(ct)))
        # the windows as a value of THIS call: rx_windows expanded at its call site (its parameters replaced by what the caller passes),
        # so the rule is about where frequency and data rate come from, not about rx_windows' signature
        wbf = c.bf(D + 'mac::Mac::rx_windows')
        ex = peel(layout.subst_params(rules.term_of_local(wbf, 0), [term_of_operand(bf, x) for x in rw[0][1].args]))

        def of_this_channel(t_, field):
            t_ = peel(t_)
            return isinstance(t_, tuple) and t_[0] == 'field' and t_[2] == field and (lambda a_: isinstance(a_, tuple) and a_[0] == 'field' and a_[2] == '1' and isinstance(a_[1], tuple)
                                                                                      and a_[1][0] == 'call' and a_[1][3] == ct[0][0])(peel(t_[1]))
        okw = ex[0] == 'agg' and ex[1].endswith('mac::RxWindows')
        why = 'rx_windows does not reduce to RxWindows { .. }'
        if okw:
            fl_ = {k_: peel(v_) for k_, v_ in ex[2]}
            r1, r2 = fl_.get('rx1'), fl_.get('rx2')
            okw = is_call(r1, 'Mac::build_rf_config') and is_call(r2, 'Mac::rx2_rf_config')
            why = 'RxWindows { rx1, rx2 } are not (build_rf_config(..), rx2_rf_config(..))'
        if okw:
            a1 = [peel(x) for x in r1[2]]
            rdr = a1[2]
            okw = of_this_channel(a1[1], 'rx1_frequency') and of_this_channel(a1[3], 'dr') and window_of(c, bf, a1[4]) == '_1'
            why = 'RX1 is not build_rf_config(rx1_frequency and dr of the channel transmitted on, .., Window::_1): %s' % [term_str(x)[:70] for x in a1[1:]]
            if okw:
                okw = is_call(rdr, 'Configuration::get_rx_datarate') and of_this_channel(rdr[2][1], 'dr') and field_path(rdr[2][2])[1][-2:] == ['configuration', 'rx1_dr_offset'] and \
                    window_of(c, bf, rdr[2][3]) == '_1'
                why = 'RX1 data rate is not get_rx_datarate(dr transmitted, configuration.rx1_dr_offset, Window::_1): %s' % term_str(rdr)[:160]
            if okw:
                okw = of_this_channel(r2[2][1], 'dr')
                why = 'RX2 is not rx2_rf_config(dr transmitted): %s' % term_str(r2[2][1])[:120]
        res.require(okw, 'C10:%s:rx-windows-source' % fn, 'the receive windows are not computed from the channel and data rate of this transmission: %s' % why, short_site(bf, rw[0][0]),
                    'SAME-VALUE(TxChannel of create_tx_config -> RX1 frequency, RX1 data rate, RX2)', instance='%s: RX1 = (rx1_frequency, table(dr, rx1_dr_offset)), RX2 from dr, all of the TxChannel of the same create_tx_config call' % fn)
        # the returned TxConfig comes from the same call, the returned windows from that rx_windows call
        rets = []
        for b in bf.body.blocks:
            if b.cleanup:
                continue
            for s in b.stmts:
                if s.k == 'assign' and s.rv.k == 'agg' and s.rv.d.get('ak') == 'tuple' and len(s.rv.ops) == 3:
                    rets.append([term_of_operand(bf, o) for o in s.rv.ops])
        okr = len(rets) == 1 and call_site(rets[0][0], 'create_tx_config') is not None and call_site(rets[0][0], 'create_tx_config')[3] == ct[0][0] and \
            is_call(rets[0][1], 'Mac::rx_windows')
        res.require(okr, 'C10:%s:returned-pair' % fn, 'the returned (TxConfig, RxWindows) do not stem from one channel selection', bf.body.path, 'SAME-VALUE(returned pair)',
                    instance='%s returns the TxConfig and the RxWindows of one create_tx_config call' % fn)
    # nb: states carry rx_windows unchanged
    n_carry = 0
    for p_, bl in sorted(prog.by_short.items()):
        if not p_.startswith(D + 'nb_device::state::') or len(bl) != 1 or bl[0].stage == 'promoted':
            continue
        bf = c.pf.bf(bl[0])
        for b in bf.body.blocks:
            if b.cleanup or b.idx not in bf.cfg.reach:
                continue
            for si, s in enumerate(b.stmts):
                if s.k == 'assign' and s.rv.k == 'agg' and 'rx_windows' in (s.rv.d.get('fields') or []) and 'nb_device::state::' in (s.rv.d.get('adt') or ''):
                    i = s.rv.d['fields'].index('rx_windows')
                    v = peel(term_of_operand(bf, s.rv.ops[i]))
                    n_carry += 1
                    src_ok = (v[0] == 'field' and v[2] == 'rx_windows') or v[0] == 'param' or \
                        (v[0] == 'field' and isinstance(v[1], tuple) and (has_call(v, 'Mac::send') or has_call(v, 'Mac::join_otaa') or v[1][0] in ('as', 'field', 'param')))
                    res.require(src_ok, 'C10:%s:rx_windows-carried' % p_.replace(D, ''), 'a state is built with rx_windows = %s (not the windows bound at TX time)' % term_str(v),
                                short_site(bf, b.idx, si), 'SAME-VALUE(rx_windows carried)', instance='%s -> %s: rx_windows copied' % (p_.split('::')[-2] + '::' + p_.split('::')[-1], s.rv.d['adt'].split('::')[-1]))
    if n_carry < 4:
        raise CheckError('floor: state constructions carrying rx_windows %d < 4' % n_carry)
    # ------------------------------------------------------------------ (b) window parameters
    bf = c.bf(D + 'mac::Mac::rx_windows')
    calls = {callee_name(t).split('::')[-1]: (bb, t) for bb, t in bf.calls()}
    for need in ('get_rx_datarate', 'build_rf_config', 'rx2_rf_config'):
        if need not in calls:
            raise CheckError('anchor: Mac::rx_windows does not call %s' % need)
    # rx2_rf_config
    bf = c.bf(D + 'mac::Mac::rx2_rf_config')
    bcalls = [(bb, t) for bb, t in bf.calls() if callee_name(t).endswith('build_rf_config')]
    if len(bcalls) != 1:
        raise CheckError('anchor: rx2_rf_config')
    a = [peel(term_of_operand(bf, x)) for x in bcalls[0][1].args]

    def override(t, field):
        """(default call term, body it lives in) if t is `configuration.<field>` when that option is Some and a default otherwise:
        opt.unwrap_or_else(|| default), or a match / if-let selecting the Some payload or the default"""
        def is_field(o):
            return field_path(peel(o)) == (('param', 1), ['configuration', field])
        t = peel(t)
        if is_call(t, 'unwrap_or_else') and is_field(t[2][0]) and isinstance(t[2][1], tuple) and t[2][1][:1] == ('closure',):
            bl = prog.by_short.get(rules.strip_generics(t[2][1][1])) or prog.by_short.get(t[2][1][1]) or []
            if len(bl) != 1:
                return None
            cbf = c.pf.bf(bl[0])
            k = [(bb, t_) for bb, t_ in cbf.calls()]
            if len(k) != 1 or not (k[0][1].dest.is_local() and k[0][1].dest.local == 0):
                return None
            return ('call', callee_name(k[0][1]), tuple(term_of_operand(cbf, x) for x in k[0][1].args), k[0][0]), cbf
        if t[0] == 'phi':
            dl = rules.defs_with_conditions(bf, t[1])
            if len(dl) != 2:
                return None
            some = [d for d in dl if peel(d[0])[0] == 'field' and peel(d[0])[2] == '0' and peel(d[0])[1][0] == 'as' and peel(d[0])[1][2] == 'Some' and is_field(peel(d[0])[1][1])]
            other = [d for d in dl if d not in some]
            if len(some) != 1 or len(other) != 1:
                return None
            # the default is taken exactly when the option is None
            kn = [rules.option_known(x) for x in other[0][1]]
            if not any(k_ is not None and not k_[1] and is_field(k_[0]) for k_ in kn):
                return None
            return peel(other[0][0]), bf
        return None
    of, od = override(a[1], 'rx2_frequency'), override(a[2], 'rx2_data_rate')
    okf = of is not None and od is not None and a[3] == ('param', 2) and window_of(c, bf, a[4]) == '_2'
    res.require(okf, 'C10:rx2_rf_config:overrides', 'RX2 is not (rx2_frequency or region default, rx2_data_rate or regional table, tx_dr, Window::_2): %s' % [term_str(x)[:80] for x in a[1:]],
                short_site(bf, bcalls[0][0]), 'PROVENANCE(RX2 overrides)', instance='RX2 = negotiated frequency/data rate, else the region defaults')
    okq = of is not None and is_call(of[0], 'Configuration::get_rx2_frequency')
    res.require(okq, 'C10:rx2_rf_config:default-frequency', 'default RX2 frequency is not region.get_rx2_frequency()',
                (of[1] if of else bf).body.path, 'PROVENANCE(RX2 default frequency)', instance='RX2 default frequency = region.get_rx2_frequency()')
    okd = od is not None and is_call(od[0], 'Configuration::get_rx_datarate')
    if okd:
        a = [peel(x) for x in od[0][2]]
        okd = window_of(c, od[1], a[3]) == '_2' and term_contains(a[2], lambda y: y == 'rx1_dr_offset')
    res.require(okd, 'C10:rx2_rf_config:default-datarate', 'default RX2 data rate is not region.get_rx_datarate(tx_dr, rx1_dr_offset, Window::_2)', (od[1] if od else bf).body.path,
                'PROVENANCE(RX2 default data rate)', instance='RX2 default data rate = region table(tx_dr, rx1_dr_offset, Window::_2)')
    # build_rf_config: frequency passes through, modulation from a defined data rate
    bf = c.bf(D + 'mac::Mac::build_rf_config')
    aggs = [s for b in bf.body.blocks if not b.cleanup for s in b.stmts if s.k == 'assign' and s.rv.k == 'agg' and (s.rv.d.get('adt') or '').endswith('radio::RfConfig')]
    okb = len(aggs) == 1
    kinds = []
    if okb:
        fl = dict(zip(aggs[0].rv.d['fields'], [peel(term_of_operand(bf, o)) for o in aggs[0].rv.ops]))
        bbp = fl.get('bb')
        okb = fl.get('frequency') == ('param', 2) and is_call(bbp, 'BaseBandModulationParams::new')
        if okb:
            sf, bw = peel(bbp[2][0]), peel(bbp[2][1])
            okb = sf[0] == 'field' and sf[2] == 'spreading_factor' and bw[0] == 'field' and bw[2] == 'bandwidth' and peel(sf[1]) == peel(bw[1]) and \
                peel(fl.get('max_payload_len'))[0] == 'field' and peel(peel(fl.get('max_payload_len'))[1]) == peel(sf[1])
            dr_local = peel(sf[1])
            if okb and dr_local[0] == 'phi':
                # both definitions of the Datarate reference: payload of get_datarate(dr) Some, or unwrap(get_datarate(default RX2 rate))
                dl = rules.defs_with_conditions(bf, dr_local[1])
                kinds = []
                for v, cs, bb in dl:
                    v = peel(v)
                    if v[0] == 'field' and isinstance(v[1], tuple) and v[1][0] == 'as' and v[1][2] == 'Some' and has_call(v, 'Configuration::get_datarate'):
                        kinds.append('some')
                    elif is_call(v, 'Option::unwrap') and has_call(v, 'Configuration::get_datarate') and has_call(v, 'get_rx_datarate'):
                        # the fallback is the regional RX2 default: its window argument is the constant Window::_2 (with the
                        # window being configured the lookup would repeat the undefined rate and the unwrap would panic)
                        gr = call_site(v, 'get_rx_datarate')
                        wv = window_of(c, bf, gr[2][-1]) if gr is not None and gr[2] else None
                        kinds.append('fallback' if wv == '_2' else 'fallback-window:%s' % (wv or term_str(gr[2][-1])[:40] if gr else None))
                    else:
                        kinds.append('other:' + term_str(v)[:60])
                okb = sorted(kinds) == ['fallback', 'some']
    res.require(okb, 'C10:build_rf_config:defined-datarate', 'a window RfConfig is not (given frequency, modulation of a data rate the region defines: the rate asked for, else the regional RX2 default get_rx_datarate(.., Window::_2)): %s' % sorted(kinds), bf.body.path,
                'PROVENANCE(window modulation)', instance='window RfConfig = (frequency, SF/BW/max payload of region.get_datarate(dr) or of the RX2 default)')
    # TxChannel: rx1_frequency belongs to the same channel as the uplink frequency
    for fn, kind in (('<lorawan_device::region::dynamic_channel_plans::DynamicChannelPlan<R> as lorawan_device::region::RegionHandler>::select_tx_channel', 'dyn'),
                     ('<lorawan_device::region::fixed_channel_plans::FixedChannelPlan<F> as lorawan_device::region::RegionHandler>::select_tx_channel', 'fix')):
        bf = c.bf(fn)
        n = 0
        for b in bf.body.blocks:
            if b.cleanup or b.idx not in bf.cfg.reach:
                continue
            for si, s in enumerate(b.stmts):
                if s.k == 'assign' and s.rv.k == 'agg' and (s.rv.d.get('adt') or '').endswith('region::TxChannel'):
                    n += 1
                    fl = dict(zip(s.rv.d['fields'], [peel(term_of_operand(bf, o)) for o in s.rv.ops]))
                    f, r = fl.get('frequency'), fl.get('rx1_frequency')
                    if kind == 'dyn':
                        okc = is_call(f, 'Channel::ul_frequency') and is_call(r, 'Channel::rx1_frequency') and peel(f[2][0]) == peel(r[2][0])
                    else:
                        # uplink_channels()[channel], downlink_channels()[channel % 8]
                        okc = f[0] == 'index' and r[0] == 'index' and has_call(f, 'uplink_channels') and has_call(r, 'downlink_channels')
                        if okc:
                            fi, ri = peel(f[2]), peel(r[2])
                            ch = rules.find_in_term(ri, lambda y: isinstance(y, tuple) and y[0] == 'Rem')
                            okc = ch is not None and ch[2] == ('const', 8) and term_contains(fi, lambda y: y == ch[1])
                    res.require(okc, 'C10:%s::select_tx_channel:rx1-frequency-pairing' % kind, 'rx1_frequency is not taken from the channel that gives the uplink frequency: %s / %s' % (term_str(f)[:80], term_str(r)[:80]),
                                short_site(bf, b.idx, si), 'SAME-VALUE(channel)', instance='%s TxChannel: uplink and RX1 frequency from the same channel' % kind)
        if n < 1:
            raise CheckError('anchor: no TxChannel construction in %s' % fn)
    bch = c.bf(D + 'region::dynamic_channel_plans::Channel::rx1_frequency')
    rr = [s for b in bch.body.blocks if not b.cleanup for s in b.stmts if s.k == 'assign' and s.lhs.local == 0]
    txt = ' '.join(term_str(term_of_operand(bch, s.rv.ops[0])) if s.rv.k == 'use' else s.rv.k for s in rr) + ' ' + ' '.join(callee_name(t) for bb, t in bch.calls())
    res.require('dl_frequency' in txt + str([term_str(term_of_operand(bch, a)) for bb, t in bch.calls() for a in t.args]) and 'frequency' in txt + str([term_str(term_of_operand(bch, a)) for bb, t in bch.calls() for a in t.args]),
                'C10:Channel::rx1_frequency', 'dynamic-plan RX1 frequency is not dl_frequency (DlChannelReq) else the uplink frequency', bch.body.path, 'SHAPE(dl_frequency.unwrap_or(frequency))',
                instance='Channel::rx1_frequency = dl_frequency or frequency')
    # DlChannelReq: the RX1 frequency of a channel becomes the commanded one (or is reset when it equals the uplink frequency)
    bf = c.bf('<' + D + 'region::dynamic_channel_plans::DynamicChannelPlan<R> as ' + D + 'region::RegionHandler>::channel_dl_update')
    st = [(bb, si, s, root) for bb, si, s, root, path in bf.field_writes() if path[-1:] == ['dl_frequency']]
    if len(st) != 1:
        raise CheckError('anchor: channel_dl_update stores dl_frequency %d times' % len(st))
    bb, si, s, root = st[0]
    freq_p = param_by_name(bf.body, 'freq')
    v = term_of_operand(bf, s.rv.ops[0]) if s.rv.k == 'use' else None
    okd = v is not None
    kinds = []
    if okd:
        chf = ('field', ('phi', root), 'frequency')
        for dv, cs in rules.value_cases(bf, v, path_conditions(bf, bb)):
            if dv[0] == 'agg' and dv[1].endswith('Option::None'):
                kinds.append('reset' if rules.implies_order(cs, '==', ('param', freq_p), chf) else 'bad-none')
            elif dv[0] == 'agg' and dv[1].endswith('Option::Some') and dv[2][0][1] == ('param', freq_p):
                kinds.append('set' if rules.implies_order(cs, '!=', ('param', freq_p), chf) else 'bad-some')
            else:
                kinds.append('other')
    res.require(okd and sorted(kinds) == ['reset', 'set'], 'C10:channel_dl_update:dl-frequency-value',
                'DlChannelReq does not store dl_frequency = None if freq == the channel\'s uplink frequency else Some(freq): %s' % kinds, short_site(bf, bb, si),
                'PROVENANCE(dl_frequency)', instance='DlChannelReq: dl_frequency = Some(commanded) (None when equal to the uplink frequency)')
    # and the modified copy is written back to the slot it was read from
    wb = [(b2, s2) for b2, si2, s2, r2, p2 in bf.field_writes() if p2[:1] == ['channels']]
    okw = len(wb) == 1 and wb[0][1].rv.k == 'use'
    if okw:
        wv = term_of_operand(bf, wb[0][1].rv.ops[0])
        okw = wv[0] == 'agg' and wv[1].endswith('Option::Some') and wv[2][0][1] == ('phi', root)
    res.require(okw, 'C10:channel_dl_update:write-back', 'the updated channel is not written back to the plan', bf.body.path, 'SAME-VALUE(channel written back)',
                instance='DlChannelReq: channels[index] = Some(updated channel)')
    # ------------------------------------------------------------------ (c) timing
    bf = c.bf(D + 'mac::Mac::get_rx_delay')
    frame_p, win_p = 2, 3
    table = {}
    for b in bf.body.blocks:
        if b.cleanup or b.idx not in bf.cfg.reach:
            continue
        for si, s in enumerate(b.stmts):
            if s.k == 'assign' and s.lhs.local == 0 and not s.lhs.proj:
                conds = path_conditions(bf, b.idx)
                key = []
                for cnd in conds:
                    tm = cnd[0]
                    if tm[0] == 'discr':
                        who = peel(tm[1])
                        key.append(('frame' if who == ('param', frame_p) else 'window' if who == ('param', win_p) else '?', cnd[1]))
                v = term_of_operand(bf, s.rv.ops[0]) if s.rv.k == 'use' else ('rv', s.rv.k)
                table[tuple(sorted(key))] = v
    fr = rules.variants_of(prog, 'mac::Frame')
    wi = rules.variants_of(prog, 'mac::Window')

    def cell(fname, wname):
        for k, v in table.items():
            d = dict(k)
            if d.get('frame') in ((fr[fname],), ('not', tuple(x for n_, x in fr.items() if n_ != fname))) and d.get('window') in ((wi[wname],), ('not', tuple(x for n_, x in wi.items() if n_ != wname))):
                return v
        return None
    exp = {('Join', '_1'): lambda v: field_path(v) == (('param', 1), ['configuration', 'join_accept_delay1']),
           ('Join', '_2'): lambda v: field_path(v) == (('param', 1), ['configuration', 'join_accept_delay2']),
           ('Data', '_1'): lambda v: field_path(v) == (('param', 1), ['configuration', 'rx1_delay']),
           ('Data', '_2'): lambda v: (lambda l_: l_[1] == 1000 and len(l_[0]) == 1 and list(l_[0].values()) == [1] and field_path(list(l_[0])[0]) == (('param', 1), ['configuration', 'rx1_delay']))(rules.linear(v))}
    for (f_, w_), pred in sorted(exp.items()):
        v = cell(f_, w_)
        res.require(v is not None and pred(peel(v)), 'C10:get_rx_delay:%s:%s' % (f_, w_), 'delay for (%s, %s) is %s' % (f_, w_, term_str(v) if v is not None else None), bf.body.path,
                    'TABLE(get_rx_delay)', instance='get_rx_delay(%s, %s) as specified' % (f_, w_))
    # constants of the join delays and writers
    bn = c.bf(D + 'mac::Mac::new')
    for fld, const_name, val in (('join_accept_delay1', 'JOIN_ACCEPT_DELAY1', 5000), ('join_accept_delay2', 'JOIN_ACCEPT_DELAY2', 6000)):
        ws = c.pf.writers_of_field('mac::Configuration', fld, crates={'lorawan_device'})
        okw = len(ws) == 1 and ws[0][0].path == D + 'mac::Mac::new' and ws[0][4] == 'construct'
        v = None
        if okw:
            s = ws[0][3]
            v = term_of_operand(bn, s.rv.ops[s.rv.d['fields'].index(fld)])
        cv = prog.consts.get(D + 'region::constants::' + const_name) if hasattr(prog, 'consts') else None
        val_ok = v is not None and (v == ('const', val) or (v[0] in ('cdef', 'constx') and const_name in str(v)))
        res.require(okw and val_ok, 'C10:%s' % fld, '%s is not the constant %s set once in Mac::new (writers: %d, value %s)' % (fld, const_name, len(ws), term_str(v) if v else None),
                    bn.body.path, 'CONST+WHO-WRITES(%s)' % fld, instance='%s = %s, written only by Mac::new' % (fld, const_name))
    # the constants themselves
    from .. import absint_interp
    an = absint_interp.new_analyzer(prog, max_depth=3)
    for const_name, val in (('JOIN_ACCEPT_DELAY1', 5000), ('JOIN_ACCEPT_DELAY2', 6000), ('RECEIVE_DELAY1', 1000)):
        got = const_value(c, an, D + 'region::constants::' + const_name)
        res.require(got == val, 'C10:const:%s' % const_name, '%s = %s (specification: %d ms)' % (const_name, got, val), const_name, 'CONST(spec)', instance='%s = %d' % (const_name, val))
    # del_to_delay_ms over every input byte
    tab = dtable_del_to_delay(c)
    bad = {k: v for k, v in tab.items() if v != (1000 if k in (0, 1) or k > 15 else 1000 * k)}
    res.require(not bad and len(tab) == 256, 'C10:del_to_delay_ms', 'del_to_delay_ms differs from {0,1 -> 1000; n -> 1000 n}: %s' % dict(list(bad.items())[:5]), D + 'mac::del_to_delay_ms',
                'TABLE(del_to_delay_ms, 256 inputs)', instance='del_to_delay_ms: 0,1 -> 1000 ms; 2..15 -> n*1000 ms')
    # async timing and window order
    bf = c.bf(D + 'async_device::Device::rx_downlink::{closure#0}')
    order = []
    for bb in bf.cfg.rpo():
        b = bf.body.blocks[bb]
        if b.cleanup:
            continue
        t = b.term
        if t.k != 'call':
            continue
        cn = callee_name(t)
        if cn.endswith('Device::between_windows'):
            d = peel(term_of_operand(bf, t.args[1]))
            # get_rx_delay(frame, window) + window_delay - lead time, in any order of the summands
            lin, k0 = rules.linear(d)
            dl_ = [x for x, co in lin.items() if co == 1 and is_call(peel(x), 'Mac::get_rx_delay')]
            wd_ = [x for x, co in lin.items() if co == 1 and peel(x)[0] == 'field' and peel(x)[2] in ('2', 'window_delay')]
            ld_ = [x for x, co in lin.items() if co == -1 and is_call(peel(x), 'get_rx_window_lead_time_ms')]
            okd = k0 == 0 and len(lin) == 3 and len(dl_) == 1 and len(wd_) == 1 and len(ld_) == 1
            w = window_of(c, bf, peel(dl_[0])[2][2]) if okd else None
            order.append(('wait', w, okd))
        elif cn.endswith('RxWindows::rx_config'):
            order.append(('config', window_of(c, bf, term_of_operand(bf, t.args[2])), has_call(term_of_operand(bf, t.args[1]), 'get_rx_window_buffer')))
        elif cn.endswith('Mac::rx2_complete'):
            order.append(('complete', None, True))
    want = [('wait', '_1', True), ('config', '_1', True), ('wait', '_2', True), ('config', '_2', True), ('complete', None, True)]
    res.require(order == want, 'C10:async::rx_downlink:sequence', 'async windows are not wait(delay(_1)+TxDone-lead), RX1, wait(delay(_2)+TxDone-lead), RX2, rx2_complete: %s' % order, bf.body.path,
                'SHAPE(window sequence and timing)', instance='async: RX1 then RX2, each at get_rx_delay(frame, window) + TxDone time - lead time')
    # both setup_rx calls use the rx_config of the windows parameter
    for bb, t in bf.calls():
        if callee_name(t).endswith('RxWindows::rx_config'):
            src = peel(term_of_operand(bf, t.args[0]))
            res.require(src[0] == 'field' and src[2] in ('3', 'rx_windows'), 'C10:async::rx_downlink:windows-source', 'window configuration does not come from the rx_windows argument: %s' % term_str(src),
                        short_site(bf, bb), 'SAME-VALUE(rx_windows argument)', instance='async: window config from the rx_windows bound at TX')
    # async send/join pass the windows returned by the MAC
    for fn, mac_fn, frame in (('async_device::Device::send::{closure#0}', 'Mac::send', 'Data'), ('async_device::Device::join::{closure#0}', 'Mac::join_otaa', 'Join')):
        bf = c.bf(D + fn)
        rd = [(bb, t) for bb, t in bf.calls() if callee_name(t).endswith('Device::rx_downlink')]
        okp = len(rd) >= 1
        for bb, t in rd:
            a = [peel(term_of_operand(bf, x)) for x in t.args]
            okp = okp and has_call(a[3], mac_fn) and window_of(c, bf, a[1]) == frame
        res.require(okp, 'C10:%s:windows-passed' % fn.split('::{')[0], 'rx_downlink does not receive (Frame::%s, the RxWindows returned by %s)' % (frame, mac_fn), bf.body.path,
                    'SAME-VALUE(rx_windows passed on)', instance='%s: rx_downlink(Frame::%s, windows from %s)' % (fn.split('::{')[0], frame, mac_fn))
    # nb timing
    bf = c.bf(D + 'nb_device::state::data_rxwindow1_timeout')
    okn = False
    for b in bf.body.blocks:
        if b.cleanup:
            continue
        for s in b.stmts:
            if s.k == 'assign' and s.rv.k == 'agg' and s.rv.d.get('variant') == '_1' and (s.rv.d.get('adt') or '').endswith('state::Rx'):
                v = peel(term_of_operand(bf, s.rv.ops[0]))
                lin, k = rules.linear(v)
                names = sorted(term_str(x) for x in lin)
                okn = k == 0 and len(lin) == 3 and all(cf == 1 for cf in lin.values()) and any('get_rx_delay' in x for x in names) and any('get_rx_window_offset_ms' in x for x in names) and \
                    any('arg5' in x or 'timestamp' in x for x in names)
                gd = call_site(v, 'Mac::get_rx_delay')
                okn = okn and gd is not None and window_of(c, bf, gd[2][2]) == '_1'
    res.require(okn, 'C10:nb::data_rxwindow1_timeout:t1', 'nb RX1 time is not delay(frame, _1) + TxDone timestamp + board offset', bf.body.path, 'SHAPE(t1)', instance='nb: t1 = get_rx_delay(frame, _1) + timestamp + offset')
    bf = c.bf(D + 'nb_device::state::WaitingForRxWindow::handle_event')
    gets = [(bb, t) for bb, t in bf.calls() if callee_name(t).endswith('RxWindows::get')]
    okg = len(gets) == 1
    if okg:
        a = [peel(term_of_operand(bf, x)) for x in gets[0][1].args]
        okg = a[0][0] == 'field' and a[0][2] == 'rx_windows' and is_call(a[1], 'Into::into') and peel(a[1][2][0])[0] == 'field' and peel(a[1][2][0])[2] == 'window'
    res.require(okg, 'C10:nb::WaitingForRxWindow:window-config', 'the nb window configuration is not rx_windows.get(current window)', bf.body.path, 'PROVENANCE(window config)',
                instance='nb: RxRequest(rx_windows.get(self.window))')
    bi = c.bf(D + 'nb_device::state::<impl core::convert::From<' + D + 'nb_device::state::Rx> for ' + D + 'mac::Window>::from')
    m = {}
    for b in bi.body.blocks:
        if b.cleanup:
            continue
        for s in b.stmts:
            if s.k == 'assign' and s.lhs.local == 0 and s.rv.k == 'agg':
                cs = [cnd for cnd in path_conditions(bi, b.idx) if cnd[0][0] == 'discr']
                m[s.rv.d.get('variant')] = cs[0][1] if cs else None
    rxv = rules.variants_of(prog, 'nb_device::state::Rx')
    res.require(m.get('_1') == (rxv['_1'],) and m.get('_2') in ((rxv['_2'],), ('not', (rxv['_1'],))), 'C10:nb::Rx-to-Window', 'Rx::_1/_2 do not map to Window::_1/_2: %s' % m, bi.body.path,
                'TABLE(Rx -> Window)', instance='nb: Rx::_1 -> Window::_1, Rx::_2 -> Window::_2')
    bf = c.bf(D + 'nb_device::state::WaitingForRx::handle_event')
    dl = [(bb, t) for bb, t in bf.calls() if callee_name(t).endswith('Mac::get_rx_delay')]
    wins = sorted(window_of(c, bf, term_of_operand(bf, t.args[2])) or '?' for bb, t in dl)
    res.require(wins == ['_1', '_2'], 'C10:nb::WaitingForRx:second-window', 'the second nb window is not scheduled from get_rx_delay(_2) - get_rx_delay(_1): %s' % wins, bf.body.path,
                'SHAPE(t2 = t1 + delay2 - delay1)', instance='nb: second window after delay(_2) - delay(_1)')
    # ------------------------------------------------------------------ (d) who consults the tables; Class C
    for suffix, allowed in (('Configuration::get_rx_datarate', {'mac::Mac::rx_windows', 'mac::Mac::build_rf_config', 'mac::Mac::rx2_rf_config'}),
                            ('Configuration::get_rx2_frequency', {'mac::Mac::rx2_rf_config'}),
                            ('Mac::build_rf_config', {'mac::Mac::rx_windows', 'mac::Mac::rx2_rf_config'}),
                            ('Mac::rx2_rf_config', {'mac::Mac::rx_windows', 'mac::Mac::get_rxc_config'})):
        callers = {re.sub(r'(::\{closure#\d+\})+$', '', bf.body.path.replace(D, '')) for bf, bb, t in c.pf.callers_of(suffix, crates={'lorawan_device'})}
        if not callers:
            raise CheckError('anchor: nobody calls %s' % suffix)
        res.require(callers <= allowed, 'C10:who-calls:%s' % suffix.split('::')[-1], '%s is also called from %s' % (suffix, sorted(callers - allowed)), suffix, 'WHO-CALLS(%s)' % suffix.split('::')[-1],
                    instance='%s called only from %s' % (suffix.split('::')[-1], sorted(callers)))
    bf = c.bf(D + 'mac::Mac::get_rxc_config')
    cs = [(bb, t) for bb, t in bf.calls() if callee_name(t).endswith('Mac::rx2_rf_config')]
    okc = len(cs) == 1 and field_path(term_of_operand(bf, cs[0][1].args[1])) == (('param', 1), ['configuration', 'data_rate'])
    res.require(okc, 'C10:get_rxc_config', 'Class C listening does not use the RX2 configuration for the current data rate', bf.body.path, 'PROVENANCE(RXC = RX2)',
                instance='Class C: rx2_rf_config(configuration.data_rate), continuous')
    # regional RX1 tables, RX2 defaults and the RX1DROffset range against the regional parameters document (frozen oracle)
    from . import regional
    regional.check(c, res, PID, {'rx1', 'rx2'})
    res.coverage.update({'configs': [c.info], 'del_to_delay_ms_table': {str(k): v for k, v in sorted(tab.items()) if k < 17}})
    res.explanation = __doc__
    res.assumptions = ['delays 5000/6000/1000 ms and the RxDelay nibble table are frozen from LoRaWAN 1.0.x; TxDone time, lead time and offsets are supplied by the board (environment)']
    return res


def const_value(c, an, path):
    """value of an integer const item by the abstract interpreter's const evaluation"""
    from ..absint import State
    b = c.prog.by_short.get(path) or []
    if len(b) != 1:
        return None
    try:
        fr, out = an.analyze_entry(b[0])
    except Exception:
        return None
    if out is None:
        return None
    v = out.env.get((fr.id, 0))
    if v is None or v[0] != 'int':
        return None
    lo, hi = out.lb(v[1]), out.ub(v[1])
    return lo if lo == hi else None


def dtable_del_to_delay(c):
    """decision table of del_to_delay_ms by partitioned abstract interpretation (one run per input value)"""
    from .. import absint_interp
    from ..absint import Lin
    prog = c.prog
    b = prog.by_short[D + 'mac::del_to_delay_ms'][0]
    out = {}
    for k in range(256):
        an = absint_interp.new_analyzer(prog, max_depth=3)

        def assume(an_, fr, st, k=k):
            st.env[(fr.id, 1)] = ('int', Lin.const(k))
        fr, o = an.analyze_entry(b, setup=assume)
        v = o.env.get((fr.id, 0)) if o is not None else None
        if v is None or v[0] != 'int':
            out[k] = None
            continue
        lo, hi = o.lb(v[1]), o.ub(v[1])
        out[k] = lo if lo == hi else (lo, hi)
    return out
