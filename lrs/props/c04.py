"""C04 — no received frame or network command can panic or hang the device (necessary conditions + inventory).

Decided by abstract interpretation of the device stack from its MAC-level and front-end entry points (Mac::*,
Session/Otaa handlers, region::Configuration::*, the non-blocking state handlers; thorough: the async front-end as
well) with the receive buffer contents, every decrypted field, every RNG draw and all persisted state
unconstrained: every panic-capable site reached is an obligation. A site that the abstract state does not
discharge must be listed in the reviewed classification table below with its class and reason -
application-precondition (depends only on arguments of send/set_datarate/...), radio-contract (an impossible
PhyRxTx response or a length beyond the buffer handed to the radio), invariant (a named state invariant whose
every writer is checked by the flow rules of this module), bounded (a counter bounded by the frame length) - or
be a recorded finding. Anything else is a violation: that is how a deleted guard or a new unchecked index shows
up. Loops: the RNG retry loops of channel selection are listed with the invariant that makes their exit
satisfiable and the writers of that invariant are checked (validate-before-write)."""
import os
import re
from ..runner import Result, CheckError
from .. import absint_run, rules, flow
from ..rules import param_by_name, term_of_operand, term_str, callee_name, path_conditions, cond_true, cond_false
from ..flow import term_contains
from .common import ctx, short_site

PID = 'C04'

ENTRY_PAT = re.compile(r'^lorawan_device::(mac::Mac::|mac::session::Session::|mac::otaa::Otaa::|mac::uplink::Uplink::|region::Configuration::|radio::RadioBuffer::|'
                       r'radio::TxConfig::|mac::RxWindows::|mac::del_to_delay_ms|nb_device::state::|nb_device::Device::|async_device::Device::)')

# (regex over "<fn>:<kind>:<desc>", class, reason)
TABLE = [
    # ---- application preconditions
    (r'Session::prepare_buffer:panic:', 'application',
     'deliberate panics for an application error: data on FPort 0, or a payload that does not fit the frame (send() arguments)'),
    (r'Session::prepare_buffer:unwrap:Result::unwrap', 'application', 'the built frame (<= 256 bytes) always fits the radio buffer unless the application chose N < frame length'),
    (r'Otaa::prepare_buffer:unwrap:Result::unwrap', 'application', 'JoinRequest (23 bytes) does not fit only if the application chose a radio buffer N < 23'),
    (r'RadioBuffer::extend_from_slice:overflow:Add', 'application', 'pos + len cannot overflow usize for in-memory buffers (pos <= N)'),
    # ---- radio contract / environment
    (r'SendingData::handle_event:panic:', 'radio', 'PhyRxTx contract: only TxDone may answer a transmission in progress'),
    (r'RadioBuffer::as_(mut|ref)_for_read:slice:range index', 'radio',
     'pos <= N: set_pos() is only called with the length returned by PhyRxTx::rx_* for a buffer of N bytes (trait contract; the workspace adapter is proven in C18), clear() and extend_from_slice() keep it'),
    (r'nb_device::state::(WaitingForRx|WaitingForRxWindow)::handle_event:overflow:(Add|Sub)', 'radio',
     'millisecond timestamps / window durations supplied by the radio and timer (u32 arithmetic on board time)'),
    (r'nb_device::state::data_rxwindow1_timeout:overflow:Add', 'radio', 'TxDone timestamp + delay in i32: board time supplied by the radio'),
    (r'async_device::Device::rx_downlink::\{closure#0\}:overflow:(Add|Sub)', 'radio',
     'RX window start = MAC delay + the TxDone time returned by PhyRxTx::tx - Timings::get_rx_window_lead_time_ms (board/radio supplied u32 milliseconds)'),
    (r'From<lorawan_device::mac::Response> for lorawan_device::async_device::(Join|Send)Response>::from:panic:', 'undecided:result-state-correlation',
     'NOT DECIDED: the panicking arm is unreachable only because Mac.state is Joined after Mac::send returned Ok (Otaa until JoinSuccess during join) and '
     'NoUpdate is filtered by handle_mac_response; the correlation between a Result variant and Mac.state is not expressible in the abstract domain'),
    (r'TxConfig::adjust_power:overflow:Sub', 'application', 'antenna gain and maximum power are board constants chosen by the integrator (i8 subtraction of region power <= 30 and gain)'),
    # ---- invariants (see the flow rules below)
    (r'RegionHandler>::select_tx_channel:(bounds:index|unwrap:Option::unwrap)', 'invariant:data_rate-defined',
     'datarates()[data_rate] is Some: Configuration.data_rate only holds region-defined rates (writers checked: WHO-WRITES data_rate + guards)'),
    (r'RegionHandler>::channel_mask_validate:bounds:index', 'invariant:data_rate-defined', 'dr is the validated candidate or the current data rate'),
    (r'Mac::build_rf_config:unwrap:Option::unwrap', 'invariant:rx2-default-defined', 'fallback RX2 data rate of every region is defined (const table rule)'),
    (r'Configuration::create_tx_config:unwrap:Option::unwrap', 'invariant:txpower0-defined', 'tx_power_adjust(0) is Some in every region (const table rule)'),
    (r'DynamicChannelPlan::get_random_in_range:unwrap:Option::unwrap', 'invariant:join-channels-present', 'join channels are created by init_channels and are read-only'),
    (r'get_rx_datarate:overflow:(Add|Sub)', 'invariant:rx1_dr_offset-validated',
     'rx1_dr_offset <= MAX_RX1_DR_OFFSET (writers: RXParamSetupReq / JoinAccept only after rx1_dr_offset_validate) and tx_dr <= 15'),
    (r'Mac::get_rx_delay:overflow:Add', 'invariant:rx1_delay-bounded', 'rx1_delay is del_to_delay_ms(nibble) <= 15000 or a constant (writers checked)'),
    (r'JoinChannels::get_next_channel:overflow:(Add|Mul|Sub)', 'invariant:join-bias', 'subband is 1..=8 (enum) and the retry counter counts join attempts'),
    (r'AvailableChannels::get_next_channel_inner:(overflow|unwrap)', 'invariant:join-channel-set', 'indices derive from a 3-bit/6-bit masked random draw; set_channel/is_enabled indices < 72'),
    # ---- bounded counters
    (r'Session::handle_downlink_macs:overflow:Add', 'bounded', 'num_adrreq counts LinkADRReq commands of one frame (<= 255 bytes)'),
    (r'Uplink::add_mac_command:overflow:Add', 'bounded', 'pending.len() <= 15 and payload_len() of a MAC answer <= 14'),
    (r'Uplink::add_mac_command:unwrap:Result::unwrap', 'bounded', 'guarded by len + payload_len < 15 (C08 checks the guard)'),
    (r'Uplink::clear_mac_commands(::\{closure#\d\})?:unwrap', 'bounded', 'copies a subset of a 15-byte vector into a 15-byte vector'),
    (r'Session::handle_rx:unwrap:Result::unwrap', 'bounded', 'decrypt_in_place after a successful validate_mic on the same bytes; FRMPayload <= 256 fits Vec<u8, 256>'),
    (r'channel_mask_validate::\{closure#\d\}:unwrap:Result::unwrap', 'bounded', 'is_enabled(i) with i from a constant range below 72'),
    (r'(channel_dl_update|handle_new_channel):panic:explicit', 'bounded', 'fixed-plan stubs are unreachable: handle_downlink_macs skips both commands when has_fixed_channel_plan()'),
    (r'AS923Region<.*init_channels:overflow:Sub', 'application', 'OFFSET is a const generic of the region type (AS923-1..4 offsets are below the base frequency)'),
]


# the radio and the timer are the environment of this property: calls through these traits return arbitrary values
# (and may write whatever they get `&mut`); the workspace implementation of the radio side is C14/C18's subject
BOUNDARY = {'lorawan_device::async_device::radio::PhyRxTx', 'lorawan_device::async_device::radio::Timer', 'lorawan_device::nb_device::radio::PhyRxTx'}

# reviewed number of undischarged sites per (function, kind, description): frozen from the tree the table was reviewed on
GROUP_LIMITS = {
    '<dyn::DynamicChannelPlan<R> as RegionHandler>::select_tx_channel:bounds:index': 2,
    '<dyn::DynamicChannelPlan<R> as RegionHandler>::select_tx_channel:unwrap:Option::unwrap': 3,
    '<dyn::as923::AS923Region<DEFAULT_RX2, OFFSET> as dyn::DynamicChannelRegion>::get_rx_datarate:overflow:Add': 1,
    '<dyn::as923::AS923Region<DEFAULT_RX2, OFFSET> as dyn::DynamicChannelRegion>::init_channels:overflow:Sub': 1,
    '<dyn::in865::IN865Region as dyn::DynamicChannelRegion>::get_rx_datarate:overflow:Add': 1,
    '<fix::FixedChannelPlan<F> as RegionHandler>::channel_dl_update:panic:explicit cratepanicunreachable_!': 1,
    '<fix::FixedChannelPlan<F> as RegionHandler>::channel_mask_validate:bounds:index': 1,
    '<fix::FixedChannelPlan<F> as RegionHandler>::handle_new_channel:panic:explicit cratepanicunreachable_!': 1,
    '<fix::FixedChannelPlan<F> as RegionHandler>::select_tx_channel:bounds:index': 2,
    '<fix::FixedChannelPlan<F> as RegionHandler>::select_tx_channel:unwrap:Option::unwrap': 2,
    '<fix::au915::AU915Region as fix::FixedChannelRegion>::get_rx_datarate:overflow:Sub': 1,
    '<fix::us915::US915Region as fix::FixedChannelRegion>::get_rx_datarate:overflow:Sub': 2,
    'Configuration::create_tx_config:unwrap:Option::unwrap': 1,
    'async_device::Device::rx_downlink::{closure#0}:overflow:Add': 2,
    'async_device::Device::rx_downlink::{closure#0}:overflow:Sub': 2,
    'dyn::DynamicChannelPlan::get_random_in_range:unwrap:Option::unwrap': 1,
    'fix::join_channels::AvailableChannels::get_next_channel_inner:overflow:Add': 2,
    'fix::join_channels::JoinChannels::get_next_channel:overflow:Add': 2,
    'lorawan::default_crypto::calculate_mic:slice:range index': 1,
    'lorawan::default_crypto::calculate_mic:unwrap:Result::unwrap': 1,
    'mac::<impl core::convert::From<mac::Response> for async_device::JoinResponse>::from:panic:explicit cratepanicpanic_!': 1,
    'mac::<impl core::convert::From<mac::Response> for async_device::SendResponse>::from:panic:explicit cratepanicpanic_!': 1,
    'mac::Mac::build_rf_config:unwrap:Option::unwrap': 1,
    'mac::Mac::get_rx_delay:overflow:Add': 1,
    'mac::otaa::Otaa::prepare_buffer:unwrap:Result::unwrap': 1,
    'mac::session::Session::handle_downlink_macs:overflow:Add': 1,
    'mac::session::Session::handle_rx:unwrap:Result::unwrap': 1,
    'mac::session::Session::prepare_buffer:panic:explicit cratepanicpanic_!': 2,
    'mac::session::Session::prepare_buffer:unwrap:Result::unwrap': 1,
    'mac::uplink::Uplink::add_mac_command:overflow:Add': 1,
    'mac::uplink::Uplink::add_mac_command:unwrap:Result::unwrap': 1,
    'mac::uplink::Uplink::clear_mac_commands::{closure#1}:unwrap:Result::unwrap': 1,
    'nb_device::state::SendingData::handle_event:panic:explicit cratepanicpanic_!': 1,
    'nb_device::state::WaitingForRx::handle_event:overflow:Add': 1,
    'nb_device::state::WaitingForRx::handle_event:overflow:Sub': 1,
    'nb_device::state::WaitingForRxWindow::handle_event:overflow:Add': 3,
    'nb_device::state::WaitingForRxWindow::handle_event:overflow:Sub': 1,
    'nb_device::state::data_rxwindow1_timeout:overflow:Add': 1,
    'radio::RadioBuffer::as_mut_for_read:slice:range index': 1,
    'radio::RadioBuffer::as_ref_for_read:slice:range index': 1,
    'radio::RadioBuffer::extend_from_slice:overflow:Add': 1,
    'radio::TxConfig::adjust_power:overflow:Sub': 1,
}

# entry-point exclusions (still analysed in every calling context)
ENTRY_EXCLUSIONS = [
    (r'Uplink::add_mac_command$', 'pub(crate) generic helper: the MAC answer is built by handle_downlink_macs; analysed in that context, not with an arbitrary SerializableMacCommand'),
]


def delegated(o):
    """sites of the codec crates that another check proves for *every* input under the type invariants: C03 for the
    parse side of `lorawan`, C16 for lora_modulation. Builder-side sites of `lorawan` are judged here."""
    from .c03 import BUILDER_PAT, ENTRY_EXCLUSIONS as C03_EXCL
    fn = o.fn.lstrip('<')
    if fn.startswith('lora_modulation::'):
        return 'C16'
    if fn.startswith('lorawan::') and not BUILDER_PAT.search(o.fn) and not any(re.search(pat, o.fn) for pat, _ in C03_EXCL):
        return 'C03'
    return None


def classify_site(o):
    from .c03 import EXCEPTIONS as C03_EXC
    if (o.fn, o.kind, o.desc) in C03_EXC:
        return 'reviewed', C03_EXC[(o.fn, o.kind, o.desc)]
    s = '%s:%s:%s' % (o.fn, o.kind, o.desc)
    for pat, cls, why in TABLE:
        if re.search(pat, s):
            return cls, why
    # a site inside a closure of a listed function is a site of that function (`x.and_then(|d| table[d])` for `table[x?]`)
    fn2 = re.sub(r'(::\{closure#\d+\})+$', '', o.fn)
    if fn2 != o.fn:
        s2 = '%s:%s:%s' % (fn2, o.kind, o.desc)
        for pat, cls, why in TABLE:
            if re.search(pat, s2):
                return cls, why
    return None, None


def short(fn):
    return fn.replace('lorawan_device::', '').replace('region::', '').replace('dynamic_channel_plans::', 'dyn::').replace('fixed_channel_plans::', 'fix::')


# ---------------------------------------------------------------------------------------------------- flow rules
D = 'lorawan_device::'
# WHO-WRITES: every function that stores to one of these fields is listed with the reason why the store keeps the named
# invariant; a writer that is not listed is a violation (it must be reviewed)
WRITERS = {
    ('mac::Configuration', 'data_rate'): {
        'mac::Mac::new': ('construct', 'region default data rate (const-table rule)'),
        'mac::session::Session::handle_downlink_macs': ('validated', 'LinkADRReq: commanded rate, region-defined, with the mask validated for it'),
        'mac::session::Session::rx2_complete': ('validated', 'ADR back-off: next lower region-defined rate'),
        'async_device::Device::set_datarate': ('application', 'application precondition'),
        'nb_device::Device::set_datarate': ('application', 'application precondition'),
    },
    ('mac::Configuration', 'rx1_dr_offset'): {
        'mac::Mac::new': ('construct', 'constant default'),
        'mac::otaa::Otaa::handle_rx': ('guard', 'rx1_dr_offset_validate'),
        'mac::session::Session::handle_downlink_macs': ('guard', 'rx1_dr_offset_validate'),
    },
    ('mac::Configuration', 'rx2_data_rate'): {
        'mac::Mac::new': ('construct', 'None (region default is used)'),
        'mac::otaa::Otaa::handle_rx': ('guard', 'get_datarate'),
        'mac::session::Session::handle_downlink_macs': ('guard', 'get_datarate'),
    },
    ('mac::Configuration', 'rx1_delay'): {
        'mac::Mac::new': ('construct', 'constant default'),
        'mac::otaa::Otaa::handle_rx': ('value', 'del_to_delay_ms'),
        'mac::session::Session::handle_downlink_macs': ('value', 'del_to_delay_ms'),
    },
}

# non-iterator loops (exit not guaranteed by the iterator protocol) per function: the reviewed inventory
LOOPS = {
    '<region::dynamic_channel_plans::DynamicChannelPlan<R> as region::RegionHandler>::select_tx_channel':
        (2, 'join: index < NUM_JOIN_CHANNELS (1..=3 of 4 draws: const rule); data: INV-DYN some channel < 16 is defined and enabled'),
    '<region::fixed_channel_plans::FixedChannelPlan<F> as region::RegionHandler>::select_tx_channel':
        (2, 'INV-FIX: an enabled channel exists in the bandwidth class of the current data rate'),
    'region::fixed_channel_plans::join_channels::AvailableChannels::get_next_channel_inner':
        (1, 'the bank of `next` has an enabled channel: get_next() resets an exhausted set before calling'),
    'async_device::Device::rxc_listen::{closure#0}': (1, 'runs until a frame is accepted: driven by the radio (environment), cancellable future'),
    'async_device::Device::between_windows::{closure#0}': (1, 'Class C: processes RXC frames until the window timer future fires (environment)'),
}


def cond_mentions_call(bf, cnd, suffix, depth=0):
    """does the branch condition depend on the result of a call to `suffix` (directly, or through a local that was
    assigned from it: `a && b` temporaries)?"""
    t = cnd[0]

    def has(x):
        return term_contains(x, lambda y: isinstance(y, tuple) and len(y) >= 2 and y[0] == 'call' and isinstance(y[1], str) and y[1].endswith(suffix))
    if has(t):
        return True
    if depth > 3:
        return False
    phis = []
    term_contains(t, lambda y: phis.append(y[1]) if isinstance(y, tuple) and len(y) == 2 and y[0] == 'phi' else False)
    for ph in phis:
        for (v, cs, bb) in rules.defs_with_conditions(bf, ph):
            if has(v) or any(cond_mentions_call(bf, c2, suffix, depth + 1) for c2 in cs):
                return True
    return False


def guarded_by_call(bf, bb, suffix):
    return any(cond_mentions_call(bf, c_, suffix) and not cond_false(c_) for c_ in path_conditions(bf, bb))


def alternatives_guarded(bf, bb, st, suffix, field):
    """an unconditional store whose value is itself a selection (`validate(x).unwrap_or(current)`, a phi): every alternative is either
    the field's own current value (nothing changes) or is taken only under the successful call"""
    if st.k != 'assign' or st.rv.k != 'use':
        return False
    v = term_of_operand(bf, st.rv.ops[0])
    alts = rules.value_cases(bf, v, path_conditions(bf, bb))
    n_new = 0
    for cv, cs in alts:
        t = layout_peel(cv)
        if isinstance(t, tuple) and t[:1] == ('field',) and t[2] == field:
            continue
        n_new += 1
        if not any(cond_mentions_call(bf, x, suffix) and not cond_false(x) for x in cs):
            return False
    return n_new >= 1 and len(alts) >= 2


def cond_implies_call_true(bf, cnd, suffix, depth=0):
    """does the branch condition (taken with its recorded polarity) hold only if a call to `suffix` returned true /
    Some / Ok? Unlike cond_mentions_call this is a must-rule: a flag that can also become true on a path that does
    not take the call's result (`a == b || validate(..)`) does not qualify."""
    t, val = cnd[0], cnd[1]

    def is_the_call(x):
        x = layout_peel(x)
        return isinstance(x, tuple) and len(x) >= 3 and x[0] == 'call' and isinstance(x[1], str) and x[1].endswith(suffix)
    if cond_false(cnd):
        return False
    if is_the_call(t):
        return True
    if isinstance(t, tuple) and t and t[0] == 'discr' and is_the_call(t[1]):
        return val in ((1,), ('not', (0,)))     # Some / true; (Result: Ok is 0 - not used with this helper)
    if isinstance(t, tuple) and t and t[0] == 'call' and t[1].endswith('is_some') and is_the_call(t[2][0]):
        return True
    if depth > 4 or not (isinstance(t, tuple) and len(t) == 2 and t[0] == 'phi'):
        return False
    n_call = 0
    for (v, cs, bb) in rules.defs_with_conditions(bf, t[1]):
        if v in (('const', 0), ('const', False)):
            continue
        if is_the_call(v):
            n_call += 1
            continue
        if isinstance(v, tuple) and len(v) == 2 and v[0] == 'phi' and cond_implies_call_true(bf, (v, val), suffix, depth + 1):
            n_call += 1
            continue
        return False
    return n_call > 0


def layout_peel(t):
    while isinstance(t, tuple) and t and t[0] in ('ref', 'deref') and len(t) == 2:
        t = t[1]
    return t


def must_guarded_by_call(bf, bb, suffix):
    return any(cond_implies_call_true(bf, c_, suffix) for c_ in path_conditions(bf, bb))


def stores_through(prog, adt_suffix, field, crate='lorawan_device'):
    """(body, bb, si, stmt) for every store whose place goes through field `field` of an ADT ending in adt_suffix
    (element stores `self.channels[i] = ..` included)"""
    out = []
    for body in prog.bodies.values():
        if body.crate != crate or body.stage == 'promoted':
            continue
        for b in body.blocks:
            if b.cleanup:
                continue
            for si, st in enumerate(b.stmts):
                if st.k == 'assign' and any(isinstance(p_, dict) and p_.get('n') == field and (p_.get('adt') or '').split('<')[0].endswith(adt_suffix) for p_ in st.lhs.proj):
                    out.append((body, b.idx, si, st))
    return out


def absint_new(prog):
    from .. import absint_interp
    return absint_interp.new_analyzer(prog, max_depth=4)


def iterator_driven(bf, blocks):
    """the loop calls Iterator::next (or a Peekable/adapter next) and leaves the loop on its None edge"""
    for bb in blocks:
        t = bf.body.blocks[bb].term
        if t.k != 'call' or not (callee_name(t) or '').endswith('::next') or t.target is None:
            continue
        d = t.dest.local
        # the switch on discriminant(dest) somewhere in the loop with an edge out of the loop
        for b2 in blocks:
            t2 = bf.body.blocks[b2].term
            if t2.k != 'switch':
                continue
            tm = term_of_operand(bf, t2.discr)
            if tm[0] == 'discr' and term_contains(tm, lambda y: isinstance(y, tuple) and len(y) == 4 and y[0] == 'call' and y[3] == bb):
                outs = [tg for _, tg in t2.targets] + [t2.otherwise]
                if any(o is not None and o not in blocks for o in outs):
                    return True
    return False


def counter_driven(bf, blocks):
    """a counting loop: an exit test compares a local with a loop-invariant bound (`n > 0`, `n != 0`, `i < N`), every
    definition of that local inside the loop moves it one way by a positive constant, so the exit is reached"""
    from ..rules import defs_with_conditions, linear
    for b2 in blocks:
        t2 = bf.body.blocks[b2].term
        if t2.k != 'switch':
            continue
        outs = [tg for _, tg in t2.targets] + [t2.otherwise]
        if not any(o is not None and o not in blocks for o in outs):
            continue
        tm = term_of_operand(bf, t2.discr)
        if not (isinstance(tm, tuple) and len(tm) == 3 and tm[0] in ('Gt', 'Ge', 'Lt', 'Le', 'Ne')):
            continue
        for var_, bound, down in ((tm[1], tm[2], tm[0] in ('Gt', 'Ge', 'Ne')), (tm[2], tm[1], tm[0] in ('Lt', 'Le'))):
            if not (isinstance(var_, tuple) and var_[:1] == ('phi',)):
                continue
            if term_contains(bound, lambda y: isinstance(y, tuple) and y[:1] == ('phi',)):
                continue
            if tm[0] == 'Ne' and bound != ('const', 0):
                continue
            steps = []
            ok = True
            for v, cs, bb in defs_with_conditions(bf, var_[1]):
                if bb not in blocks:
                    continue
                l_ = linear(v)
                if l_[0] == {var_: 1} and l_[1] != 0 and ((l_[1] < 0) == down) and (tm[0] != 'Ne' or l_[1] == -1):
                    steps.append(bb)
                else:
                    ok = False
            if ok and steps:
                return True
    return False


def await_loop(bf, blocks):
    """the poll loop of one `.await`: poll -> Pending -> yield -> poll again; nothing else is called inside"""
    has_yield = any(bf.body.blocks[b].term.k == 'yield' for b in blocks)
    if not has_yield:
        return False
    for b in blocks:
        t = bf.body.blocks[b].term
        if t.k == 'call':
            cn = t.callee() or ''
            if not (cn.endswith('Future::poll') or cn.endswith('::new_unchecked') or cn.endswith('get_context') or cn.endswith('IntoFuture::into_future')):
                return False
    return True


def flow_rules(c, res, an):
    prog, pf = c.prog, c.pf
    # ---- WHO-WRITES
    for (adt, field), table in sorted(WRITERS.items()):
        ws = pf.writers_of_field(adt, field, crates={'lorawan_device'})
        seen = {}
        for body, bb, si, st, kind in ws:
            seen.setdefault(body.path[len(D):] if body.path.startswith(D) else body.path, []).append((body, bb, si, st, kind))
        if len(seen) < 3:
            raise CheckError('floor: writers of %s.%s found %d < 3' % (adt, field, len(seen)))
        for fn, sites in sorted(seen.items()):
            row = table.get(fn)
            res.require(row is not None, 'C04:who-writes:%s.%s:%s' % (adt.split('::')[-1], field, fn),
                        'unreviewed writer of %s.%s: the invariant that makes the unwrap/index/arith sites of this field safe is only checked for the listed writers' % (adt, field),
                        '%s bb%d' % (fn, sites[0][1]), 'WHO-WRITES(%s.%s)' % (adt.split('::')[-1], field), instance='%s.%s written by reviewed writer %s' % (adt.split('::')[-1], field, fn))
            if row is None:
                continue
            how, what = row
            for body, bb, si, st, kind in sites:
                if kind != 'store':
                    continue
                bf = pf.bf(body)
                if how == 'guard':
                    res.require(guarded_by_call(bf, bb, what) or alternatives_guarded(bf, bb, st, what, field), 'C04:%s:%s-store-unguarded' % (fn, field),
                                'store to %s is not guarded by a successful %s' % (field, what), short_site(bf, bb, si), 'DOM(%s => store %s)' % (what, field),
                                instance='%s: store to %s guarded by %s' % (fn, field, what))
                elif how == 'value':
                    v = term_of_operand(bf, st.rv.ops[0]) if st.rv.k == 'use' else None
                    okv = v is not None and term_contains(v, lambda y: isinstance(y, tuple) and y[:1] == ('call',) and y[1].endswith(what)) and v[0] == 'call'
                    res.require(okv, 'C04:%s:%s-value' % (fn, field), 'store to %s is not the result of %s: %s' % (field, what, term_str(v) if v else st.rv.k),
                                short_site(bf, bb, si), 'PROVENANCE(%s)' % field, instance='%s: %s = %s(..)' % (fn, field, what))
                elif how == 'validated':
                    # region-defined: the stored rate passed get_datarate(..).is_some() (directly or inside next_lower_datarate)
                    d_ok = guarded_by_call(bf, bb, 'get_datarate') or guarded_by_call(bf, bb, 'next_lower_datarate')
                    res.require(d_ok, 'C04:%s:data_rate-store-undefined-rate' % fn, 'store to data_rate is not guarded by the region defining that rate',
                                short_site(bf, bb, si), 'DOM(get_datarate(dr).is_some() => store data_rate)', instance='%s: data_rate store guarded by get_datarate' % fn)
                    # usable: the (mask, data rate) pair was validated - the retry loops of select_tx_channel rely on it
                    m_ok = must_guarded_by_call(bf, bb, 'channel_mask_validate')
                    if m_ok:
                        # ... and it is this rate that was validated: channel_mask_validate(_, X) with the store writing X's payload
                        v = layout_peel(term_of_operand(bf, st.rv.ops[0])) if st.rv.k == 'use' else None
                        vals = [layout_peel(term_of_operand(bf, t_.args[2])) for b_, t_ in bf.calls_to('channel_mask_validate')]
                        same = v is not None and any(v == ('field', ('as', x, 'Some'), '0') for x in vals)
                        res.require(same, 'C04:%s:data_rate-validated-for-other-rate' % fn,
                                    'the data rate stored (%s) is not the one channel_mask_validate was asked about (%s)' % (term_str(v) if v else None, [term_str(x) for x in vals]),
                                    short_site(bf, bb, si), 'SAME-VALUE(validated rate = stored rate)', instance='%s: the stored data rate is the validated one' % fn)
                    res.require(m_ok, 'C04:%s:data_rate-store-without-mask-validation' % fn,
                                'data_rate is changed without channel_mask_validate(mask, new rate): on fixed plans the new rate can select a bandwidth class with no enabled channel '
                                '(select_tx_channel then never returns)', short_site(bf, bb, si), 'VALIDATE-BEFORE-WRITE(data_rate)',
                                instance='%s: data_rate store preceded by channel_mask_validate' % fn)
    # next_lower_datarate only proposes region-defined rates
    bf = c.bf(D + 'mac::session::next_lower_datarate')
    sr = rules.search_returns(bf)
    for r_ in sr:
        def defined(x):
            k_ = rules.option_known(x)
            return k_ is not None and k_[1] and isinstance(k_[0], tuple) and k_[0][:1] == ('call',) and k_[0][1].endswith('get_datarate')
        res.require(guarded_by_call(bf, r_['site'][0], 'get_datarate') if r_['form'] == 'loop' else any(defined(x) for x in r_['guards']), 'C04:next_lower_datarate:candidate-not-checked',
                    'a candidate rate is returned without get_datarate(candidate).is_some()', short_site(bf, r_['site'][0], r_['site'][1]), 'DOM(get_datarate => return Some)',
                    instance='next_lower_datarate returns only region-defined rates')
    if len(sr) < 1:
        raise CheckError('anchor: next_lower_datarate has no `return Some(..)`')
    # ---- VALIDATE-BEFORE-WRITE(mask): every installation of a channel mask
    n_set = 0
    for bf, bb, t in pf.callers_of('channel_mask_set', crates={'lorawan_device'}):
        fn = bf.body.path[len(D):] if bf.body.path.startswith(D) else bf.body.path
        if fn == 'region::Configuration::channel_mask_set':
            continue   # dispatch wrapper
        n_set += 1
        res.require(must_guarded_by_call(bf, bb, 'channel_mask_validate'), 'C04:%s:channel_mask_set-without-validate' % short(fn),
                    'a channel mask is installed without channel_mask_validate: a mask with no usable channel makes select_tx_channel spin forever',
                    short_site(bf, bb), 'VALIDATE-BEFORE-WRITE(channel mask)', instance='%s: channel_mask_set after channel_mask_validate' % short(fn))
    if n_set < 1:
        raise CheckError('floor: channel_mask_set call sites %d < 1' % n_set)
    # direct stores to the mask fields only in channel_mask_set / constructors
    for adt in ('DynamicChannelPlan', 'FixedChannelPlan'):
        for body, bb, si, st in stores_through(prog, adt, 'channel_mask'):
            fn = body.path
            okw = fn.endswith('::channel_mask_set')
            res.require(okw, 'C04:who-writes:%s.channel_mask:%s' % (adt, short(fn)), 'channel mask written outside channel_mask_set', '%s bb%d' % (fn, bb),
                        'WHO-WRITES(channel_mask)', instance='%s.channel_mask stored by channel_mask_set only' % adt)
    # ---- CHANNEL-REMOVAL (dynamic plans): a channel may only disappear if a usable one provably remains
    n_rm = 0
    for body, bb, si, st in stores_through(prog, 'DynamicChannelPlan', 'channels'):
        bf = pf.bf(body)
        v = term_of_operand(bf, st.rv.ops[0]) if st.rv.k == 'use' else (('agg', 'core::option::Option::' + st.rv.d.get('variant', ''), ()) if st.rv.k == 'agg' else None)
        if not (v is not None and v[0] == 'agg' and v[1].endswith('Option::None')):
            continue
        n_rm += 1
        fn = short(body.path)
        res.require(must_guarded_by_call(bf, bb, 'channel_mask_validate'), 'C04:%s:channel-removed-without-revalidation' % fn,
                    'a channel is removed from the plan without checking that an enabled, defined channel remains (the data retry loop of select_tx_channel never ends otherwise)',
                    short_site(bf, bb, si), 'VALIDATE-BEFORE-WRITE(channel removal)', instance='%s: removal re-validated' % fn)
    for bf, bb, t in pf.callers_of('ChannelMask::set_channel', crates={'lorawan_device'}):
        if 'DynamicChannelPlan' not in bf.body.path:
            continue
        a = term_of_operand(bf, t.args[2]) if len(t.args) > 2 else None
        if a == ('const', 0):
            n_rm += 1
            # same site as the removal above when it is in the same block: reported once under the store's key
    if n_rm < 2:
        raise CheckError('floor: channel removal sites %d < 2' % n_rm)
    # ---- CONST-TABLE rules behind the named invariants of the classification table
    draw_covers_plan(c, res)
    if an is None:
        return {}
    from .. import tables
    regs = tables.regions(prog)
    if len(regs) != 6:
        raise CheckError('floor: ChannelRegion impls %d != 6' % len(regs))
    bdef = [b for p_, bl in prog.by_short.items() if p_.endswith('region::RegionHandler::get_default_datarate') for b in bl]
    overrides = [im['self_ty'] for im in prog.impls if im.get('trait') == D + 'region::RegionHandler' and any(it['name'] == 'get_default_datarate' for it in im['items'])]
    dflt = None
    if len(bdef) == 1 and not overrides:
        a_, fr_, out_, rv_ = tables.run_fn(prog, bdef[0])
        if rv_ is not None and rv_[0] == 'adt' and rv_[2] is not None and len(rv_[2]) == 1:
            dflt = next(iter(rv_[2]))
    if dflt is None:
        raise CheckError('anchor: RegionHandler::get_default_datarate is not one default method returning a constant (overrides: %s)' % overrides)
    # the fixed-plan stubs of handle_new_channel / channel_dl_update are `unreachable!()`: every call of the two region operations is
    # behind `has_fixed_channel_plan() == false` (a NewChannelReq / DlChannelReq from the network on US915 / AU915 would panic otherwise)
    n_stub = 0
    for suffix in ('Configuration::handle_new_channel', 'Configuration::channel_dl_update'):
        for bf_, bb_, t_ in c.pf.callers_of(suffix, crates={'lorawan_device'}):
            if bf_.body.path.startswith(D + 'region::'):
                continue                      # the dispatcher itself
            n_stub += 1
            conds_ = rules.path_conditions(bf_, bb_)
            okg = any(isinstance(x[0], tuple) and x[0][:1] == ('call',) and x[0][1].endswith('has_fixed_channel_plan') and rules.cond_false(x) for x in conds_)
            res.require(okg, 'C04:%s:%s:fixed-plan-guard' % (short(bf_.body.path), suffix.split('::')[-1]),
                        '%s is called without the has_fixed_channel_plan() test: on a fixed-plan region (US915 / AU915) it ends in unreachable!() - a NewChannelReq / DlChannelReq from the network panics the device' % suffix.split('::')[-1],
                        '%s bb%d' % (bf_.body.path, bb_), 'DOM(not has_fixed_channel_plan() => call)', instance='%s: %s only for dynamic plans' % (short(bf_.body.path), suffix.split('::')[-1]))
    if n_stub < 2:
        raise CheckError('floor: callers of handle_new_channel / channel_dl_update %d < 2' % n_stub)
    win = rules.variants_of(prog, 'mac::Window')
    # the classified unwrap of Mac::build_rf_config leans on the RX2 default being defined: the lookup it unwraps must be the one for Window::_2
    from . import c10 as _c10
    fw = _c10.fallback_windows(c)
    res.require(fw == ['_2'], 'C04:Mac::build_rf_config:fallback-window', 'the fallback data rate unwrapped in build_rf_config is looked up for %s, not for the constant Window::_2: for an RX1 rate the region does not define '
                '(IN865 DR5 + RX1DROffset 7 -> DR7, AS923 DR5 + offset 7) the lookup repeats the undefined rate and the unwrap panics on the next uplink' % fw, D + 'mac::Mac::build_rf_config',
                'PROVENANCE(fallback lookup = regional RX2 default)', instance='build_rf_config: unwrap(get_datarate(get_rx_datarate(.., Window::_2)))')
    for r in regs:
        sr = r.split('::')[-1].split('<')[0]
        dr = tables.datarates(prog, r)
        res.require(isinstance(dr[dflt], dict), 'C04:const:%s:default-datarate' % sr, 'the default data rate DR%d is not defined in the %s table' % (dflt, sr), r,
                    'CONST-TABLE(default data rate defined)', instance='%s: default data rate DR%d is defined (invariant data_rate-defined holds initially)' % (sr, dflt))
        pw = tables.option_u8_table(prog, tables._method_body(prog, r, tables.CR, 'tx_power_adjust'), [0])
        res.require(isinstance(pw[0], int), 'C04:const:%s:tx-power-0' % sr, 'tx_power_adjust(0) is not Some in %s' % sr, r, 'CONST-TABLE(tx power index 0 defined)',
                    instance='%s: tx_power_adjust(0) = %s dBm (create_tx_config unwrap)' % (sr, pw[0]))
        # RX2 fallback: get_rx_datarate(tx_dr, offset, Window::_2) is a defined rate for every defined tx_dr and valid offset
        mo = tables.assoc_const(prog, r, tables.CR, 'MAX_RX1_DR_OFFSET')
        trait = D + ('region::fixed_channel_plans::FixedChannelRegion' if 'fixed_channel_plans' in r else 'region::dynamic_channel_plans::DynamicChannelRegion')
        body = tables._method_body(prog, r, trait, 'get_rx_datarate')
        if body is None or mo is None:
            raise CheckError('anchor: get_rx_datarate / MAX_RX1_DR_OFFSET of %s' % sr)
        bad = []
        n_eval = 0
        for i, e in enumerate(dr):
            if not isinstance(e, dict):
                continue
            for off_ in range(mo + 1):
                wv = tables.enum_value(prog, D + 'mac::Window', '_2')
                an_ = absint_new(prog)
                # &Window argument: place the enum in a local of the entry frame and pass a reference to it
                def setup(an2, fr2, st2, i=i, off_=off_, wv=wv):
                    st2.env[(fr2.id, 1)] = tables.enum_value(prog, 'lorawan::types::DR', prog.adts['lorawan::types::DR']['variants'][i]['name'])
                    from ..absint import Lin
                    st2.env[(fr2.id, 2)] = ('int', Lin.const(off_))
                    st2.mem[('obj', 'window_arg*')] = wv
                    st2.env[(fr2.id, 3)] = ('ref', ('O', 'window_arg*', ()))
                fr2, out2 = an_.analyze_entry(body, setup=setup)
                n_eval += 1
                rv2 = out2.env.get((fr2.id, 0)) if out2 is not None else None
                if rv2 is None or rv2[0] != 'adt' or rv2[2] is None or not all(j < len(dr) and isinstance(dr[j], dict) for j in rv2[2]):
                    bad.append((i, off_, sorted(rv2[2]) if rv2 is not None and rv2[0] == 'adt' and rv2[2] is not None else None))
        res.require(not bad and n_eval > 0, 'C04:const:%s:rx2-default-defined' % sr, 'regional RX2 data rate undefined for (tx dr, offset) %s' % bad[:4], r,
                    'CONST-TABLE(RX2 default data rate defined)', instance='%s: get_rx_datarate(tx_dr, offset<=%d, Window::_2) is a defined rate (%d cases; build_rf_config unwrap)' % (sr, mo, n_eval))
    # ---- LOOP inventory
    found = {}
    n_loops = 0
    for fn in sorted(an.fn_contexts):
        if not (fn.startswith(D) or fn.startswith('<' + D)):
            continue
        bl = prog.by_short.get(fn) or []
        if len(bl) != 1:
            continue
        bf = pf.bf(bl[0])
        non_iter = 0
        for h, blocks in bf.cfg.natural_loops().items():
            n_loops += 1
            if await_loop(bf, blocks):
                continue
            if not iterator_driven(bf, blocks) and not counter_driven(bf, blocks):
                non_iter += 1
        if non_iter:
            found[fn.replace(D, '')] = non_iter
    if n_loops < 15:
        raise CheckError('floor: loops in analysed device functions %d < 15' % n_loops)
    for fn, n in sorted(found.items()):
        row = LOOPS.get(fn)
        res.require(row is not None and n <= row[0], 'C04:loop:%s' % short(fn),
                    '%d loop(s) whose exit is not given by an iterator in %s (%s reviewed): termination must be argued and listed' % (n, fn, row[0] if row else 0),
                    fn, 'LOOP-INVENTORY', instance='%s: %d non-iterator loop(s): %s' % (short(fn), n, row[1] if row else ''))
    res.coverage['non_iterator_loops'] = found
    return found


def draw_covers_plan(c, res):
    """termination of the dynamic-plan channel selection (listed loop "retry until an enabled channel is drawn") needs
    every defined channel to be drawable: get_random_in_range returns rng & m with m = 2^k - 1 chosen from the index L of
    the last defined channel; on every path the conditions under which m was chosen must imply L <= m"""
    from ..rules import defs_with_conditions, cond_true, cond_false, linear
    fn = D + 'region::dynamic_channel_plans::DynamicChannelPlan::get_random_in_range'
    bf = c.bf(fn)
    body = bf.body
    rets = [s for b in body.blocks if not b.cleanup and b.idx in bf.cfg.reach for s in b.stmts if s.k == 'assign' and s.lhs.is_local() and s.lhs.local == 0]
    from ..layout import rv_term
    # the draw: rng & mask, possibly widened before or after the masking
    rt = rules.strip_widening(rv_term(bf, rets[0].rv)) if len(rets) == 1 else None
    ok = rt is not None and rt[0] == 'BitAnd'
    why = 'the draw is not rng & mask'
    worst = None
    if ok:
        ts = [rt[1], rt[2]]
        rng_i = [i for i, t in enumerate(ts) if term_contains(t, lambda y: isinstance(y, tuple) and y[:1] == ('call',) and y[1].endswith('RngCore::next_u32'))]
        ok = len(rng_i) == 1
    if ok:
        mt = rules.strip_widening(ts[1 - rng_i[0]])
        cases = rules.value_cases(bf, mt)
        last = rules.find_in_term(('x', mt) + tuple(x[0] for v_, cs_ in cases for x in cs_),
                                  lambda y: isinstance(y, tuple) and y[:1] == ('call',) and y[1].endswith('Option::unwrap') and term_contains(y, lambda z: isinstance(z, tuple) and z[:1] == ('call',) and z[1].endswith('Iterator::rposition')))
        ok = last is not None
        why = 'the index of the last defined channel (rposition(..).unwrap()) is not what selects the mask'
    if ok:
        # number of slots of the plan: the type of self.channels
        import re as _re
        n_slots = None
        for v in c.prog.adts[D + 'region::dynamic_channel_plans::DynamicChannelPlan']['variants'][0]['fields']:
            if v['name'] == 'channels':
                m_ = _re.search(r';\s*([A-Za-z_0-9:]+)\s*\]', v['ty'])
                if m_:
                    n_slots = int(m_.group(1)) if m_.group(1).isdigit() else tables_const(c, m_.group(1))
        if n_slots is None:
            raise CheckError('anchor: size of DynamicChannelPlan.channels')
        for v, conds in cases:
            v = rules.strip_widening(v)
            if v[0] != 'const':
                ok, why = False, 'mask %s is not a constant' % term_str(v)
                break
            # the conditions under which this mask is chosen bound the last defined index: the largest bound they imply
            ub = n_slots - 1
            for k in range(n_slots - 1):
                if rules.implies_order(conds, '<=', last, ('const', k)):
                    ub = k
                    break
            if ub > v[1] or (v[1] & (v[1] + 1)) != 0:
                ok = False
                why = 'with mask %d the last defined channel index can be as high as %d: that channel is never drawn' % (v[1], ub)
                break
            worst = (v[1], ub) if worst is None or ub > worst[1] else worst
    res.require(ok, 'C04:dyn::get_random_in_range:draw-covers-plan', 'the random channel draw does not cover every defined channel (selection can spin forever when only an uncovered channel is enabled): ' + why,
                fn, 'COVER(draw range >= last defined channel)', instance='get_random_in_range: mask 2^k - 1 >= index of the last defined channel on every path')


def tables_const(c, name):
    return None


# ---- thorough tier: the feature-gated code of the all-features build (multicast, certification, serde)
FEATURE_ENTRY = re.compile(r'^<?lorawan_device::mac::(multicast|certification)::|^lorawan_device::mac::<impl core::convert::From<lorawan_device::mac::Response> for|'
                           r'^lorawan_device::mac::session::Session::handle_rx$|^lorawan_device::mac::Mac::(multicast_setup_send|certification_setup_send)$')
FEATURE_SITE = re.compile(r'multicast|certification|From<lorawan_device::mac::Response> for|From<mac::Response> for')
FEATURE_TABLE = [
    # (regex on the obligation key, class, reason)
    (r'certification::EchoIncPayloadAnsCreator::payload:slice:range index', 'invariant:mac-payload-le-250',
     'the echoed payload is the FRMPayload of an accepted frame minus the CID: frames longer than max_payload_len + 5 are dropped before the MIC check, every regional max MAC payload is <= 250 '
     '(const table rule below), so FRMPayload <= 242 and the payload <= 241 fits data[1..=241]'),
    (r'multicast::group_status::McGroupStatusAnsCreator::(push:bounds:index|build:slice:range index)', 'bounded',
     'one creator per McGroupStatusReq, one push per multicast session: at most MAX_GROUPS = 4 items of 5 bytes in the 22-byte buffer (the loop runs over the fixed array of sessions)'),
    (r'multicast::Multicast::handle_setup_message:overflow:Add', 'bounded', 'nb_total_groups counts the entries of the fixed [Option<Session>; 4] array'),
    (r'multicast::Multicast::handle_setup_message:unwrap:Option::unwrap', 'bounded', 'mc_k_e_key.as_ref().unwrap() directly after the is_none() early return'),
    (r'multicast::Multicast::handle_rx:unwrap:Result::unwrap', 'bounded',
     'decrypt_in_place with both keys after a successful validate_mic on the same bytes; FRMPayload <= 256 fits Vec<u8, 256> (same pattern as Session::handle_rx)'),
    (r'certification::Certification::setup_send:unwrap:Option::unwrap', 'undecided:result-state-correlation',
     'NOT DECIDED: pending_uplink is Some whenever the UplinkPrepared response that triggers certification_setup_send was returned (set in the same arm of handle_message); '
     'the correlation between a response value and a field is not expressible in the abstract domain'),
    (r'From<(lorawan_device::)?mac::multicast::Response> for (lorawan_device::)?async_device::MulticastResponse>::from:panic:', 'undecided:result-state-correlation',
     'NOT DECIDED: the panicking arm needs a multicast response other than NewSession / SessionExpired / DownlinkReceived; handle_mac_response only lets those three through (is_for_async_mc_response)'),
    (r'From<(lorawan_device::)?mac::Response> for (lorawan_device::)?async_device::ListenResponse>::from:panic:', 'undecided:result-state-correlation',
     'NOT DECIDED: as for the Join/Send conversions of the default build (responses filtered by handle_mac_response and the MAC state)'),
]


def feature_build(res, default_keys):
    """the panic-capable sites that only exist in the all-features build of lorawan-device: the feature modules
    (mac::multicast, mac::certification), the Response conversions and the extra arms of Session::handle_rx, analysed from
    their own entry points with all inputs unconstrained. Sites of the default build are judged by the main run."""
    os.environ['LRS_CONFIG_OVERRIDE'] = 'dev-full'
    try:
        cf = ctx('ws')
    finally:
        del os.environ['LRS_CONFIG_OVERRIDE']
    prog = cf.prog
    # the feature modules plus the MAC-level entry points of the main run (they establish the type invariants and give
    # Session::handle_rx its calling contexts); the two front-ends are left to the main run
    mac_level = re.compile(r'^lorawan_device::(mac::Mac::|mac::session::Session::|mac::otaa::Otaa::|mac::uplink::Uplink::|region::Configuration::|radio::RadioBuffer::|radio::TxConfig::|mac::RxWindows::)')
    ents = [b for p, bs in sorted(prog.by_short.items()) for b in bs if (FEATURE_ENTRY.search(p) or mac_level.search(p)) and b.stage != 'promoted' and not b.coroutine and '{closure' not in p
            and not any(re.search(pat, p) for pat, _ in ENTRY_EXCLUSIONS)]
    if len(ents) < 20:
        raise CheckError('floor: feature-module entry points %d < 20' % len(ents))
    an, inv, skipped = absint_run.run_passes(prog, ents, {'lorawan_device', 'lorawan', 'lora_modulation'}, max_depth=6, log=lambda x: None, subsume=True, jobs=16,
                                             setup=lambda a: a.boundary_traits.update(BOUNDARY))
    obl = an.finalize_obligations()
    n = n_ok = 0
    classes = {}
    for o in sorted(obl, key=lambda o: o.key()):
        k = o.key()
        if not (FEATURE_SITE.search(k) or (o.fn, o.kind, o.desc, str(o.span)) not in default_keys):
            continue
        n += 1
        if not o.bad:
            n_ok += 1
            res.ok('OBLIGATION(%s)' % o.kind, '%s discharged in %d context(s) [all-features build]' % (k, o.ok))
            continue
        cls, why = classify_site(o)
        if cls is None and delegated(o):
            continue
        if cls is None:
            for pat, c2, why2 in FEATURE_TABLE:
                if re.search(pat, k):
                    cls, why = c2, why2
                    break
        if cls is None:
            key = 'C04:%s:%s:%s#%d' % (short(o.fn), o.kind, o.desc, o.ord)
            res.violation(key, 'panic-capable site of the all-features build (multicast / certification code) is neither discharged nor classified: %s (%s) context %s' % (
                o.kind + ' ' + o.desc, (o.detail or {}).get('why'), [x.split('::')[-1] for x in (o.detail or {}).get('context', [])][:4]), '%s (%s)' % (o.fn, o.span), 'OBLIGATION(%s)' % o.kind)
        else:
            classes.setdefault(cls, []).append({'site': k, 'why': why})
            res.ok('CLASSIFIED(%s)' % cls, '%s: %s [all-features build]' % (k, why))
    if n < 60:
        raise CheckError('floor: feature-build obligations %d < 60' % n)
    # const-table rule behind invariant:mac-payload-le-250
    from .. import tables
    worst = 0
    for r in tables.regions(prog):
        for d in tables.datarates(prog, r):
            if isinstance(d, dict):
                worst = max(worst, d.get('max_mac_payload_size') or 0, d.get('max_mac_payload_size_with_dwell_time') or 0)
    res.require(0 < worst <= 250, 'C04:const:max-mac-payload', 'a regional data rate allows a MAC payload of %d bytes (> 250): FRMPayload-sized buffers of the certification answers no longer fit' % worst,
                'region data-rate tables', 'CONST-TABLE(max MAC payload <= 250)', instance='every regional data rate: max MAC payload <= 250 (largest %d) [all-features build]' % worst)
    res.coverage['all_features_build'] = {'config': cf.info, 'entries': len(ents), 'obligations': n, 'discharged': n_ok, 'classified': classes}


def run(tier):
    res = Result(PID)
    c = ctx('ws')
    prog = c.prog
    ents = [b for p, bs in sorted(prog.by_short.items()) for b in bs if ENTRY_PAT.search(p) and b.stage != 'promoted' and not b.coroutine and '{closure' not in p
            and not any(re.search(pat, p) for pat, _ in ENTRY_EXCLUSIONS)]
    if len(ents) < 70:
        raise CheckError('floor: device entry points %d < 70' % len(ents))
    log = []
    # one context depth for both tiers: at depth 7 the async front-end entries (Device::join, Device::send) cost minutes per pass
    # and the cost grows with every arm added below them; the thorough tier adds the all-features stage instead
    an, inv, skipped = absint_run.run_passes(prog, ents, {'lorawan_device', 'lorawan', 'lora_modulation'}, max_depth=6, log=log.append, subsume=True, jobs=16,
                                             setup=lambda a: a.boundary_traits.update(BOUNDARY))
    obl = an.finalize_obligations()
    n_ok = 0
    classes = {}
    deleg = {}
    per_group = {}
    group_sites = {}
    for o in sorted(obl, key=lambda o: o.key()):
        if not o.bad:
            n_ok += 1
            res.ok('OBLIGATION(%s)' % o.kind, '%s discharged in %d context(s)' % (o.key(), o.ok))
            continue
        cls, why = classify_site(o)
        if cls is None and delegated(o):
            deleg.setdefault(delegated(o), []).append(o.key())
            continue
        if cls is None:
            key = 'C04:%s:%s:%s#%d' % (short(o.fn), o.kind, o.desc, o.ord)
            res.violation(key, 'panic-capable site reachable from the device entry points is neither discharged nor classified: %s (%s) context %s' % (
                o.kind + ' ' + o.desc, (o.detail or {}).get('why'), [x.split('::')[-1] for x in (o.detail or {}).get('context', [])[:4]]),
                '%s (%s)' % (o.fn, o.span), 'OBLIGATION(%s)' % o.kind, o.detail)
        else:
            classes.setdefault(cls, []).append({'site': o.key(), 'reason': why})
            # closures belong to their function: moving a site between a closure and its function is not a new site
            grp = '%s:%s:%s' % (re.sub(r'::\{closure#\d+\}', '', short(o.fn)), o.kind, o.desc)
            per_group[grp] = per_group.get(grp, 0) + 1
            group_sites.setdefault(grp, []).append('#%d (%s): %s' % (o.ord, o.span, ((o.detail or {}).get('why') or '')[:160]))
    # a classified group may not grow: a *new* undischarged site of the same kind in the same function is a violation
    limits = {}
    for g_, n_ in GROUP_LIMITS.items():
        g2_ = re.sub(r'::\{closure#\d+\}', '', g_)
        limits[g2_] = limits.get(g2_, 0) + n_
    for grp, n in sorted(per_group.items()):
        lim = limits.get(grp)
        res.require(lim is not None and n <= lim, 'C04:%s:new-undischarged-site' % grp,
                    '%d undischarged sites in this group, %s reviewed: a panic-capable site that the classification was not written for is no longer discharged; sites: %s' % (
                        n, lim, '; '.join(group_sites.get(grp, []))),
                    grp, 'OBLIGATION(group ceiling)', instance='%s: %d undischarged site(s), all reviewed' % (grp, n))
    res.coverage['undischarged_per_group'] = per_group
    if len(obl) < 300:
        raise CheckError('floor: obligations %d < 300' % len(obl))
    res.coverage.update({'obligations': len(obl), 'discharged': n_ok, 'classified_sites': {k: len(v) for k, v in classes.items()}, 'classified': classes, 'delegated_sites': deleg,
                         'entries': len(ents), 'passes': log, 'class_hierarchy_joins': an.cha_log,
                         'loops_analysed': sum(len(v) for v in an.loops.values()),
                         'unmodelled_external_calls': dict(sorted(an.havoc_log.items(), key=lambda x: -x[1])[:20]), 'configs': [c.info]})
    flow_rules(c, res, an)
    if tier == 'thorough':
        feature_build(res, {(o.fn, o.kind, o.desc, str(o.span)) for o in obl})
    res.samples = [{'obligation': o.key(), 'contexts_discharged': o.ok} for o in obl[:5]]
    res.explanation = __doc__
    res.assumptions = ['classified sites are assumptions of the stated class (see coverage.classified); invariants are checked by flow rules where stated',
                       'liveness is decided only as: no entry point leaves a panicking state reachable; the retry loops are conditional on the listed invariants']
    return res
