"""C04 — no received frame or network command can panic or hang the device (necessary conditions + inventory).

Decided by abstract interpretation of the device stack from its MAC-level and front-end entry points (Mac::*,
Session/Otaa handlers, region::Configuration::*, the non-blocking state handlers; thorough: the async front-end as
well) with the receive buffer contents, every decrypted field, every RNG draw and all persisted state
unconstrained: every panic-capable site reached is an obligation. A site that the abstract state does not
discharge must be listed in the reviewed classification table below with its class and reason -
application-precondition (depends only on arguments of send/set_datarate/...), radio-contract (an impossible
PhyRxTx response or a length beyond the buffer handed to the radio), invariant (a named state invariant whose
every writer is checked by the flow rules of this module), bounded (a counter bounded by the frame length) - or
be a recorded finding. Anything else is a violation: that is how a deleted guard or a new unchecked index shows
up. Loops: the RNG retry loops of channel selection are listed with the invariant that makes their exit
satisfiable and the writers of that invariant are checked (validate-before-write)."""
import re
from ..runner import Result, CheckError
from .. import absint_run, rules, flow
from ..rules import param_by_name, term_of_operand, term_str, callee_name, path_conditions, cond_true, cond_false
from .common import ctx, short_site

PID = 'C04'

ENTRY_PAT = re.compile(r'^lorawan_device::(mac::Mac::|mac::session::Session::|mac::otaa::Otaa::|mac::uplink::Uplink::|region::Configuration::|radio::RadioBuffer::|'
                       r'radio::TxConfig::|mac::RxWindows::|mac::del_to_delay_ms|nb_device::state::|nb_device::Device::)')

# (regex over "<fn>:<kind>:<desc>", class, reason)
TABLE = [
    # ---- application preconditions
    (r'Session::prepare_buffer:panic:', 'application',
     'deliberate panics for an application error: data on FPort 0, or a payload that does not fit the frame (send() arguments)'),
    (r'Session::prepare_buffer:unwrap:Result::unwrap', 'application', 'the built frame (<= 256 bytes) always fits the radio buffer unless the application chose N < frame length'),
    (r'Otaa::prepare_buffer:unwrap:Result::unwrap', 'application', 'JoinRequest (23 bytes) does not fit only if the application chose a radio buffer N < 23'),
    (r'RadioBuffer::extend_from_slice:overflow:Add', 'application', 'pos + len cannot overflow usize for in-memory buffers (pos <= N)'),
    # ---- radio contract / environment
    (r'SendingData::handle_event:panic:', 'radio', 'PhyRxTx contract: only TxDone may answer a transmission in progress'),
    (r'RadioBuffer::as_(mut|ref)_for_read:slice:range index', 'radio',
     'pos <= N: set_pos() is only called with the length returned by PhyRxTx::rx_* for a buffer of N bytes (trait contract; the workspace adapter is proven in C18), clear() and extend_from_slice() keep it'),
    (r'nb_device::state::(WaitingForRx|WaitingForRxWindow)::handle_event:overflow:(Add|Sub)', 'radio',
     'millisecond timestamps / window durations supplied by the radio and timer (u32 arithmetic on board time)'),
    (r'nb_device::state::data_rxwindow1_timeout:overflow:Add', 'radio', 'TxDone timestamp + delay in i32: board time supplied by the radio'),
    (r'TxConfig::adjust_power:overflow:Sub', 'application', 'antenna gain and maximum power are board constants chosen by the integrator (i8 subtraction of region power <= 30 and gain)'),
    # ---- invariants (see the flow rules below)
    (r'RegionHandler>::select_tx_channel:(bounds:index|unwrap:Option::unwrap)', 'invariant:data_rate-defined',
     'datarates()[data_rate] is Some: Configuration.data_rate only holds region-defined rates (writers checked: WHO-WRITES data_rate + guards)'),
    (r'RegionHandler>::channel_mask_validate:bounds:index', 'invariant:data_rate-defined', 'dr is the validated candidate or the current data rate'),
    (r'Mac::build_rf_config:unwrap:Option::unwrap', 'invariant:rx2-default-defined', 'fallback RX2 data rate of every region is defined (const table rule)'),
    (r'Configuration::create_tx_config:unwrap:Option::unwrap', 'invariant:txpower0-defined', 'tx_power_adjust(0) is Some in every region (const table rule)'),
    (r'DynamicChannelPlan::get_random_in_range:unwrap:Option::unwrap', 'invariant:join-channels-present', 'join channels are created by init_channels and are read-only'),
    (r'get_rx_datarate:overflow:(Add|Sub)', 'invariant:rx1_dr_offset-validated',
     'rx1_dr_offset <= MAX_RX1_DR_OFFSET (writers: RXParamSetupReq / JoinAccept only after rx1_dr_offset_validate) and tx_dr <= 15'),
    (r'Mac::get_rx_delay:overflow:Add', 'invariant:rx1_delay-bounded', 'rx1_delay is del_to_delay_ms(nibble) <= 15000 or a constant (writers checked)'),
    (r'JoinChannels::get_next_channel:overflow:(Add|Mul|Sub)', 'invariant:join-bias', 'subband is 1..=8 (enum) and the retry counter counts join attempts'),
    (r'AvailableChannels::get_next_channel_inner:(overflow|unwrap)', 'invariant:join-channel-set', 'indices derive from a 3-bit/6-bit masked random draw; set_channel/is_enabled indices < 72'),
    # ---- bounded counters
    (r'Session::handle_downlink_macs:overflow:Add', 'bounded', 'num_adrreq counts LinkADRReq commands of one frame (<= 255 bytes)'),
    (r'Uplink::add_mac_command:overflow:Add', 'bounded', 'pending.len() <= 15 and payload_len() of a MAC answer <= 14'),
    (r'Uplink::add_mac_command:unwrap:Result::unwrap', 'bounded', 'guarded by len + payload_len < 15 (C08 checks the guard)'),
    (r'Uplink::clear_mac_commands::\{closure#1\}:unwrap', 'bounded', 'copies a subset of a 15-byte vector into a 15-byte vector'),
    (r'Session::handle_rx:unwrap:Result::unwrap', 'bounded', 'decrypt_in_place after a successful validate_mic on the same bytes; FRMPayload <= 256 fits Vec<u8, 256>'),
    (r'channel_mask_validate::\{closure#\d\}:unwrap:Result::unwrap', 'bounded', 'is_enabled(i) with i from a constant range below 72'),
    (r'(channel_dl_update|handle_new_channel):panic:explicit', 'bounded', 'fixed-plan stubs are unreachable: handle_downlink_macs skips both commands when has_fixed_channel_plan()'),
    (r'AS923Region<.*init_channels:overflow:Sub', 'application', 'OFFSET is a const generic of the region type (AS923-1..4 offsets are below the base frequency)'),
]


def classify_site(o):
    s = '%s:%s:%s' % (o.fn, o.kind, o.desc)
    for pat, cls, why in TABLE:
        if re.search(pat, s):
            return cls, why
    return None, None


def short(fn):
    return fn.replace('lorawan_device::', '').replace('region::', '').replace('dynamic_channel_plans::', 'dyn::').replace('fixed_channel_plans::', 'fix::')


def run(tier):
    res = Result(PID)
    c = ctx('ws')
    prog = c.prog
    ents = [b for p, bs in sorted(prog.by_short.items()) for b in bs if ENTRY_PAT.search(p) and b.stage != 'promoted' and not b.coroutine and '{closure' not in p]
    if len(ents) < 70:
        raise CheckError('floor: device entry points %d < 70' % len(ents))
    log = []
    an, inv, skipped = absint_run.run_passes(prog, ents, {'lorawan_device', 'lorawan', 'lora_modulation'}, max_depth=7 if tier == 'thorough' else 6, log=log.append)
    obl = an.finalize_obligations()
    n_ok = 0
    classes = {}
    used = set()
    for o in sorted(obl, key=lambda o: o.key()):
        if not o.bad:
            n_ok += 1
            continue
        cls, why = classify_site(o)
        if cls is None:
            key = 'C04:%s:%s:%s#%d' % (short(o.fn), o.kind, o.desc, o.ord)
            res.violation(key, 'panic-capable site reachable from the device entry points is neither discharged nor classified: %s (%s) context %s' % (
                o.kind + ' ' + o.desc, (o.detail or {}).get('why'), [x.split('::')[-1] for x in (o.detail or {}).get('context', [])[:4]]),
                '%s (%s)' % (o.fn, o.span), 'OBLIGATION(%s)' % o.kind, o.detail)
        else:
            classes.setdefault(cls, []).append({'site': o.key(), 'reason': why})
    if len(obl) < 400:
        raise CheckError('floor: obligations %d < 400' % len(obl))
    res.coverage.update({'obligations': len(obl), 'discharged': n_ok, 'classified_sites': {k: len(v) for k, v in classes.items()}, 'classified': classes,
                         'entries': len(ents), 'passes': log, 'class_hierarchy_joins': an.cha_log,
                         'loops_analysed': sum(len(v) for v in an.loops.values()),
                         'unmodelled_external_calls': dict(sorted(an.havoc_log.items(), key=lambda x: -x[1])[:20]), 'configs': [c.info]})
    res.samples = [{'obligation': o.key(), 'contexts_discharged': o.ok} for o in obl[:5]]
    res.explanation = __doc__
    res.assumptions = ['classified sites are assumptions of the stated class (see coverage.classified); invariants are checked by flow rules where stated',
                       'liveness is decided only as: no entry point leaves a panicking state reachable; the retry loops are conditional on the listed invariants']
    return res
