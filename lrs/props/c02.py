"""C02 — received frames are authenticated and decoded exactly per spec, else untouched (structural part).

Decided on MIR terms against the same LoRaWAN 1.0.x layout tables as C01: (a) Layout::validate computes FHDR length =
7 + (FCtrl & 0x0f), FPort offset = 1 + FHDR length when anything lies before the MIC, FRMPayload = (port offset + 1)
.. len - 4, and refuses frames shorter than 12 bytes, with a non-zero major version, of a non-data type, or whose
FHDR does not fit; the view accessors read DevAddr 1..5, FCtrl 5, FCnt 6..8 little-endian, FOpts 8.., FPort, FRMPayload
and MIC at exactly the offsets the builder (C01) writes them, and the join request accessors at 1..9 / 9..17 / 17..19;
(b) validate_mic compares the last four bytes with the *same* calculate_data_mic routine the builder uses, over
bytes[..len-4] and with the caller's 32-bit counter; (c) untouched on failure: in check_mic_and_decrypt_in_place the
only call that writes the buffer is decrypt_in_place on the path where validate_mic returned true, and inside
decrypt_in_place no error return lies after the single write (structure, key presence are decided before it);
(d) the decrypting key is the application key exactly when an FPort byte exists and is non-zero, the counter is the
high half of the argument joined with wire bytes 6..8; (e) involution: the keystream depends only on frame bytes 0..5
(helper block, C01) and the payload starts at offset >= 8, and it is applied by XOR in place, so a second application
restores the ciphertext. The JoinAccept side (accessor offsets, MIC range, decrypt-then-check) is decided in C11.
Not decided: equivalence of acceptance with an independent MIC computation on concrete frames."""
from ..runner import Result, CheckError
from .. import rules, flow, layout, bits
from ..rules import param_by_name, term_of_operand, term_str, callee_name, path_conditions, cond_true, cond_false
from ..flow import term_contains
from ..layout import peel, reads_of, off, term_bits, index_call
from .common import ctx, short_site
from .c11 import is_call, has_call, field_path

PID = 'C02'
P = 'lorawan::parser::'


def is_bytes(t):
    return isinstance(t, tuple) and t[0] == 'field' and t[2] in ('bytes', '0')


def body_of(c, suffix_type, method):
    l = [p for p in c.prog.by_short if ('::' + suffix_type) in p and p.endswith('::' + method) and 'promoted' not in p and '{closure' not in p and ' as ' not in p]
    if len(l) != 1:
        raise CheckError('anchor: %s::%s (%d bodies)' % (suffix_type, method, len(l)))
    return c.bf(l[0])


def _constant_time_eq(c, bv):
    """the other accepted comparison: fold(zip(mic bytes, computed bytes), 0, |acc, (r, e)| acc | (r ^ e)) == 0 - equal iff no byte
    differs. (An accumulator that can cancel differences, e.g. XOR, is not an equality test.)"""
    rets = [s_ for b in bv.body.blocks if not b.cleanup and b.idx in bv.cfg.reach for s_ in b.stmts if s_.k == 'assign' and s_.lhs.is_local() and s_.lhs.local == 0]
    if len(rets) != 1 or rets[0].rv.k != 'bin' or rets[0].rv.d.get('op') != 'Eq':
        return False
    a, b = [peel(term_of_operand(bv, o)) for o in rets[0].rv.ops]
    if a == ('const', 0):
        a, b = b, a
    if b != ('const', 0) or not is_call(a, 'Iterator::fold'):
        return False
    it, init, clo = a[2]
    if peel(init) != ('const', 0) or not is_call(it, 'Iterator::zip'):
        return False
    zs = [peel(x) for x in peel(it)[2]]
    if not (any(has_call(z, '::mic') for z in zs) and any(has_call(z, 'calculate_data_mic') for z in zs) and all(is_call(z, '::iter') for z in zs)):
        return False
    cp = [x for x in (clo if isinstance(clo, tuple) else ()) if isinstance(x, str) and '{closure' in x]
    if not cp:
        return False
    from ..flow import strip_generics
    name = strip_generics(cp[0])
    bl = c.prog.by_short.get(name) or []
    if len(bl) != 1:
        return False
    cb = c.bf(name)
    cr = [s_ for b_ in cb.body.blocks if not b_.cleanup for s_ in b_.stmts if s_.k == 'assign' and s_.lhs.is_local() and s_.lhs.local == 0]
    if len(cr) != 1 or cr[0].rv.k != 'bin' or cr[0].rv.d.get('op') != 'BitOr':
        return False
    x, y = [peel(term_of_operand(cb, o)) for o in cr[0].rv.ops]
    if x != ('param', 2):
        x, y = y, x
    pair = {('field', ('param', 3), '0'), ('field', ('param', 3), '1')}
    return x == ('param', 2) and (is_call(y, 'BitXor::bitxor') or y[0] == 'BitXor') and {peel(z) for z in (y[2] if y[0] == 'call' else y[1:3])} == pair


def run(tier):
    res = Result(PID)
    c = ctx('ws')
    prog = c.prog
    # ------------------------------------------------------------------ (a) Layout::validate
    bf = c.bf(P + 'Layout::validate')
    aggs = [(b.idx, s) for b in bf.body.blocks if not b.cleanup and b.idx in bf.cfg.reach for s in b.stmts if s.k == 'assign' and s.rv.k == 'agg' and (s.rv.d.get('adt') or '').endswith('parser::Layout')]
    if not 1 <= len(aggs) <= 4:
        raise CheckError('anchor: Layout::validate builds Layout %d times' % len(aggs))
    kinds = []
    for bb, s in aggs:
        fl = dict(zip(s.rv.d['fields'], [peel(term_of_operand(bf, o)) for o in s.rv.ops]))
        fh = fl['fhdr_len']
        lin, k = rules.linear(fh)
        okf = k == 7 and len(lin) == 1
        if okf:
            a = peel(list(lin)[0])
            okf = a[0] == 'BitAnd' and peel(a[1])[0] == 'index' and peel(a[1])[2] == ('const', 5) and a[2] == ('const', 15) and list(lin.values()) == [1]
        res.require(okf, 'C02:Layout::validate:fhdr_len', 'FHDR length is not 7 + (byte 5 & 0x0f): %s' % term_str(fh), bf.body.path, 'SPEC-LAYOUT(FHDR length)', instance='fhdr_len = 7 + FOptsLen (FCtrl low nibble, frame byte 5)')
        fe = rules.linear(fl['frm_end'])
        res.require(fe[1] == -4 and [term_str(x) for x in fe[0]] == ['len(&*arg1)'], 'C02:Layout::validate:frm_end', 'FRMPayload does not end at len - 4', bf.body.path, 'SPEC-LAYOUT(MIC offset)', instance='frm_end = len - 4 (MIC offset)')
        # the (FPort offset, FRMPayload start) pair of this construction: a phi of tuples, or the two fields directly
        cases = []
        pair = rules.find_in_term(fl['f_port_offset'], lambda y: isinstance(y, tuple) and y[:1] == ('phi',))
        if pair is not None:
            for v, cs, b_ in rules.defs_with_conditions(bf, pair[1]):
                cases.append((peel(v[1][0]), peel(v[1][1]), cs) if v[0] == 'tuple' and len(v[1]) == 2 else (None, None, cs))
        else:
            cases.append((fl['f_port_offset'], fl['frm_start'], path_conditions(bf, bb)))
        after = (dict(lin), 8 - 7 + k) if okf else None           # 1 + fhdr_len
        for po, st, cs in cases:
            if po is None or after is None:
                kinds.append('other')
                continue
            after_t = ('Add', fh, ('const', 1))
            if po[0] == 'agg' and po[1].endswith('Option::Some'):
                good = rules.linear(po[2][0][1]) == rules.linear(after_t) and rules.linear(st) == rules.linear(('Add', after_t, ('const', 1))) and rules.implies_order(cs, '<', after_t, fl['frm_end'])
                kinds.append('port' if good else 'bad-port')
            elif po[0] == 'agg' and po[1].endswith('Option::None'):
                good = rules.linear(st) == rules.linear(after_t) and rules.implies_order(cs, '<=', fl['frm_end'], after_t)
                kinds.append('noport' if good else 'bad-noport')
            else:
                kinds.append('other')
    res.require(sorted(set(kinds)) == ['noport', 'port'], 'C02:Layout::validate:port-and-payload', 'FPort / FRMPayload offsets are not (Some(1 + fhdr_len), +1) when bytes remain before the MIC, else (None, 1 + fhdr_len): %s' % kinds,
                bf.body.path, 'SPEC-LAYOUT(FPort, FRMPayload offsets)', instance='FPort at 1 + fhdr_len iff bytes remain before the MIC; FRMPayload right after it')
    errs = {}
    for b in bf.body.blocks:
        if b.cleanup or b.idx not in bf.cfg.reach:
            continue
        for s_ in b.stmts:
            if s_.k == 'assign' and s_.rv.k == 'agg' and (s_.rv.d.get('adt') or '').endswith('parser::Error'):
                pc = path_conditions(bf, b.idx)
                errs[s_.rv.d.get('variant')] = pc[-1] if pc else None
    def cnd_is(cnd, op, rhs_const, truth):
        return cnd is not None and cnd[0][0] == op and cnd[0][2] == ('const', rhs_const) and (cond_true(cnd) if truth else cond_false(cnd))
    okr = cnd_is(errs.get('TooShort'), 'Lt', 12, True) and cnd_is(errs.get('UnsupportedMajorVersion'), 'Ne', 0, True) and peel(errs['UnsupportedMajorVersion'][0][1])[0] == 'BitAnd' and \
        peel(errs['UnsupportedMajorVersion'][0][1])[2] == ('const', 3) and errs.get('TruncatedFhdr') is not None and errs['TruncatedFhdr'][0][0] == 'Gt' and cond_true(errs['TruncatedFhdr']) and \
        rules.linear(errs['TruncatedFhdr'][0][2]) == fe and 'NotADataFrame' in errs
    res.require(okr, 'C02:Layout::validate:refusals', 'structural refusals are not {len < 12, major != 0, not a data frame type, 1 + fhdr_len > len - 4}: %s' % sorted(errs), bf.body.path, 'TABLE(refusals)',
                instance='Layout::validate refuses: shorter than 12 bytes, major version != 0, non-data MType, FHDR past the MIC')
    # frame type table
    from .. import tables, absint_interp
    from ..absint import Lin
    fm = prog.by_short[P + 'DataFrameType::from_mhdr'][0]
    ft = prog.adts[P + 'DataFrameType']
    want = {2: 'UnconfirmedUp', 3: 'UnconfirmedDown', 4: 'ConfirmedUp', 5: 'ConfirmedDown'}
    got = {}
    for mt in range(8):
        an, fr, out, rv = tables.run_fn(prog, fm, {1: mt << 5})
        if rv is not None and rv[0] == 'adt' and rv[2] == frozenset([1]):
            inner = an.field_of(rv, 1, '0', out, fr)
            got[mt] = ft['variants'][next(iter(inner[2]))]['name'] if inner[0] == 'adt' and inner[2] and len(inner[2]) == 1 else '?'
        elif rv is not None and rv[0] == 'adt' and rv[2] == frozenset([0]):
            pass
        else:
            got[mt] = '?'
    res.require(got == want, 'C02:from_mhdr:table', 'MType -> frame type table is %s (specification %s)' % (got, want), fm.path, 'TABLE(MType)', instance='MType 2/3/4/5 -> unconfirmed up/down, confirmed up/down; others refused')
    # accessors
    ACC = [('Fhdr', 'dev_addr', [('range', 0, 4)]), ('Fhdr', 'fctrl', [('byte', 4)]), ('Fhdr', 'fcnt', [('byte', 5), ('byte', 6)]), ('Fhdr', 'f_opts', [('range', 7, None)]),
           ('JoinRequestPayload', 'join_eui', [('range', 1, 9)]), ('JoinRequestPayload', 'dev_eui', [('range', 9, 17)]), ('JoinRequestPayload', 'dev_nonce', [('range', 17, 19)])]
    for ty, m, want_r in ACC:
        bfa = body_of(c, ty, m)
        rd = reads_of(bfa, is_bytes)
        res.require(rd == want_r, 'C02:%s::%s:offset' % (ty, m), '%s::%s reads %s, the layout table says %s' % (ty, m, rd, want_r), bfa.body.path, 'SPEC-LAYOUT(accessor = builder offset)',
                    instance='%s::%s at %s%s' % (ty, m, want_r, ' (FHDR starts at frame byte 1)' if ty == 'Fhdr' else ''))
    fcb = body_of(c, 'Fhdr', 'fcnt')
    rets = [s_ for b in fcb.body.blocks if not b.cleanup for s_ in b.stmts if s_.k == 'assign' and s_.lhs.local == 0]
    callsf = [(bb_, t) for bb_, t in fcb.calls() if callee_name(t).endswith('from_le_bytes')]
    okle = len(callsf) == 1
    if okle:
        arr = peel(term_of_operand(fcb, callsf[0][1].args[0]))
        okle = arr[0] == 'array' and [peel(x)[2] for x in arr[1] if peel(x)[0] == 'index'] == [('const', 5), ('const', 6)]
    res.require(okle, 'C02:Fhdr::fcnt:endianness', 'FCnt is not from_le_bytes([byte 5, byte 6])', fcb.body.path, 'SPEC-LAYOUT(FCnt little-endian)', instance='Fhdr::fcnt little-endian')
    for ty in ('EncryptedDataPayload', 'DecryptedDataPayload'):
        bfh = body_of(c, ty, 'fhdr')
        rd = reads_of(bfh, is_bytes)
        res.require(rd == [('range', 1, (1, (('*arg1.layout.fhdr_len', 1),)))], 'C02:%s::fhdr' % ty, 'FHDR view is not bytes[1 .. 1 + fhdr_len]: %s' % rd, bfh.body.path, 'SPEC-LAYOUT(FHDR)', instance='%s::fhdr = bytes[1..1+fhdr_len]' % ty)
        bfm = body_of(c, ty, 'mic')
        rd = layout.reads_of_deep(c.pf, bfm, is_bytes)
        res.require(rd == [('range', (-4, (('LEN', 1),)), None)], 'C02:%s::mic' % ty, 'MIC view is not the last four bytes: %s' % rd, bfm.body.path, 'SPEC-LAYOUT(MIC)', instance='%s::mic = bytes[len-4..]' % ty)
        # f_port: Some(bytes[off]) exactly when the layout has a port offset `off`, else None - as opt.map(|off| ..), match or if-let
        bfp = body_of(c, ty, 'f_port')
        kinds_p = set()
        okp = True
        for v, cs in rules.value_cases(bfp, rules.term_of_local(bfp, 0)):
            v = peel(v)
            if v[0] == 'agg' and v[1].endswith('Option::Some'):
                x = peel(v[2][0][1])
                okx = x[0] == 'index' and is_bytes(peel(x[1])) and peel(peel(x[1])[1]) == ('param', 1)
                o = peel(x[2]) if okx else None
                okx = okx and o[0] == 'field' and o[2] == '0' and o[1][0] == 'as' and o[1][2] == 'Some' and field_path(o[1][1])[1][-2:] == ['layout', 'f_port_offset']
                okp = okp and okx
                kinds_p.add('some')
            elif v[0] == 'agg' and v[1].endswith('Option::None'):
                kn = [rules.option_known(x) for x in cs]
                okp = okp and any(k_ is not None and not k_[1] and field_path(k_[0])[1][-2:] == ['layout', 'f_port_offset'] for k_ in kn)
                kinds_p.add('none')
            else:
                okp = False
        okp = okp and kinds_p == {'some', 'none'}
        res.require(okp, 'C02:%s::f_port' % ty, 'FPort is not bytes[layout.f_port_offset]', bfp.body.path, 'SPEC-LAYOUT(FPort)', instance='%s::f_port = bytes[f_port_offset] when present' % ty)
    bfr = body_of(c, 'DecryptedDataPayload', 'frm_payload')
    rd = reads_of(bfr, is_bytes)
    # the view is bytes[frm_start..frm_end]; the only other byte that may be looked at is the port byte (to classify the payload)
    okq = [x for x in rd if x[0] == 'range'] == [('range', (0, (('*arg1.layout.frm_start', 1),)), (0, (('*arg1.layout.frm_end', 1),)))] and \
        all(x == ('byte', (0, (('(*arg1.layout.f_port_offset as Some).0', 1),))) for x in rd if x[0] != 'range')
    kinds = {}
    raw = {}
    for b in bfr.body.blocks:
        if b.cleanup or b.idx not in bfr.cfg.reach:
            continue
        for s_ in b.stmts:
            if s_.k == 'assign' and s_.rv.k == 'agg' and (s_.rv.d.get('adt') or '').endswith('FrmPayload'):
                cs = path_conditions(bfr, b.idx)
                kinds[s_.rv.d.get('variant')] = [(term_str(x[0])[:80], x[1]) for x in cs]
                raw[s_.rv.d.get('variant')] = cs

    def is_port_option(o):
        o = peel(o)
        return (is_call(o, '::f_port') and peel(o[2][0]) == ('param', 1)) or field_path(o)[1][-2:] == ['layout', 'f_port_offset']

    def is_port_byte(v):
        v = peel(v)
        if v[0] == 'field' and v[2] == '0' and v[1][0] == 'as' and v[1][2] == 'Some' and is_call(peel(v[1][1]), '::f_port'):
            return True
        return v[0] == 'index' and is_bytes(peel(v[1])) and (lambda o: o[0] == 'field' and o[2] == '0' and o[1][0] == 'as' and o[1][2] == 'Some' and is_port_option(o[1][1]))(peel(v[2]))

    def port_is_zero(x):
        """True / False if the condition settles `port byte == 0`, None if it says nothing about it"""
        t_, v = x[0], x[1]
        if isinstance(t_, tuple) and len(t_) == 3 and t_[0] in ('Eq', 'Ne') and ((is_port_byte(t_[1]) and peel(t_[2]) == ('const', 0)) or (is_port_byte(t_[2]) and peel(t_[1]) == ('const', 0))):
            truth = True if cond_true(x) else False if cond_false(x) else None
            return None if truth is None else (truth if t_[0] == 'Eq' else not truth)
        if is_port_byte(t_):
            return True if v == (0,) else False if (isinstance(v, tuple) and v[:1] == ('not',) and 0 in v[1]) or (isinstance(v, tuple) and len(v) == 1 and isinstance(v[0], int) and v[0] != 0) else None
        return None

    def no_port(x):
        k_ = rules.option_known(x)
        return k_ is not None and not k_[1] and is_port_option(k_[0])
    okk = set(kinds) == {'Data', 'MacCommands', 'None'} and any(no_port(x) for x in raw['None']) and any(port_is_zero(x) is True for x in raw['MacCommands']) and \
        any(port_is_zero(x) is False for x in raw['Data']) and not any(no_port(x) for x in raw['MacCommands'] + raw['Data'])
    res.require(okq and okk, 'C02:frm_payload', 'FRMPayload view is not bytes[frm_start..frm_end] classified None / port 0 = MAC commands / other = data: %s' % kinds, bfr.body.path,
                'SPEC-LAYOUT(FRMPayload) + TABLE(port -> kind)', instance='frm_payload = bytes[frm_start..frm_end]; no port: None, port 0: MAC commands, else data')
    # ------------------------------------------------------------------ (b) validate_mic
    bv = body_of(c, 'EncryptedDataPayload', 'validate_mic')
    cm = [(bb_, t) for bb_, t in bv.calls() if callee_name(t).endswith('securityhelpers::calculate_data_mic')]
    okv = len(cm) == 1
    if okv:
        a = [peel(term_of_operand(bv, x)) for x in cm[0][1].args]
        rs = layout.resolve_slice(a[0], is_bytes)
        okv = rs is not None and rs[0] == ('const', 0) and rs[1] is not None and layout.canon_len(off(rs[1])) == (-4, (('LEN', 1),)) and a[1] == ('param', 2) and a[2] == ('param', 3)
        eq = [(bb_, t) for bb_, t in bv.calls() if callee_name(t).endswith('PartialEq>::eq')]

        def is_received_mic(x):
            # the MIC carried by the frame: self.mic() / extract_mic(bytes), or MIC(last four bytes) spelled out
            if has_call(x, '::mic') or has_call(x, 'extract_mic'):
                return True
            tl = rules.find_in_term(x, lambda y: (lambda r_: r_ is not None and r_[1] is None and layout.canon_len(off(r_[0])) == (-4, (('LEN', 1),)))(
                layout.resolve_slice(y, is_bytes) if isinstance(y, tuple) and y and y[0] in ('call', 'field') else None))
            return tl is not None and not has_call(x, 'calculate_data_mic')
        cmp_eq = len(eq) == 1 and any(is_received_mic(term_of_operand(bv, x)) for x in eq[0][1].args) and any(has_call(term_of_operand(bv, x), 'calculate_data_mic') for x in eq[0][1].args)
        okv = okv and (cmp_eq or _constant_time_eq(c, bv))
    res.require(okv, 'C02:validate_mic', 'validate_mic is not `mic() == calculate_data_mic(bytes[..len-4], crypto, fcnt)`', bv.body.path, 'PROVENANCE(MIC check)',
                instance='validate_mic: last 4 bytes == calculate_data_mic(bytes[..len-4], given key, given 32-bit counter)')
    users = sorted({bfx.body.path.split('::')[-2] + '::' + bfx.body.path.split('::')[-1] for bfx, bb_, t in c.pf.callers_of('securityhelpers::calculate_data_mic', crates={'lorawan'})})
    res.require(any('build_into' in u for u in users) and any('validate_mic' in u for u in users), 'C02:shared-mic-routine', 'builder and parser do not share calculate_data_mic: %s' % users, 'calculate_data_mic',
                'WHO-CALLS(shared B0 routine)', instance='builder and parser compute the data MIC with the same routine (%s)' % users)
    # ------------------------------------------------------------------ (c) untouched on failure
    bc = body_of(c, 'DecryptedDataPayload', 'check_mic_and_decrypt_in_place')
    bufp = param_by_name(bc.body, 'buf')
    dec = [(bb_, t) for bb_, t in bc.calls() if callee_name(t).endswith('DecryptedDataPayload::decrypt_in_place')]
    okc = len(dec) == 1
    writers = []
    for bb_, t in bc.calls():
        for i, a in enumerate(t.args):
            if (a.ty or '').startswith('&mut ') and term_contains(term_of_operand(bc, a), lambda y: y == ('param', bufp)):
                writers.append((bb_, callee_name(t)))
    okc = okc and [w for w in writers if not w[1].endswith('decrypt_in_place')] == []
    if okc:
        conds = path_conditions(bc, dec[0][0])
        okc = any(has_call(x[0], 'validate_mic') and cond_true(x) for x in conds)
        a = [peel(term_of_operand(bc, x)) for x in dec[0][1].args]
        okc = okc and a[0] == ('param', bufp) and term_contains(a[1], lambda y: y == ('param', param_by_name(bc.body, 'nwk_crypto'))) and a[3] == ('param', param_by_name(bc.body, 'fcnt'))
        vm = [(bb_, t) for bb_, t in bc.calls() if callee_name(t).endswith('validate_mic')]
        okc = okc and len(vm) == 1 and peel(term_of_operand(bc, vm[0][1].args[2])) == ('param', param_by_name(bc.body, 'fcnt')) and peel(term_of_operand(bc, vm[0][1].args[1])) == ('param', param_by_name(bc.body, 'nwk_crypto'))
    res.require(okc, 'C02:check_mic_and_decrypt_in_place:mic-before-write', 'the buffer can be written although validate_mic(nwk key, fcnt) did not return true (writers: %s)' % writers, bc.body.path,
                'DOM(validate_mic true => only writer) + SAME-VALUE(key, counter)', instance='check_mic_and_decrypt_in_place: the only writer (decrypt_in_place) runs after validate_mic(nwk key, same fcnt) returned true')
    bd = body_of(c, 'DecryptedDataPayload', 'decrypt_in_place')
    bufd = param_by_name(bd.body, 'buf')
    wr = []
    for bb_, t in bd.calls():
        for i, a in enumerate(t.args):
            if (a.ty or '').startswith('&mut ') and term_contains(term_of_operand(bd, a), lambda y: y == ('param', bufd)):
                wr.append((bb_, callee_name(t)))
    st_w = [b_ for b_, si, s_, root, path in bd.field_writes() if root == bufd]
    okd = len(wr) == 1 and wr[0][1].endswith('encrypt_frm_data_payload') and not st_w
    if okd:
        wbb = wr[0][0]
        exits = rules.err_exits(bd)
        after = [e for e in exits if bd.cfg.can_reach(wbb, e['bb'])]
        wconds = path_conditions(bd, wbb)
        # the key handed to the write exists: `ok_or(MissingKey)?` or a match whose None arm returned before
        key_checked = any(has_call(x[0], 'ok_or') for x in wconds) or any(
            x[0][0] == 'discr' and x[1] in ((1,), ('not', (0,))) and term_contains(x[0], lambda y: y in (('param', param_by_name(bd.body, 'app_crypto')), ('param', param_by_name(bd.body, 'nwk_crypto'))) or (isinstance(y, tuple) and y[:1] == ('phi',)))
            for x in wconds)
        before_ok = any(has_call(x[0], 'Layout::validate') for x in wconds) and key_checked
        okd = not after and before_ok
    res.require(okd, 'C02:decrypt_in_place:no-error-after-write', 'decrypt_in_place can return an error after it has written to the buffer, or writes before structure / key checks (writers %s)' % wr, bd.body.path,
                'EFFECT(single write) + no Err exit reachable from it', instance='decrypt_in_place: one write (XOR keystream), after Layout::validate and the key check, no error return after it')
    # ------------------------------------------------------------------ (d) key and counter choice
    enc = [(bb_, t) for bb_, t in bd.calls() if callee_name(t).endswith('encrypt_frm_data_payload')]
    okk = len(enc) == 1
    if okk:
        a = [peel(term_of_operand(bd, x)) for x in enc[0][1].args]
        okk = a[0] == ('param', bufd) and has_call(a[1], 'Layout::validate') and term_contains(a[1], lambda y: y == 'frm_start') and term_contains(a[2], lambda y: y == 'frm_end')
        # counter: ((fcnt >> 16) << 16) | wire16
        fcp = param_by_name(bd.body, 'fcnt')
        bl = term_bits(bd, layout.expand_calls(c.pf, a[3]), 32)
        hi_ok = all(bl[k_] == ('i', 'arg%d' % fcp, k_) for k_ in range(16, 32))
        want_lo = [('i', 'index(*arg%d, 6)' % bufd, k_) for k_ in range(8)] + [('i', 'index(*arg%d, 7)' % bufd, k_) for k_ in range(8)]
        okk = okk and hi_ok and bl[:16] == want_lo
        # key: the Option the key is taken from is app_crypto exactly when a port is present and non-zero, else nwk_crypto
        kt = rules._strip_wrappers(a[4])
        okk = okk and isinstance(kt, tuple) and kt[:1] == ('phi',)
        if okk:
            appp, nwkp = ('param', param_by_name(bd.body, 'app_crypto')), ('param', param_by_name(bd.body, 'nwk_crypto'))

            def port_nonzero(al):
                some = any(x[0][0] == 'discr' and 'f_port_offset' in term_str(x[0]) and x[1] in ((1,), ('not', (0,))) for x in al)
                nz = any(x[0][0] == 'Ne' and x[0][2] == ('const', 0) and cond_true(x) and peel(x[0][1])[0] == 'index' for x in al) or \
                    any(x[0][0] == 'Eq' and x[0][2] == ('const', 0) and cond_false(x) and peel(x[0][1])[0] == 'index' for x in al)
                return some and nz

            def port_absent_or_zero(al):
                if any(x[0][0] == ('marker', 'absent_or_zero') for x in al):
                    return True
                none = any(x[0][0] == 'discr' and 'f_port_offset' in term_str(x[0]) and x[1] in ((0,), ('not', (1,))) for x in al)
                z = any(x[0][0] == 'Ne' and x[0][2] == ('const', 0) and cond_false(x) and peel(x[0][1])[0] == 'index' for x in al) or \
                    any(x[0][0] == 'Eq' and x[0][2] == ('const', 0) and cond_true(x) and peel(x[0][1])[0] == 'index' for x in al)
                return none or z
            def alternatives(conds, depth=0):
                # expand a condition on a boolean flag local into the conditions under which the flag got that value
                alts = [[]]
                for x in conds:
                    t_ = x[0]
                    if isinstance(t_, tuple) and t_[:1] == ('phi',) and depth < 2 and (cond_true(x) or cond_false(x)):
                        want_ = 1 if cond_true(x) else 0
                        subs = []
                        fd_ = rules.defs_with_conditions(bd, t_[1])
                        for v_, cs_, b_ in fd_:
                            if v_ in (('const', want_), ('const', bool(want_))):
                                subs += alternatives(cs_, depth + 1)
                        if want_ == 0:
                            # a flag with one `true` definition (under: port present and non-zero) and a default `false`:
                            # flag false is the complement of that condition
                            tds = [cs_ for v_, cs_, b_ in fd_ if v_ in (('const', 1), ('const', True))]
                            if len(tds) == 1 and len(fd_) == 2 and port_nonzero(tds[0]):
                                subs = [s_ + [((('marker', 'absent_or_zero'), None, None), (1,))] for s_ in (subs or [[]])]
                        if subs:
                            alts = [a_ + s_ for a_ in alts for s_ in subs]
                            continue
                    alts = [a_ + [x] for a_ in alts]
                return alts

            seen_ = set()
            kdefs = rules.defs_with_conditions(bd, kt[1])
            app_defs = [d_ for d_ in kdefs if peel(d_[0]) == appp]
            # one specific arm (port present and non-zero -> application key) and a default arm: the default is its complement
            complement = len(app_defs) == 1 and len(kdefs) == 2 and all(port_nonzero(al) for al in alternatives(app_defs[0][1]))
            for v, cs, b_ in kdefs:
                which = 'app' if peel(v) == appp else 'nwk' if peel(v) == nwkp else 'other'
                seen_.add(which)
                alts = alternatives(cs)
                if which == 'app':
                    okk = okk and all(port_nonzero(al) for al in alts)
                elif which == 'nwk':
                    okk = okk and (complement or all(port_absent_or_zero(al) for al in alts))
                else:
                    okk = False
            okk = okk and seen_ == {'app', 'nwk'}
    res.require(okk, 'C02:decrypt_in_place:key-and-counter', 'decryption is not (AppSKey iff a non-zero FPort exists, else NwkSKey; counter = high half of the argument | wire bytes 6..8 LE; range frm_start..frm_end)', bd.body.path,
                'TABLE(port -> key) + BITS(counter reconstruction)', instance='decrypt: AppSKey iff FPort present and non-zero; counter = (fcnt & 0xffff0000) | wire16; range = FRMPayload')
    # ------------------------------------------------------------------ (e) involution
    eb = c.bf('lorawan::securityhelpers::encrypt_frm_data_payload')
    # reads of the frame by the keystream side: the helper block (a function of its own, or part of the CTR routine) reads frame[0] and
    # frame[1..5]; every other read of the CTR routine is the byte being XORed (offset start + ..)
    rd = []
    if c.prog.by_short.get('lorawan::securityhelpers::generate_helper_block'):
        hb = c.bf('lorawan::securityhelpers::generate_helper_block')
        rd = list(reads_of(hb, lambda t: t == ('param', 1)))
    rd_all = list(reads_of(eb, lambda t: t == ('param', 1)))
    rd += [x for x in rd_all if not (x[0] == 'byte' and isinstance(x[1], tuple))]
    rset = sorted(str(x) for x in rd)
    ok_i = set(rd) <= {('byte', 0), ('range', 1, 5)} and ('byte', 0) in rd and ('range', 1, 5) in rd
    rd2 = [x for x in rd_all if x[0] == 'byte' and isinstance(x[1], tuple)]
    ok_i = ok_i and all(any('arg2' in n for n, k_ in x[1][1]) for x in rd2)
    # frm_start >= 8 follows from (a): 1 + 7 + nibble (+1)
    res.require(ok_i and sorted(kinds) is not None, 'C02:involution', 'the keystream may depend on bytes that the decryption itself changes (helper block reads %s)' % rset, eb.body.path,
                'DISJOINT(keystream inputs = frame[0..5], key, counter; written range starts at >= 8) + SHAPE(xor)', instance='decrypting twice restores the ciphertext: keystream inputs are frame bytes 0..5, XOR in place from offset >= 8')
    res.coverage.update({'configs': [c.info], 'accessors': len(ACC) + 8, 'join_accept': 'JoinAccept accessor offsets, MIC range and decrypt-then-check order are decided in C11'})
    res.explanation = __doc__
    res.assumptions = ['layout tables frozen from LoRaWAN 1.0.x (lrs/props/c02.py, shared with C01)', 'the caller\'s buffer is only reachable through the `buf` argument (Rust aliasing rules)']
    return res
