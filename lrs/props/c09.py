"""C09 — every transmission uses an enabled in-band channel, a legal data rate and power (structural part + tables).

Decided: (a) channel selection terminates under the same validate-before-write rules as C04 (the four reproduced
hangs are recorded for this property as well); (b) the retry loops of select_tx_channel leave only on an index whose
mask bit and plan slot were just tested, and the TxChannel returned is read from that same index (SAME-VALUE); join
requests of dynamic plans use channels[index] with index < NUM_JOIN_CHANNELS; (c) in band: every construction of a
dynamic-plan Channel is either an init_channels constant that satisfies the region's own frequency predicate or is
guarded by frequency_valid(freq) of the same frequency; every entry of the fixed uplink/downlink maps satisfies the
region predicate (predicates and tables evaluated by value-set abstract interpretation of their MIR); (d) data
rate: TxChannel.datarate is the region's table entry of the returned dr; on fixed plans the data rate hard-coded for
a join channel has the bandwidth of that channel class in *that region's* table, and the data branch picks the
channel class from the bandwidth of the current rate; (e) power: the level handed to the radio is min(regional
maximum for index 0 - antenna gain, cap) where the cap must be bounded by the board maximum and by the commanded
level. Not decided: regulatory correctness of the tables, uniformity of the random choice."""
import re
from ..runner import Result, CheckError
from .. import rules, flow, layout, tables
from ..rules import param_by_name, term_of_operand, term_str, callee_name, path_conditions, cond_true, cond_false
from ..flow import term_contains
from ..layout import peel
from .common import ctx, short_site
from .c11 import is_call, has_call, field_path
from . import c04

PID = 'C09'
D = 'lorawan_device::'
DYN = '<' + D + 'region::dynamic_channel_plans::DynamicChannelPlan<R> as ' + D + 'region::RegionHandler>::'
FIX = '<' + D + 'region::fixed_channel_plans::FixedChannelPlan<F> as ' + D + 'region::RegionHandler>::'
FCR = D + 'region::fixed_channel_plans::FixedChannelRegion'
DCR = D + 'region::dynamic_channel_plans::DynamicChannelRegion'


def txchannel_sites(bf):
    out = []
    for b in bf.body.blocks:
        if b.cleanup or b.idx not in bf.cfg.reach:
            continue
        for si, s in enumerate(b.stmts):
            if s.k == 'assign' and s.rv.k == 'agg' and (s.rv.d.get('adt') or '').endswith('region::TxChannel'):
                out.append((b.idx, si, s, dict(zip(s.rv.d['fields'], [peel(term_of_operand(bf, o)) for o in s.rv.ops]))))
    return out


def join_walk_balance(c, res):
    """Termination of the join-channel walk of the fixed plans (AvailableChannels::get_next_channel_inner re-picks inside one bank until it
    finds an available channel): the walk takes one channel from each of the nine banks per round, so the bank it wraps to still has a
    channel as long as every bank has lost the same number. The reviewed argument, decided here clause by clause:
      (1) channels leave `available_channels.data` only in AvailableChannels::get_next (the channel the walk just returned) and at one site in
          JoinChannels::get_next_channel (the last biased try, which stands for the preferred bank's pick of the first round);
      (2) that extra removal happens at most once per cycle: it is guarded by num_retries == max_retries, num_retries only ever grows by one per
          call and is set back only by reset(), which also restores the channel set;
      (3) it records the same channel as `previous`, so the walk continues from the next bank."""
    JC = 'region::fixed_channel_plans::join_channels::'
    prog = c.prog
    removers = []
    for p, bl in prog.by_short.items():
        if not p.startswith(D) or 'promoted' in p:
            continue
        for body in bl:
            bf_ = c.pf.bf(body)
            for bb, t in bf_.calls():
                if callee_name(t).endswith('ChannelMask::set_channel') and len(t.args) == 3:
                    tgt = term_str(term_of_operand(bf_, t.args[0]))
                    if 'available_channels.data' in tgt or (body.path.endswith('AvailableChannels::get_next') and tgt.endswith('.data')) or 'AvailableChannels' in body.path:
                        removers.append((bf_, bb, t))
    names = sorted(rules.short_fn(bf_.body.path) for bf_, bb, t in removers)
    res.require(names == sorted(['AvailableChannels::get_next', 'JoinChannels::get_next_channel']), 'C09:join-walk:removers',
                'channels are taken out of the join walk\'s channel set at %s (reviewed: once in AvailableChannels::get_next, once in JoinChannels::get_next_channel): the banks no longer lose channels evenly and the '
                're-pick loop of get_next_channel_inner can spin on an empty bank' % names, D + JC + 'JoinChannels::get_next_channel', 'WHO-WRITES(available join channels)',
                instance='join walk: channels removed in AvailableChannels::get_next and once in JoinChannels::get_next_channel')
    for bf_, bb, t in removers:
        fn = rules.short_fn(bf_.body.path)
        ch = peel(term_of_operand(bf_, t.args[1]))
        if fn.endswith('AvailableChannels::get_next'):
            res.require(has_call(ch, 'get_next_channel_inner') and term_of_operand(bf_, t.args[2]) == ('const', 0), 'C09:join-walk:get_next:removes-returned-channel',
                        'AvailableChannels::get_next does not disable exactly the channel the walk returned: %s' % term_str(ch)[:80], short_site(bf_, bb), 'SAME-VALUE(channel returned = channel disabled)',
                        instance='join walk: get_next disables the channel it returns')
            continue
        conds = path_conditions(bf_, bb)
        nr = [w for w in c.pf.writers_of_field('JoinChannels', 'num_retries', crates={'lorawan_device'}) if w[4] == 'store']
        kinds = []
        for w in nr:
            v = term_of_operand(c.pf.bf(w[0]), w[3].rv.ops[0]) if w[3].rv.k == 'use' else None
            lin, k = rules.linear(v) if v is not None else ({}, None)
            if v == ('const', 0) and w[0].path.endswith('JoinChannels::reset'):
                kinds.append('reset')
            elif k == 1 and len(lin) == 1 and list(lin.values()) == [1] and 'num_retries' in term_str(list(lin)[0]) and w[0].path.endswith('JoinChannels::get_next_channel'):
                kinds.append('inc')
            else:
                kinds.append('other:%s in %s' % (term_str(v)[:40] if v is not None else w[3].rv.k, rules.short_fn(w[0].path)))
        mono = bool(kinds) and all(k in ('reset', 'inc') for k in kinds) and 'inc' in kinds
        # the guard: the (already incremented) retry count equals the maximum
        a = b = None
        for cnd in conds:
            tm = cnd[0]
            if isinstance(tm, tuple) and len(tm) == 3 and tm[0] in ('Eq', 'Ne', 'Lt', 'Le', 'Gt', 'Ge'):
                if 'num_retries' in term_str(tm[1]) and 'max_retries' in term_str(tm[2]):
                    a, b = tm[1], tm[2]
                elif 'num_retries' in term_str(tm[2]) and 'max_retries' in term_str(tm[1]):
                    a, b = tm[2], tm[1]
        once = a is not None and rules.implies_order(conds, '==', a, b)
        res.require(once and mono, 'C09:join-walk:extra-removal-once',
                    'the biased join try takes its channel out of the walk\'s channel set under %s (retry counter writers: %s): unless this happens exactly when the retry count reaches the maximum (once per cycle), the preferred '
                    'bank loses more channels than the others and channel selection stops terminating when the walk wraps to it' % ([term_str(x[0])[:50] for x in conds if 'retries' in term_str(x[0])], kinds),
                    short_site(bf_, bb), 'EXACT-GUARD(extra removal <=> num_retries == max_retries) + MONOTONE(num_retries)', instance='join walk: the biased try leaves the channel set exactly once (num_retries == max_retries)')
        prev = [w for w in c.pf.writers_of_field('AvailableChannels', 'previous', crates={'lorawan_device'}) if w[4] == 'store' and w[0].path == bf_.body.path]
        okp = len(prev) == 1 and bf_.cfg.dominates(prev[0][1], bb) or (len(prev) == 1 and bf_.cfg.dominates(bb, prev[0][1]))
        if okp:
            pv = term_of_operand(bf_, prev[0][3].rv.ops[0]) if prev[0][3].rv.ops else None
            # Some(channel): the payload of the option stored
            if isinstance(pv, tuple) and pv[:1] == ('agg',) and pv[1].endswith('Option::Some') and pv[2]:
                pv = pv[2][0][1]
            else:
                pv = None

            def core(x):
                x = peel(x)
                while isinstance(x, tuple) and x[:1] == ('cast',):
                    x = peel(x[2])
                return x
            same_conds = [term_str(x[0]) for x in path_conditions(bf_, prev[0][1])] == [term_str(x[0]) for x in conds]
            okp = pv is not None and core(pv) == core(ch) and same_conds
        res.require(okp, 'C09:join-walk:extra-removal-recorded', 'the channel of the last biased try is not recorded as `previous` together with its removal: the walk would not continue from the next bank',
                    short_site(bf_, bb), 'SAME-VALUE(previous = removed channel)', instance='join walk: the last biased try is recorded as the previous channel')


def run(tier):
    res = Result(PID)
    c = ctx('ws')
    prog = c.prog
    # ------------------------------------------------------------------ (a) termination: shared rules
    tmp = Result('C04')
    c04.flow_rules(c, tmp, None)
    keep_rules = ('VALIDATE-BEFORE-WRITE', 'SAME-VALUE(validated rate', 'DOM(get_datarate', 'COVER(draw')
    n_shared = 0
    for i in tmp.instances:
        if (i.get('rule') or '').startswith(keep_rules):
            res.instances.append(i)
            n_shared += 1
    for v in tmp.violations:
        if (v.get('rule') or '').startswith(keep_rules):
            v = dict(v)
            v['key'] = 'C09:' + v['key'][4:]
            res.violations.append(v)
            n_shared += 1
    if n_shared < 5:
        raise CheckError('floor: shared termination rule instances %d < 5' % n_shared)
    # ------------------------------------------------------------------ (b) enabled and defined
    bf = c.bf(DYN + 'select_tx_channel')
    sites = txchannel_sites(bf)
    if not 1 <= len(sites) <= 2:
        raise CheckError('anchor: dynamic select_tx_channel builds TxChannel %d times' % len(sites))
    n_join = n_data = 0
    framep = param_by_name(bf.body, 'frame')
    fv = rules.variants_of(prog, 'mac::Frame')

    def num_join(t):
        return term_contains(t, lambda y: isinstance(y, tuple) and y[0] == 'cdef' and 'NUM_JOIN_CHANNELS' in str(y))

    def some_payload(t):
        t = peel(t)
        return peel(t[1][1]) if isinstance(t, tuple) and len(t) == 3 and t[0] == 'field' and t[2] == '0' and t[1][0] == 'as' and t[1][2] == 'Some' else None
    for bb, si, s, fl in sites:
        f = fl.get('frequency')
        ch0 = peel(f[2][0]) if is_call(f, 'Channel::ul_frequency') else None
        # the channel used: one alternative per way of choosing it (two constructions, or one construction fed by a match)
        alts = rules.value_cases(bf, ch0, path_conditions(bf, bb)) if ch0 is not None else []
        res.require(bool(alts), 'C09:dyn::select_tx_channel:frequency', 'TxChannel.frequency is not channel.ul_frequency()', short_site(bf, bb, si), 'PROVENANCE(frequency)',
                    instance='dynamic: frequency = ul_frequency() of the chosen channel')
        for ch, conds in alts:
            ch = peel(ch)
            arm = [x for x in conds if x[0][0] == 'discr' and peel(x[0][1]) == ('param', framep)]
            is_join = any(x[1] == (fv.get('Join'),) or x[1] == ('not', (fv.get('Data'),)) for x in arm) if arm else (is_call(ch, 'Option::unwrap') or not has_call(conds and ('x',) + tuple(x[0] for x in conds) or ('x',), 'is_enabled'))
            if is_join:
                n_join += 1
                okj = okg = False
                slot = None
                if is_call(ch, 'Option::unwrap'):
                    # channels[index].unwrap(), index left the loop `while index >= NUM_JOIN_CHANNELS`
                    slot = peel(ch[2][0])
                    idx = slot[2] if slot[0] == 'index' else None
                    okj = slot[0] == 'index' and field_path(slot[1]) == (('param', 1), ['channels'])
                    okg = idx is not None and any(num_join(b_) and rules.implies_order(conds, '<', idx, b_) for x in conds if isinstance(x[0], tuple) and len(x[0]) == 3 and x[0][0] in ('Ge', 'Lt', 'Gt', 'Le')
                                                  for b_ in (x[0][1], x[0][2]))
                else:
                    # a slot read through a bounded view: view.get(index) is Some(Some(channel)) with view = channels[..NUM_JOIN_CHANNELS]
                    inner = some_payload(ch)
                    g_ = some_payload(inner) if inner is not None else None
                    slot = g_
                    if g_ is not None and is_call(g_, '::get') and len(g_[2]) == 2:
                        rs = layout.resolve_slice(g_[2][0], lambda t: field_path(t) == (('param', 1), ['channels']))
                        okj = rs is not None and rs[0] == ('const', 0)
                        if okj and rs[1] is not None:
                            lin_, k_ = rules.linear(rs[1])
                            okg = k_ == 0 and len(lin_) == 1 and list(lin_.values()) == [1] and num_join(list(lin_)[0])
                res.require(okj and okg, 'C09:dyn::select_tx_channel:join-channel', 'the join channel is not channels[index] with index < NUM_JOIN_CHANNELS on the exit edge: %s' % term_str(slot if slot is not None else ch)[:160],
                            short_site(bf, bb, si), 'DOM(index < NUM_JOIN_CHANNELS => use)+SAME-VALUE(index)', instance='dynamic join: channels[index], index < NUM_JOIN_CHANNELS')
            else:
                n_data += 1
                # data: ((channels[X]) as Some).0 under is_enabled(X).unwrap() and channels[X] is Some
                src = some_payload(ch)
                okd = src is not None and src[0] == 'index' and field_path(src[1]) == (('param', 1), ['channels'])
                x_idx = src[2] if okd else None
                en = [x for x in conds if cond_true(x) and is_call(x[0], 'Result::unwrap') and is_call(x[0][2][0], 'ChannelMask::is_enabled')
                      and field_path(x[0][2][0][2][0]) == (('param', 1), ['channel_mask']) and peel(x[0][2][0][2][1]) == x_idx]
                de = [x for x in conds if (lambda k_: k_ is not None and k_[1] and k_[0] == src)(rules.option_known(x))] if okd else []
                res.require(okd and len(en) >= 1 and len(de) >= 1, 'C09:dyn::select_tx_channel:data-channel',
                            'the data channel is not read from the index whose mask bit and plan slot were tested on the exit edge: %s' % term_str(ch)[:120], short_site(bf, bb, si),
                            'DOM(mask bit and Some slot => use)+SAME-VALUE(index)', instance='dynamic data: channel X used only if mask.is_enabled(X) and channels[X] is Some')
        # rx1 frequency from the same channel
        r1 = fl.get('rx1_frequency')
        res.require(is_call(r1, 'Channel::rx1_frequency') and peel(r1[2][0]) == ch0, 'C09:dyn::select_tx_channel:rx1-frequency', 'rx1_frequency is not taken from the channel transmitted on', short_site(bf, bb, si),
                    'SAME-VALUE(channel)', instance='dynamic: rx1_frequency from the same channel as frequency')
        # data rate is the region's entry for the rate passed in, returned as dr
        drp = param_by_name(bf.body, 'datarate')
        d = fl.get('datarate')
        okr = fl.get('dr') == ('param', drp) and is_call(d, 'Option::unwrap') and has_call(d, 'ChannelRegion::datarates') and \
            term_contains(d, lambda y: isinstance(y, tuple) and y[0] == 'index' and term_contains(y[2], lambda z: z == ('discr', ('param', drp))))
        res.require(okr, 'C09:dyn::select_tx_channel:datarate', 'TxChannel.datarate is not datarates()[datarate] for the dr returned', short_site(bf, bb, si), 'PROVENANCE(datarate)',
                    instance='dynamic: TxChannel.datarate = datarates()[dr], dr = requested rate')
    res.require(n_join == 1 and n_data == 1, 'C09:dyn::select_tx_channel:arms', 'expected one join and one data arm', bf.body.path, 'SHAPE', instance='dynamic select_tx_channel: join arm + data arm')
    # fixed plans: the (dr, channel) pair
    bf = c.bf(FIX + 'select_tx_channel')
    sites = txchannel_sites(bf)
    if len(sites) != 1:
        raise CheckError('anchor: fixed select_tx_channel builds TxChannel %d times' % len(sites))
    bb, si, s, fl = sites[0]
    f = fl.get('frequency')
    pair = None
    if f[0] == 'index' and has_call(f, 'uplink_channels'):
        pair = rules.find_in_term(f[2], lambda y: isinstance(y, tuple) and y[0] == 'phi')
    d = fl.get('datarate')
    okp = pair is not None and term_contains(d, lambda y: y == pair) and term_contains(fl.get('dr'), lambda y: y == pair)
    res.require(okp, 'C09:fix::select_tx_channel:pair', 'frequency, data rate and dr do not come from one (dr, channel) choice', short_site(bf, bb, si), 'SAME-VALUE((dr, channel) pair)',
                instance='fixed: TxChannel built from one (dr, channel) pair')
    arms = []
    if pair is not None:
        for dv, cs, dbb in rules.defs_with_conditions(bf, pair[1]):
            if dv[0] != 'tuple':
                arms.append(('other', term_str(dv)[:60], dbb, cs))
                continue
            drt, cht = peel(dv[1][0]), peel(dv[1][1])
            arms.append((drt, cht, dbb, cs))
    drp = param_by_name(bf.body, 'datarate')
    n_masked = n_join = n_first = 0
    join_dr = {}
    for drt, cht, dbb, cs in arms:
        if drt == 'other':
            res.violation('C09:fix::select_tx_channel:arm', 'unrecognised (dr, channel) definition %s' % cht, short_site(bf, dbb), 'SHAPE')
            continue
        if is_call(cht, 'JoinChannels::get_next_channel'):
            n_join += 1
            # dr is a phi of two constants selected by channel < 64
            if drt[0] == 'phi':
                for v2, cs2, b2 in rules.defs_with_conditions(bf, drt[1]):
                    lt = [x for x in cs2 if x[0][0] == 'Lt' and peel(x[0][1]) == cht and x[0][2] == ('const', 64)]
                    if lt and v2[0] == 'agg':
                        join_dr.setdefault('125' if cond_true(lt[-1]) else '500', set()).add(v2[1].split('::')[-1])
                    elif lt and v2[0] == 'cdef':
                        # a constant of the regional parameter set: resolved per region below
                        join_dr.setdefault('125' if cond_true(lt[-1]) else '500', set()).add('const:' + v2[1].split('::')[-1])
        elif is_call(cht, 'JoinChannels::first_data_channel') or (cht[0] == 'field' and has_call(cht, 'first_data_channel')):
            n_first += 1
            res.require(drt == ('param', drp), 'C09:fix::select_tx_channel:first-data-dr', 'first data channel does not use the requested data rate', short_site(bf, dbb), 'PROVENANCE(dr)',
                        instance='fixed first data channel: requested data rate')
        else:
            # random channel under the mask: loop exit is_enabled(channel(+64)).unwrap() and class chosen from the bandwidth of the current rate
            n_masked += 1
            en = [x for x in cs if cond_true(x) and is_call(x[0], 'Result::unwrap') and has_call(x[0], 'ChannelMask::is_enabled')]
            base = None
            if en:
                arg = peel(en[-1][0][2][0][2][1])
                if is_call(arg, 'Into::into'):
                    arg = peel(arg[2][0])
                base = arg
            lin_c, k_c = rules.linear(cht)
            lin_b, k_b = rules.linear(base) if base is not None else ({}, None)
            same = base is not None and lin_c == lin_b and k_c == k_b
            bwc = [x for x in cs if is_call(x[0], 'PartialEq>::eq') and has_call(x[0], 'ChannelRegion::datarates')]
            cls = None
            if bwc:
                pv = [a for a in bwc[-1][0][2] if peel(a)[0] == 'promoted']
                cls500 = cond_true(bwc[-1])
                cls = '500' if cls500 else '125'
            hi = k_c == 64
            res.require(same and drt == ('param', drp) and cls is not None and (cls == '500') == hi, 'C09:fix::select_tx_channel:masked-channel',
                        'random data channel: not (enabled bit tested on exit = channel used, class from the bandwidth of the requested rate): channel %s, tested %s, class %s' % (
                            term_str(cht)[:60], term_str(base)[:60] if base else None, cls), short_site(bf, dbb), 'DOM(mask bit => use)+SAME-VALUE(channel)+class(bandwidth)',
                        instance='fixed data (%s kHz class): channel used = channel whose mask bit was tested, class from bandwidth(datarates()[dr])' % cls)
    res.require(n_join == 2 and n_first == 1 and n_masked == 2, 'C09:fix::select_tx_channel:arms', 'expected join, biased-data, first-data and two masked arms, found join=%d first=%d masked=%d' % (n_join, n_first, n_masked),
                bf.body.path, 'SHAPE', instance='fixed select_tx_channel: 2 join-channel arms, first-data arm, 2 masked arms')
    # the unmasked arms (join bias, first data channel) are only live until a channel mask is installed: every
    # store to FixedChannelPlan.channel_mask is preceded by JoinChannels::reset() in the same function
    n_ms = 0
    for body_, bb_, si_, st_ in c04.stores_through(prog, 'FixedChannelPlan', 'channel_mask'):
        n_ms += 1
        bfs = c.pf.bf(body_)
        resets = [b2 for b2, t2 in bfs.calls() if callee_name(t2).endswith('JoinChannels::reset')]
        res.require(any(bfs.cfg.dominates(rb, bb_) for rb in resets), 'C09:%s:mask-installed-without-bias-reset' % c04.short(body_.path),
                    'a channel mask is installed without resetting the join bias: data frames keep using the biased sub-band channels without looking at the mask',
                    short_site(bfs, bb_, si_), 'DOM(JoinChannels::reset => store channel_mask)', instance='%s: join bias reset before the mask is installed' % c04.short(body_.path))
    if n_ms < 1:
        raise CheckError('floor: stores to FixedChannelPlan.channel_mask %d < 1' % n_ms)
    # the class predicate constant is 500 kHz
    # ------------------------------------------------------------------ tables
    regs = tables.regions(prog)
    if len(regs) != 6:
        raise CheckError('floor: ChannelRegion impls %d != 6' % len(regs))
    tabs = {}
    for r in regs:
        tabs[r] = {'dr': tables.datarates(prog, r), 'pred': tables.freq_predicate(prog, r)}
    cov_tables = {}
    # (d) join data rate of the fixed plans matches the channel class in that region's table
    want_bw = {'125': '_125KHz', '500': '_500KHz'}
    drv = rules.variants_of(prog, 'lorawan::types::DR')
    for r in regs:
        if 'fixed_channel_plans' not in r:
            continue
        short_r = r.split('::')[-1]
        for cls, names in sorted(join_dr.items()):
            for nm in sorted(names):
                if nm.startswith('const:'):
                    nm = tables.assoc_const_variant(prog, r, FCR, nm[6:])
                    if nm is None:
                        raise CheckError('tables: %s does not define the join data-rate constant' % short_r)
                i = drv.get(nm)
                e = tabs[r]['dr'][i] if i is not None and i < len(tabs[r]['dr']) else None
                bw = e.get('bandwidth') if isinstance(e, dict) else None
                res.require(bw == want_bw[cls], 'C09:fix::select_tx_channel:join-dr:%s:%s' % (short_r, cls),
                            '%s: join requests on the %s kHz channels are sent with DR%s = %s, whose bandwidth is not %s kHz' % (
                                short_r, cls, nm, (e.get('spreading_factor'), bw) if isinstance(e, dict) else e, cls),
                            bf.body.path, 'CONST-TABLE(join data rate vs channel class)', instance='%s: join DR%s on %s kHz channels has bandwidth %s' % (short_r, nm, cls, bw))
                from . import regional
                want_dr = regional.ORACLE.get(short_r, {}).get('join_dr', {}).get(cls)
                res.require(want_dr is not None and i == want_dr, 'C09:regional:%s:join-dr:%s' % (short_r, cls),
                            '%s: join requests on the %s kHz channels are sent with DR%s; the regional parameters mandate DR%s there' % (short_r, cls, i, want_dr),
                            bf.body.path, 'ORACLE(join data rate per channel class)', instance='%s: join requests on %s kHz channels use DR%s' % (short_r, cls, want_dr))
    if len(join_dr) != 2:
        raise CheckError('anchor: join data rates per channel class not recognised: %s' % join_dr)
    # (c) in band
    n_const = 0
    for r in regs:
        preds = tabs[r]['pred']
        if not preds:
            raise CheckError('anchor: no frequency predicate found for %s' % r)
        pb = [prog.by_short[p_][0] for p_ in preds]
        short_r = r.split('::')[-1].split('<')[0]
        if 'fixed_channel_plans' in r:
            for meth in ('uplink_channels', 'downlink_channels'):
                arr = tables.u32_array(prog, r, FCR, meth)
                if not arr or None in arr:
                    raise CheckError('tables: %s::%s not evaluated' % (short_r, meth))
                tab = tables.bool_table(prog, pb[0], sorted(set(arr)))
                bad = [f_ for f_, v in tab.items() if v is not True]
                n_const += len(arr)
                res.require(not bad, 'C09:%s:%s-in-band' % (short_r, meth), '%s %s entries outside the region predicate %s: %s' % (short_r, meth, preds[0].split('::')[-1], bad[:5]),
                            r, 'CONST-TABLE(frequency map within band predicate)', instance='%s: all %d %s frequencies satisfy %s' % (short_r, len(arr), meth, preds[0].split('::')[-1]))
                cov_tables['%s.%s' % (short_r, meth)] = [arr[0], arr[-1], len(arr)]
        else:
            from . import regional
            slots_, forms_ = regional.default_channel_forms(prog, r)
            fs = forms_
            offsets = [0]
            if 'AS923' in r:
                offsets = sorted(off_ for rx2_, off_ in regional.as923_groups(prog))
                if len(offsets) < 4:
                    raise CheckError('anchor: AS923 offsets found %s' % offsets)
            for off_ in offsets:
                vals = [None if k0 is None else k0 + co * off_ for (i_, k0, co) in forms_]
                if None in vals or not vals:
                    raise CheckError('tables: init_channels frequencies of %s not constant: %s' % (short_r, forms_))
                oks = []
                for f_ in vals:
                    oks.append(any(tables.bool_table(prog, b_, [f_])[f_] is True for b_ in pb))
                n_const += len(vals)
                res.require(all(oks), 'C09:%s:join-channels-in-band%s' % (short_r, ':%d' % off_ if 'AS923' in r else ''), '%s join channels %s are not inside the region predicate' % (short_r, vals), r,
                            'CONST-TABLE(join channels within band predicate)', instance='%s%s: join channels %s satisfy the region predicate' % (short_r, ' offset %d' % off_ if 'AS923' in r else '', vals))
            nj = tables.assoc_const(prog, r, DCR, 'NUM_JOIN_CHANNELS')
            res.require(nj is not None and 1 <= nj <= 4 and nj == len(fs), 'C09:%s:num-join-channels' % short_r, 'NUM_JOIN_CHANNELS = %s but init_channels defines %d channels' % (nj, len(fs)), r,
                        'CONST-TABLE(NUM_JOIN_CHANNELS)', instance='%s: NUM_JOIN_CHANNELS = %s = channels defined by init_channels (retry loop draws 2 bits: exit satisfiable)' % (short_r, nj))
    if n_const < 150:
        raise CheckError('floor: frequency constants checked %d < 150' % n_const)
    # constructions of Channel from network data must be guarded by the region predicate on the same frequency
    n_ctor = 0
    for suffix in ('Channel::new', 'Channel::new_with_dr'):
        for bfc, bb, t in c.pf.callers_of(suffix, crates={'lorawan_device'}):
            fn = bfc.body.path
            if fn.endswith('::init_channels') or fn.endswith('Channel::new'):
                continue
            n_ctor += 1
            fq = peel(term_of_operand(bfc, t.args[0]))
            g = [x for x in path_conditions(bfc, bb) if cond_true(x) and is_call(x[0], 'frequency_valid') and peel(x[0][2][1]) == fq]
            res.require(bool(g), 'C09:%s:channel-frequency-unchecked' % c04.short(fn), 'a channel is created from a network-supplied frequency (%s) without frequency_valid(): the device would transmit out of band' % term_str(fq)[:80],
                        short_site(bfc, bb), 'DOM(frequency_valid(f) => Channel::new(f))', instance='%s: Channel(f) only if frequency_valid(f)' % c04.short(fn))
    if n_ctor < 2:
        raise CheckError('floor: network-driven Channel constructions %d < 2' % n_ctor)
    # ------------------------------------------------------------------ (e) power
    bfp = c.bf(D + 'radio::TxConfig::adjust_power')
    st = [(bb, si, s) for bb, si, s, root, path in bfp.field_writes() if path == ['pw']]
    # pw := min(pw - antenna_gain, cap): as `pw -= gain; pw = min(pw, cap)`, as one min(..) or as a comparison selecting the smaller
    def is_pw(t):
        return field_path(peel(t)) == (('param', 1), ['pw'])

    def is_r0(t):
        t = peel(t)
        return t[0] in ('Sub', 'SubWithOverflow') and is_pw(t[1]) and peel(t[2]) == ('param', 3)

    def is_cap(t):
        t = peel(t)
        return t[0] == 'cast' and peel(t[2]) == ('param', 2)
    okp = len(st) in (1, 2) and all(x[2].rv.k == 'use' for x in st)
    if okp:
        first_sub = len(st) == 2 and is_r0(term_of_operand(bfp, st[0][2].rv.ops[0])) and bfp.cfg.dominates(st[0][0], st[1][0])
        okp = len(st) == 1 or first_sub
        is_r = is_pw if first_sub else is_r0
        fin = peel(term_of_operand(bfp, st[-1][2].rv.ops[0]))
        kinds = set()
        for v, cs in (rules.value_cases(bfp, fin) if okp else []):
            v = peel(v)
            if is_call(v, 'cmp::min') and ((is_r(v[2][0]) and is_cap(v[2][1])) or (is_r(v[2][1]) and is_cap(v[2][0]))):
                kinds |= {'r', 'cap'}
                continue
            # the other candidate: the one this alternative must not exceed
            others = [x[0][i] for x in cs if isinstance(x[0], tuple) and len(x[0]) == 3 and x[0][0] in ('Lt', 'Le', 'Gt', 'Ge') for i in (1, 2)]
            if is_r(v):
                caps = [o for o in others if is_cap(o)]
                okp = okp and bool(caps) and rules.implies_order(cs, '<=', v, caps[0])
                kinds.add('r')
            elif is_cap(v):
                rs = [o for o in others if is_r(o)]
                okp = okp and bool(rs) and rules.implies_order(cs, '<=', v, rs[0])
                kinds.add('cap')
            else:
                okp = False
        okp = okp and kinds == {'r', 'cap'}
    res.require(okp, 'C09:adjust_power:shape', 'adjust_power is not pw = min(pw - antenna_gain, max_power)', bfp.body.path, 'SHAPE(min(pw - gain, cap))', instance='adjust_power: pw = min(pw - antenna_gain, cap)')
    bfc = c.bf(D + 'region::Configuration::create_tx_config')
    aggs = [s for b in bfc.body.blocks if not b.cleanup for s in b.stmts if s.k == 'assign' and s.rv.k == 'agg' and (s.rv.d.get('adt') or '').endswith('radio::TxConfig')]
    okc = len(aggs) == 1
    if okc:
        fl = dict(zip(aggs[0].rv.d['fields'], [peel(term_of_operand(bfc, o)) for o in aggs[0].rv.ops]))
        pw = fl.get('pw')
        inner = rules.find_in_term(pw, lambda y: isinstance(y, tuple) and len(y) == 4 and y[0] == 'call' and y[1].endswith('Configuration::check_tx_power'))
        okc = inner is not None and inner[2][1] == ('const', 0)
    res.require(okc, 'C09:create_tx_config:regional-maximum', 'the starting power is not the regional maximum check_tx_power(0)', bfc.body.path, 'PROVENANCE(pw)', instance='create_tx_config: pw starts from the regional maximum (index 0)')
    n_adj = 0
    for bfa, bb, t in c.pf.callers_of('TxConfig::adjust_power', crates={'lorawan_device'}):
        n_adj += 1
        fn = bfa.body.path.replace(D, '')
        cap = peel(rules.resolve_captures(c.pf, bfa, term_of_operand(bfa, t.args[1])))
        gain = peel(rules.resolve_captures(c.pf, bfa, term_of_operand(bfa, t.args[2])))
        okg = field_path(gain)[1][-2:] == ['board_eirp', 'antenna_gain']
        res.require(okg, 'C09:%s:antenna-gain' % fn, 'antenna gain argument is %s' % term_str(gain), short_site(bfa, bb), 'PROVENANCE(antenna gain)', instance='%s: adjust_power(.., board antenna gain)' % fn)
        # the cap must be bounded by the board maximum on every path: board max itself, or min(.., board max)
        def bounded_by_board(x):
            x = peel(x)
            if field_path(x)[1][-2:] == ['board_eirp', 'max_power']:
                return True
            if is_call(x, 'cmp::min') or is_call(x, 'Ord::min'):
                return any(bounded_by_board(a) for a in x[2])
            return False
        # ... and by the level the network last commanded (configuration.tx_power when it is Some)
        def bounded_by_commanded(x, conds=()):
            x = peel(x)
            if is_call(x, 'Option::unwrap_or') and field_path(x[2][0])[1][-2:] == ['configuration', 'tx_power']:
                return True
            # the Some payload of configuration.tx_power itself
            if x[:1] == ('field',) and x[2] == '0' and isinstance(x[1], tuple) and x[1][:1] == ('as',) and x[1][2] == 'Some' and field_path(x[1][1])[1][-2:] == ['configuration', 'tx_power']:
                return True
            if is_call(x, 'cmp::min') or is_call(x, 'Ord::min'):
                return any(bounded_by_commanded(a, conds) for a in x[2])
            # no level has been commanded on this path (configuration.tx_power is None): nothing to honour
            return any(y[0][0] == 'discr' and field_path(y[0][1])[1][-2:] == ['configuration', 'tx_power'] and y[1] in ((0,), ('not', (1,))) for y in conds)
        # a cap selected by a match on the commanded level: every alternative is judged under its own conditions
        cap_alts = [(cap, [])]
        if cap[:1] == ('phi',):
            cap_alts = [(peel(rules.resolve_captures(c.pf, bfa, v_)), cs_) for v_, cs_, b_ in rules.defs_with_conditions(bfa, cap[1])]
        # one reviewed exception: a join request is sent outside any session, there is no commanded level to honour
        res.require(all(bounded_by_commanded(a_, cs_) for a_, cs_ in cap_alts) or fn == 'mac::Mac::join_otaa', 'C09:%s:power-cap-ignores-commanded-level' % fn,
                    'the cap handed to adjust_power is %s: the TX power level commanded by the network (configuration.tx_power) does not limit this transmission' % term_str(cap)[:120],
                    short_site(bfa, bb), 'BOUND(cap <= commanded level)', instance='%s: power cap bounded by the commanded level' % fn)
        res.require(all(bounded_by_board(a_) for a_, cs_ in cap_alts), 'C09:%s:power-cap-not-bounded-by-board-maximum' % fn,
                    'the cap handed to adjust_power is %s: when the network has commanded a level, the board maximum no longer limits the conducted power' % term_str(cap)[:120],
                    short_site(bfa, bb), 'BOUND(cap <= board max_power)', instance='%s: power cap bounded by the board maximum' % fn)
    if n_adj < 2:
        raise CheckError('floor: adjust_power call sites %d < 2' % n_adj)
    # tx_power_adjust tables: index 0 defined and the table is non-increasing
    for r in regs:
        b = tables._method_body(prog, r, tables.CR, 'tx_power_adjust')
        tab = tables.option_u8_table(prog, b, range(16))
        short_r = r.split('::')[-1].split('<')[0]
        vals = [tab[i] for i in range(16)]
        defined = [v for v in vals if isinstance(v, int)]
        mono = all(a >= b_ for a, b_ in zip(defined, defined[1:])) and 'unknown' not in vals and vals[0] is not None and \
            all(v is None for v in vals[len(defined):])
        res.require(mono, 'C09:%s:tx-power-table' % short_r, 'tx_power_adjust table of %s is not a non-increasing prefix starting at index 0: %s' % (short_r, vals), r, 'CONST-TABLE(tx power)',
                    instance='%s: tx power table %s' % (short_r, defined))
        cov_tables['%s.tx_power' % short_r] = vals
        cov_tables['%s.datarates' % short_r] = [(d_['spreading_factor'], d_['bandwidth']) if isinstance(d_, dict) else d_ for d_ in tabs[r]['dr']]
    join_walk_balance(c, res)
    # the parameter sets against the regional parameters document (frozen oracle, lrs/props/regional.py)
    from . import regional
    regional.check(c, res, PID, {'dr', 'power', 'band', 'channels', 'cr'})
    res.coverage.update({'configs': [c.info], 'tables': cov_tables, 'frequency_constants_checked': n_const, 'join_data_rates_by_channel_class': {k: sorted(v) for k, v in join_dr.items()}})
    res.explanation = __doc__
    res.assumptions = ['region predicates and tables are judged for mutual consistency and against the regional parameters document as transcribed in lrs/props/regional.py (RP002-1.0.x): data-rate tables, TX power tables (never above MaxEIRP - 2*index), band edges, default channels, fixed-plan frequency maps, coding rate 4/5',
                       'termination rules are those of C04 (validate-before-write); see C04 for the loop inventory']
    return res
