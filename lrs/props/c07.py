"""C07 — frames that are not accepted change nothing (structural part).

Decides, on MIR of the current tree: every persistent effect (store through, or may-writing call on, a
`&mut` parameter other than the receive buffer) in `Session::handle_rx`, `Otaa::handle_rx` and
`Mac::handle_rx/handle_rxc` is dominated by the edge on which the frame was accepted (MIC true /
`check_mic_and_decrypt_in_place` Ok / `Some(session)`); the oversize arm may only call `rx2_complete`; the
non-blocking state machine returns the unchanged state on `NoUpdate`; the async NoUpdate arm performs
nothing but clearing the receive buffer. It does not decide 2-safety of later behaviour."""
from ..runner import Result, CheckError
from .. import rules
from ..rules import effects, param_by_name, one_call, callee_name, term_of_operand, term_str
from .common import ctx, short_site

PID = 'C07'


def session_handle_rx(c, res, pid=PID):
    bf = c.bf('lorawan_device::mac::session::Session::handle_rx')
    body = bf.body
    names = ['self', 'region', 'configuration', 'dl']
    for opt in ('certification', 'multicast'):
        try:
            param_by_name(body, opt)
            names.append(opt)
        except CheckError:
            pass
    roots = {param_by_name(body, n): n for n in names}
    rx = param_by_name(body, 'rx')
    bbm, tm = one_call(bf, 'EncryptedDataPayload::validate_mic')
    ok = bf.ok_edges(tm.dest.local)
    if len(ok) != 1:
        raise CheckError('validate_mic result is not tested by exactly one branch in Session::handle_rx')
    evs = effects(c, bf, set(roots))
    if len(evs) < 8:
        raise CheckError('floor: expected >= 8 persistent-effect events in Session::handle_rx, found %d' % len(evs))
    # the oversize arm: rx2_complete guarded by `len(frame) > max_payload_len + const`
    mpl = param_by_name(body, 'max_payload_len')
    n_guarded = 0
    for e in evs:
        site = short_site(bf, e['bb'], e['si'])
        guarded = bf.guarded_by_edges(e['bb'], ok)
        if guarded:
            n_guarded += 1
            res.ok('DOM(effect => MIC ok)', '%s %s' % (body.path.split('::')[-2] + '::handle_rx', e['what']), site)
            continue
        if e['kind'] == 'call' and e['callee'].endswith('Session::rx2_complete'):
            # allowed only under the oversize comparison
            okk = False
            # whichever way the comparison is written (a > b, b < a, !(a <= b), operands as named locals): the conditions on the way to the call
            # imply  max_payload_len-side < frame-length-side
            conds_ = rules.path_conditions(bf, e['bb'])
            has_len = lambda x: rules.flow.term_contains(x, lambda y: isinstance(y, tuple) and y and y[0] == 'call' and isinstance(y[1], str) and y[1].endswith('::len'))
            has_mpl = lambda x: rules.flow.term_contains(x, lambda y: y == ('param', mpl))
            for cnd in conds_:
                tm_ = cnd[0]
                if isinstance(tm_, tuple) and len(tm_) == 3 and tm_[0] in ('Gt', 'Ge', 'Lt', 'Le'):
                    for a_, b_ in ((tm_[1], tm_[2]), (tm_[2], tm_[1])):
                        if has_len(a_) and not has_mpl(a_) and has_mpl(b_) and not has_len(b_) and rules.implies_order(conds_, '<', b_, a_):
                            okk = True
            if res.require(okk, 'C07:Session::handle_rx:pre-accept:%s' % e['callee'].split('::')[-1],
                           'rx2_complete before acceptance outside the oversize-frame arm', site,
                           'ALLOWED(oversize arm => rx2_complete only)', instance='oversize arm calls rx2_complete only'):
                continue
            continue
        if e['kind'] == 'call' and e['callee'].endswith('multicast::Multicast::handle_rx'):
            # delegated acceptance: multicast frames are authenticated by the multicast handler itself
            delegated_handler(c, res, 'lorawan_device::mac::multicast::Multicast::handle_rx', ['self', 'dl'])
            continue
        key = 'C07:Session::handle_rx:pre-accept:%s' % (e['callee'].split('::')[-1] if e['kind'] == 'call' else 'store ' + '.'.join(e['path']))
        res.violation(key, 'persistent effect before the MIC is verified: %s' % e['what'], site, 'DOM(effect => MIC ok)',
                      'not dominated by the true edge of validate_mic (bb%d)' % bbm)
    res.coverage['session_handle_rx_effects'] = len(evs)
    res.coverage['session_handle_rx_effects_guarded'] = n_guarded
    return bf, ok


def delegated_handler(c, res, name, pnames):
    """a frame handler Session::handle_rx delegates to before its own MIC check must itself keep every
    effect behind its own MIC verification"""
    bf = c.bf(name)
    body = bf.body
    roots = {param_by_name(body, n): n for n in pnames}
    bbm, tm = one_call(bf, 'EncryptedDataPayload::validate_mic')
    ok = bf.ok_edges(tm.dest.local)
    evs = effects(c, bf, set(roots))
    if len(evs) < 2:
        raise CheckError('floor: expected >= 2 effects in %s, found %d' % (name, len(evs)))
    short = '::'.join(name.split('::')[-2:])
    for e in evs:
        what = e['callee'].split('::')[-1] if e['kind'] == 'call' else 'store ' + '.'.join(e['path'])
        res.require(bool(ok) and bf.guarded_by_edges(e['bb'], ok), 'C07:%s:pre-accept:%s' % (short, what),
                    'effect before the multicast MIC is verified: %s' % e['what'], short_site(bf, e['bb'], e['si']),
                    'DOM(effect => MIC ok)', instance='%s %s' % (short, e['what']))


def otaa_handle_rx(c, res):
    bf = c.bf('lorawan_device::mac::otaa::Otaa::handle_rx')
    body = bf.body
    roots = {param_by_name(body, n): n for n in ('self', 'region', 'configuration')}
    # the acceptance test: Ok of check_mic_and_decrypt_in_place, or a true validate_mic on the decrypted JoinAccept
    ok = []
    for bbm, tm in bf.calls_to('DecryptedJoinAcceptPayload::check_mic_and_decrypt_in_place') + bf.calls_to('DecryptedJoinAcceptPayload::validate_mic'):
        ok += bf.ok_edges(tm.dest.local)
    if not ok:
        res.violation('C07:Otaa::handle_rx:no-acceptance-test', 'no MIC acceptance branch found in Otaa::handle_rx (check_mic_and_decrypt_in_place / validate_mic result is not '
                      'branched on in this function): its effects cannot be shown to follow acceptance', short_site(bf, 0), 'DOM(effect => JoinAccept MIC ok)')
    evs = effects(c, bf, set(roots))
    if len(evs) < 4:
        raise CheckError('floor: expected >= 4 effects in Otaa::handle_rx, found %d' % len(evs))
    for e in evs:
        site = short_site(bf, e['bb'], e['si'])
        res.require(bf.guarded_by_edges(e['bb'], ok),
                    'C07:Otaa::handle_rx:pre-accept:%s' % (e['callee'].split('::')[-1] if e['kind'] == 'call' else 'store ' + '.'.join(e['path'])),
                    'join-accept effect before MIC verification: %s' % e['what'], site, 'DOM(effect => JoinAccept MIC ok)',
                    instance='Otaa::handle_rx %s' % e['what'])
    # session constructed only on the accept path
    for bb, t in bf.calls_to('Session::derive_new'):
        res.require(bf.guarded_by_edges(bb, ok), 'C07:Otaa::handle_rx:derive_new-unguarded',
                    'Session derived without a verified JoinAccept', short_site(bf, bb), 'DOM(derive_new => MIC ok)',
                    instance='Otaa::handle_rx derive_new')
    res.coverage['otaa_handle_rx_effects'] = len(evs)


def rxc_during_join(c, res):
    """a frame heard by the Class C listening of a running transaction must not end it: Mac::handle_rxc may answer with an error (which the
    front-end propagates out of join() / send() with `?`) only when there is no session and no join in progress (State::Unjoined); in the
    Otaa state - the device listens between the JoinRequest and its windows - an unrelated frame is 'no update'"""
    name = 'lorawan_device::mac::Mac::handle_rxc'
    if not c.has(name):
        return
    bf = c.bf(name)
    sv = rules.variants_of(c.prog, 'mac::State')
    errs = []
    for b in bf.body.blocks:
        if b.cleanup or b.idx not in bf.cfg.reach:
            continue
        for s_ in b.stmts:
            if s_.k == 'assign' and s_.rv.k == 'agg' and s_.rv.d.get('variant') == 'Err' and (s_.rv.d.get('adt') or '').endswith('Result'):
                ds = [cn for cn in rules.path_conditions(bf, b.idx) if isinstance(cn[0], tuple) and cn[0][:1] == ('discr',) and 'state' in term_str(cn[0])]
                errs.append((b.idx, ds[-1][1] if ds else None))
    bad = [e for e in errs if e[1] != (sv.get('Unjoined'),)]
    res.require(not bad, 'C07:Mac::handle_rxc:error-only-when-unjoined', 'Mac::handle_rxc answers with an error in a state other than Unjoined (state tests %s): during a join the Class C listening between the '
                'windows hands every frame heard to it, and the error ends join() although the JoinAccept can still arrive' % [e[1] for e in bad], bf.body.path,
                'VARIANT(Err only for State::Unjoined)', instance='Mac::handle_rxc: a frame heard while a join is in progress is no update (error only when unjoined)')


def _mentions_hmr(t):
    if isinstance(t, tuple):
        if len(t) == 4 and t[0] == 'call' and isinstance(t[1], str) and t[1].endswith('Device::handle_mac_response'):
            return True
        return any(_mentions_hmr(x) for x in t)
    return False


def rxc_keeps_listening(c, res):
    """Class C listening between the windows of a transaction (async between_windows): the loop runs `while let Some(t) = maybe_timeout.take()`
    and ends when the pending window timer is not put back. A frame the MAC does not accept (handle_mac_response gives None) must leave the
    listening phase exactly as it was: every path from that arm back to the loop head re-arms the timer (stores Some(..) to the option the
    head takes from); otherwise a rejected frame ends the phase and the next receive window opens at once"""
    name = 'lorawan_device::async_device::Device::between_windows::{closure#0}'
    if not c.has(name):
        return
    bf = c.bf(name)
    body = bf.body
    takes = [(bb, t) for bb, t in bf.calls() if callee_name(t).endswith('Option::take')]
    hmr = [(bb, t) for bb, t in bf.calls() if callee_name(t).endswith('Device::handle_mac_response')]
    if not takes or not hmr:
        return          # no Class C listening loop in this build
    # the option local the loop head takes from
    head_bb, tk = takes[0]
    root = bf.root_of_operand(tk.args[0])
    opt_local = root[0] if root else None
    rearm = set()
    for b in body.blocks:
        if b.cleanup:
            continue
        for s_ in b.stmts:
            if s_.k == 'assign' and not s_.lhs.proj and s_.lhs.local == opt_local and bf.cfg.can_reach(head_bb, b.idx):
                is_some = s_.rv.k == 'agg' and s_.rv.d.get('variant') == 'Some'
                if s_.rv.k == 'use':
                    tv = term_of_operand(bf, s_.rv.ops[0])
                    is_some = isinstance(tv, tuple) and tv[:1] == ('agg',) and str(tv[1]).endswith('Option::Some')
                if is_some:
                    rearm.add(b.idx)
    # the None arm of the awaited handle_mac_response result: a switch on the discriminant of an Option<mac::Response> local
    none_targets = []
    for b in body.blocks:
        t = b.term
        if b.cleanup or t.k != 'switch' or t.discr.place is None or not bf.cfg.can_reach(hmr[0][0], b.idx) or not bf.cfg.can_reach(head_bb, b.idx):
            continue
        rv = bf.single_rvalue(t.discr.place.local)
        # ... the option that is the (awaited, `?`-unwrapped) result of handle_mac_response for the frame just heard - not the loop's own
        # `response` variable, which holds what earlier accepted frames produced
        if rv is not None and rv.k == 'discr' and body.locals[rv.place.local].replace(' ', '').startswith('core::option::Option<lorawan_device::mac::Response') and \
                _mentions_hmr(rules.term_of_place(bf, rv.place)):
            vals = [v for v, tg in t.targets]
            if 0 in vals:
                none_targets += [tg for v, tg in t.targets if v == 0]
            elif vals == [1] and t.otherwise is not None:
                none_targets.append(t.otherwise)       # `if let Some(..) = x { .. } else { .. }`: None is the fall-through
    if opt_local is None or not rearm or not none_targets:
        raise CheckError('anchor: Class C listening loop of between_windows (option local %s, re-arm sites %d, None arms %d)' % (opt_local, len(rearm), len(none_targets)))
    leak = []
    for n0 in none_targets:
        seen, todo = {n0}, [n0]
        while todo:
            x = todo.pop()
            if x in rearm:
                continue
            if x == head_bb:
                leak.append(n0)
                break
            for y in bf.cfg.succ[x]:
                if y not in seen and not body.blocks[y].cleanup:
                    seen.add(y)
                    todo.append(y)
    res.require(not leak, 'C07:async::between_windows:rejected-frame-ends-listening', 'after a frame the MAC did not accept, the Class C listening loop can come back to its head without the window timer put back: '
                'the listening phase ends and the next receive window is opened at once instead of at its time', short_site(bf, leak[0]) if leak else bf.body.path,
                'MUST-PASS(NoUpdate arm -> timer re-armed -> loop head)', instance='async between_windows: an unaccepted frame leaves the Class C listening phase running (timer re-armed)')


def mac_handle_rx(c, res):
    for fn, floor in (('handle_rx', 1), ('handle_rxc', 0)):
        name = 'lorawan_device::mac::Mac::' + fn
        if not c.has(name):
            if fn == 'handle_rx':
                raise CheckError('missing anchor ' + name)
            continue
        bf = c.bf(name)
        body = bf.body
        self_ = param_by_name(body, 'self')
        stores = [(bb, si, s, path) for bb, si, s, root, path in bf.field_writes() if root == self_]
        if len(stores) < floor:
            raise CheckError('floor: expected a store to self.state in %s' % name)
        ocalls = bf.calls_to('Otaa::handle_rx')
        ok = []
        for bb, t in ocalls:
            ok += bf.ok_edges(t.dest.local)
        for bb, si, s, path in stores:
            res.require(bool(ok) and bf.guarded_by_edges(bb, ok) and path[:1] == ['state'],
                        'C07:Mac::%s:store %s' % (fn, '.'.join(path)),
                        'MAC state written without an accepted JoinAccept', short_site(bf, bb, si),
                        'DOM(state = Joined => Some(session))', instance='Mac::%s store %s' % (fn, '.'.join(path)))
        # every other may-writing call on self must be one of the two frame handlers
        for e in effects(c, bf, {self_}):
            if e['kind'] != 'call':
                continue
            res.require(e['callee'].endswith('Session::handle_rx') or e['callee'].endswith('Otaa::handle_rx'),
                        'C07:Mac::%s:call %s' % (fn, e['callee'].split('::')[-1]),
                        'MAC-level effect outside the frame handlers: %s' % e['what'], short_site(bf, e['bb']),
                        'WHO-CALLS(Mac::%s)' % fn, instance='Mac::%s -> %s' % (fn, e['callee'].split('::')[-1]))


def nb_noupdate(c, res):
    bf = c.bf('lorawan_device::nb_device::state::WaitingForRx::handle_event')
    body = bf.body
    self_ = param_by_name(body, 'self')
    bbh, th = one_call(bf, 'Mac::handle_rx')
    nu = rules.variant_discr(c.prog, 'mac::Response', 'NoUpdate')
    edges = bf.variant_edges(th.dest.local, {'NoUpdate': nu})
    edges = [e for e, n in edges.items() if n == 'NoUpdate']
    if len(edges) != 1:
        raise CheckError('nb WaitingForRx: the NoUpdate arm of mac.handle_rx is not a single switch edge')
    start = edges[0][1]
    # blocks reachable on the NoUpdate arm
    reach = bf.cfg.reachable_from(start)
    mac = param_by_name(body, 'mac'); radio = param_by_name(body, 'radio'); buf = param_by_name(body, 'buf'); dl = param_by_name(body, 'dl')
    bad = [e for e in effects(c, bf, {mac, radio, buf, dl}) if e['bb'] in reach and bf.guarded_by_edges(e['bb'], edges)]
    res.require(not bad, 'C07:nb::WaitingForRx:NoUpdate-arm-effect', 'effect on the NoUpdate arm: %s' % [b['what'] for b in bad],
                short_site(bf, start), 'EFFECT(none on NoUpdate arm)', instance='nb WaitingForRx NoUpdate arm: no mac/radio/buffer effect')
    # the state returned on that arm is State::WaitingForRx(self) with self unchanged
    found = False
    for x in sorted(reach):
        if not bf.guarded_by_edges(x, edges):
            continue
        for s in body.blocks[x].stmts:
            if s.k == 'assign' and s.lhs.is_local() and s.lhs.local == 0 and s.rv.k == 'agg' and s.rv.d['ak'] == 'tuple':
                st = term_of_operand(bf, s.rv.ops[0])
                rs = term_of_operand(bf, s.rv.ops[1])
                found = True
                good = st == ('agg', 'lorawan_device::nb_device::state::State::WaitingForRx', (('0', ('param', self_)),))
                res.require(good, 'C07:nb::WaitingForRx:NoUpdate-state', 'state returned on NoUpdate is not the unchanged WaitingForRx(self): %s' % term_str(st),
                            short_site(bf, x), 'SAME-VALUE(state)', instance='nb NoUpdate returns State::WaitingForRx(self)')
                good2 = rs[0] == 'agg' and rs[1].endswith('Result::Ok') and rs[2][0][1][0] == 'agg' and rs[2][0][1][1].endswith('nb_device::Response::NoUpdate')
                res.require(good2, 'C07:nb::WaitingForRx:NoUpdate-response', 'response on NoUpdate arm is not Ok(NoUpdate): %s' % term_str(rs),
                            short_site(bf, x), 'RETURNS(Ok(NoUpdate))', instance='nb NoUpdate returns Ok(Response::NoUpdate)')
    if not found:
        raise CheckError('nb WaitingForRx: return value construction on the NoUpdate arm not found')
    # self is never written in this function
    w = [1 for bb, si, s, root, path in bf.field_writes() if root == self_]
    res.require(not w and not bf.whole_defs(self_), 'C07:nb::WaitingForRx:self-written', 'WaitingForRx state mutated in place', None,
                'WHO-WRITES(self)', instance='nb WaitingForRx: self never written')


def async_noupdate(c, res):
    bf = c.bf('lorawan_device::async_device::Device::handle_mac_response::{closure#0}')
    body = bf.body
    nu = rules.variant_discr(c.prog, 'mac::Response', 'NoUpdate')
    # the switch on discriminant(response)
    sw = None
    for b in body.blocks:
        t = b.term
        if b.cleanup or t.k != 'switch' or t.discr.place is None:
            continue
        rv = bf.single_rvalue(t.discr.place.local)
        if rv is not None and rv.k == 'discr' and 'mac::Response' in body.locals[rv.place.local]:
            sw = b
            break
    if sw is None:
        raise CheckError('async handle_mac_response: switch on mac::Response not found')
    tgt = [t for v, t in sw.term.targets if v == nu]
    if len(tgt) != 1:
        raise CheckError('async handle_mac_response: NoUpdate is not an explicit arm')
    edge = (sw.idx, tgt[0])
    reach = bf.reach_avoiding_edges(tgt[0], [])
    # effects after the switch on the NoUpdate arm (roots: coroutine upvars are fields of _1)
    bad = []
    for bb, t in bf.calls():
        if bb in reach and bf.guarded_by_edges(bb, [edge]):
            for (root, path, how) in c.ef.call_effects(bf, t):
                bad.append(callee_name(t))
    for bb, si, s, root, path in bf.field_writes():
        if bb in reach and bf.guarded_by_edges(bb, [edge]) and root == 1:
            bad.append('store ' + '.'.join(path))
    res.require(not bad, 'C07:async::handle_mac_response:NoUpdate-arm-effect', 'effects on the NoUpdate arm: %s' % bad, short_site(bf, tgt[0]),
                'EFFECT(none on NoUpdate arm)', instance='async handle_mac_response NoUpdate arm: no effect after the switch')
    # effects before the switch: only RadioBuffer::clear on the receive buffer
    pre = []
    for bb, t in bf.calls():
        if bf.cfg.can_reach(bb, sw.idx) and bb != sw.idx:
            if c.ef.call_effects(bf, t):
                pre.append(callee_name(t))
    res.require(all(p.endswith('RadioBuffer::clear') for p in pre), 'C07:async::handle_mac_response:pre-switch-effect',
                'effects before the response is examined: %s' % pre, short_site(bf, 0), 'EFFECT(only buffer clear)',
                instance='async handle_mac_response: only radio_buffer.clear() precedes the match (%d call)' % len(pre))
    # the value returned on that arm is Ok(None)
    good = False
    for x in sorted(reach):
        if not bf.guarded_by_edges(x, [edge]):
            continue
        for s in body.blocks[x].stmts:
            if s.k == 'assign' and s.lhs.is_local() and s.lhs.local == 0:
                tt = rules.term_of_place(bf, s.lhs) if False else None
                rv = s.rv
                if rv.k == 'agg' and rv.d.get('variant') == 'Ok':
                    inner = term_of_operand(bf, rv.ops[0])
                    good = inner[0] == 'agg' and inner[1].endswith('Option::None')
    res.require(good, 'C07:async::handle_mac_response:NoUpdate-returns', 'NoUpdate arm does not return Ok(None)', short_site(bf, tgt[0]),
                'RETURNS(Ok(None))', instance='async handle_mac_response NoUpdate => Ok(None)')


def run(tier):
    res = Result(PID)
    configs = ['ws'] + (['dev-full'] if tier == 'thorough' else [])
    for cfg in configs:
        c = ctx(cfg)
        session_handle_rx(c, res)
        otaa_handle_rx(c, res)
        mac_handle_rx(c, res)
        rxc_during_join(c, res)
        rxc_keeps_listening(c, res)
        nb_noupdate(c, res)
        async_noupdate(c, res)
        res.coverage.setdefault('configs', []).append(c.info)
    res.explanation = __doc__
    res.assumptions = ['rustc nightly MIR construction', 'may-write summaries treat unknown external callees taking &mut as writers, '
                       'except the listed reference adapters/iterator helpers', 'state living only in the receive buffer is out of scope (property text)']
    return res
