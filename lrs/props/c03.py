"""C03 — parsing arbitrary bytes is total, bounds-safe and terminating.

Decided by abstract interpretation of the MIR of every exported function of the `lorawan` crate on the parsing
side (frame parsers, view accessors, MAC-command / certification / multicast command-set iterators and payload
accessors, wire newtypes, text forms): every panic-capable site (bounds and overflow assertions, slice range
indexing, copy_from_slice, unwrap/expect, explicit panics) met in any analysed context is an obligation, which is
discharged iff the abstract state (intervals + finite sets + linear constraints over lengths and bytes, with
per-variant facts on Result/Option values) implies it. View types carry inferred length invariants (hull over
all construction sites, assumed at accessor entry: sound because their fields are private) and the data-frame
views a declared relational layout invariant that is itself an obligation at each construction site. Loops are
analysed to a fixpoint with widening; iterator-driven loops terminate by the iterator protocol; the hand-written
iterators are checked for a strictly advancing cursor. Recursion is reported if present."""
import re
from ..runner import Result, CheckError
from .. import absint_run
from .common import ctx

PID = 'C03'

# functions that are not entry points, with the reason (they are still analysed in every calling context)
ENTRY_EXCLUSIONS = [
    (r'::new_from_raw$', 'documented unchecked constructor ("improper use could lead to panic"); its workspace callers carry the obligation'),
    (r'ChannelMask::set_channel$', 'documented: "Improper use of this method could lead to out of bounds panic" (index chosen by the caller)'),
    (r'MacCommandSet<.*>>::parse_one$', 'trait contract: `data` is guaranteed non-empty by the caller (MacCommands::next checks it)'),
    (r' as lorawan::keys::(Network)?Crypto>::(encrypt_block|decrypt_block)$', 'trait contract: the block is exactly 16 bytes (all workspace callers pass 16-byte blocks, checked in context)'),
]

# parse-side scope: everything exported by `lorawan` except frame/command *builders* (C01/C19 decide those)
BUILDER_PAT = re.compile(r'Creator|::creator::|::maccommandcreator::|::default_crypto::|JoinAccept::build|DataFrame::build|JoinRequest::build|maccommands::mac_commands_len')


# reviewed exceptions: (function, obligation kind, description) -> reason. One symbol each, never a line number.
EXCEPTIONS = {
    ('lorawan::default_crypto::calculate_mic', 'slice', 'range index'):
        'CMAC tag is hybrid_array::Array<u8, BlockSize> with the block size a type-level constant of the external cipher (16 for AES-128): [0..4] is in range',
    ('lorawan::default_crypto::calculate_mic', 'unwrap', 'Result::unwrap'):
        'a 4-byte sub-slice always converts to [u8; 4]',
}


def scalar_param_syms(syms):
    """symbols that are scalar parameters of the entry function (p<k>_<name> without a projection)"""
    return [s for s in syms if re.match(r'^p\d+_[A-Za-z0-9_]+$', s)]


def classify(d):
    """'violation' | 'argument' (depends on a scalar argument chosen by the caller) | 'generic' (depends on an
    uninstantiated const generic chosen by the caller)"""
    syms = (d or {}).get('syms', [])
    # a site that fails only for some value of an uninstantiated const generic (N = 0 in `N * 8 - 1`) is the caller's choice; one that
    # also depends on the *input* (a slice length compared with N) fails for inputs of a perfectly ordinary instantiation
    input_derived = [s for s in syms if re.match(r'^p\d+_', s) and not re.match(r'^p\d+_[A-Za-z0-9_]+$', s)]      # p1_data.len, p1_self*.0[3], ..
    if any(s.startswith('G:') for s in syms) and not input_derived:
        return 'generic'
    if scalar_param_syms(syms):
        return 'argument'
    return 'violation'


def short(fn):
    fn = re.sub(r"<'[a-z_]+>", '', fn)
    fn = fn.replace('lorawan::', '')
    return fn


def run(tier):
    res = Result(PID)
    c = ctx('ws')
    prog = c.prog
    ents = []
    excluded = []
    for b in absint_run.exported_entries(prog, 'lorawan', exclude_names=()):
        ex = [why for pat, why in ENTRY_EXCLUSIONS if re.search(pat, b.path)]
        if ex:
            excluded.append((b.path, ex[0]))
            continue
        ents.append(b)
    if len(ents) < 1200:
        raise CheckError('floor: exported lorawan functions analysed %d < 1200' % len(ents))
    log = []
    an, inv, skipped = absint_run.run_passes(prog, ents, {'lorawan'}, max_depth=8 if tier == 'thorough' else 7, log=log.append)
    obl = an.finalize_obligations()
    # scope by *entry*: a site is judged in the contexts reached from parse-side entry points
    in_scope = []
    excepted = []
    precond_sites = []
    n_ok = 0
    assumptions = {}
    for o in sorted(obl, key=lambda o: o.key()):
        bad = {e: d for e, d in o.bad_entries.items() if not BUILDER_PAT.search(e)}
        if BUILDER_PAT.search(o.fn) and not bad:
            continue
        if (o.fn, o.kind, o.desc) in EXCEPTIONS and bad:
            excepted.append({'site': o.key(), 'reason': EXCEPTIONS[(o.fn, o.kind, o.desc)]})
            continue
        in_scope.append(o)
        if not bad:
            n_ok += 1
            continue
        worst = None
        n_assumed_here = 0
        for e, d in sorted(bad.items()):
            cls = classify(d)
            if cls == 'violation':
                worst = d
                break
            assumptions.setdefault(cls, []).append('%s <- %s' % (o.key(), short(e)))
        if worst is None:
            precond_sites.append(o)
            continue
        key = 'C03:%s:%s:%s#%d' % (short(o.fn), o.kind, o.desc, o.ord)
        res.violation(key, 'panic-capable site not discharged: %s (%s) in context %s' % (o.kind + ' ' + o.desc, worst.get('why'), [short(x) for x in worst['context'][:4]]),
                      '%s (%s)' % (o.fn, o.span), 'OBLIGATION(%s)' % o.kind, worst)
    if len(in_scope) < 250:
        raise CheckError('floor: obligations in scope %d < 250' % len(in_scope))
    if skipped:
        # a view type that is never constructed has no instances: its accessors are unreachable
        res.assumptions.append('entries skipped because their receiver type is never constructed: %s' % sorted(skipped)[:10])
    # iterator protocol of the hand-written iterators
    iterator_rules(c, res)
    # recursion
    rec = recursion_check(prog)
    res.require(not rec, 'C03:recursion', 'recursive functions among the parsers: %s' % rec[:3], None, 'CALLGRAPH(no recursion)',
                instance='no recursion in the lorawan crate (stack depth is bounded)')
    n_obl = len(in_scope) - len(precond_sites)
    res.level = 'proof' if not res.violations and n_ok == n_obl else 'other'
    res.coverage.update({
        'obligations': n_obl, 'discharged': n_ok,
        'sites_depending_only_on_caller_chosen_arguments': len(precond_sites),
        'reviewed_exceptions': excepted,
        'obligations_total_incl_builders': len(obl),
        'entries_analysed': len(ents), 'entries_excluded': excluded,
        'passes': log,
        'assumed_preconditions': {k: sorted(v) for k, v in assumptions.items()},
        'inferred_length_invariants': {h.split('::')[-1]: {f: [v[0], v[1], sorted(v[2]) if v[2] else None] for f, v in r.items()} for h, r in sorted(inv.len_inv.items())},
        'loops_analysed': sum(len(v) for v in an.loops.values()),
        'iterator_driven_loops': len(an.loop_iterators),
        'unmodelled_external_calls': dict(sorted(an.havoc_log.items(), key=lambda x: -x[1])[:40]),
        'checker_cmd': './check C03',
        'trusted_base': ['rustc nightly MIR construction', 'models of core/heapless/hex functions in lrs/absint_models.py', 'privacy of view-type fields (compile-fail witnesses)',
                         'declared data-view invariant is checked at every construction site'],
        'configs': [c.info],
    })
    res.samples = [{'obligation': o.key(), 'site': o.span, 'contexts_discharged': o.ok} for o in in_scope[:6]]
    res.explanation = __doc__
    res.assumptions += ['arguments chosen by the caller (indices, const generics) are preconditions, not input bytes: %d sites listed under assumed_preconditions'
                        % sum(len(v) for v in assumptions.values()),
                        'external calls without a model return unconstrained values (sound); formatting machinery is assumed panic-free']
    return res


def load_known_keys():
    return []


def recursion_check(prog):
    """SCCs of size > 1 or self loops in the static call graph of the lorawan crate"""
    graph = {}
    for b in prog.bodies.values():
        if b.crate != 'lorawan':
            continue
        outs = set()
        for blk in b.blocks:
            t = blk.term
            if t.k == 'call':
                p = t.callee_best()
                if p and p in prog.by_short:
                    outs.add(p)
        graph[b.path] = outs
    # Tarjan
    idx = {}
    low = {}
    stack = []
    on = set()
    out = []
    counter = [0]
    import sys
    sys.setrecursionlimit(10000)

    def sc(v):
        idx[v] = low[v] = counter[0]
        counter[0] += 1
        stack.append(v)
        on.add(v)
        for w in graph.get(v, ()):
            if w not in idx:
                sc(w)
                low[v] = min(low[v], low[w])
            elif w in on:
                low[v] = min(low[v], idx[w])
        if low[v] == idx[v]:
            comp = []
            while True:
                w = stack.pop()
                on.discard(w)
                comp.append(w)
                if w == v:
                    break
            if len(comp) > 1 or v in graph.get(v, ()):
                out.append(comp)
    for v in list(graph):
        if v not in idx:
            sc(v)
    return out


def iterator_rules(c, res):
    """MacCommands::next: fused after an error, advances by exactly the consumed length, yields the parsed command"""
    from ..rules import param_by_name, term_of_operand, term_str, path_conditions, cond_true, cond_false, one_call
    from ..flow import term_contains
    cands = [p for p in c.prog.by_short if p.endswith('Iterator>::next') and 'lorawan::maccommands::MacCommands' in p]
    if len(cands) != 1:
        raise CheckError('missing anchor: MacCommands::next')
    bf = c.bf(cands[0])
    body = bf.body
    self_ = 1
    bbp, tp = one_call(bf, 'MacCommandSet::parse_one')
    # (ii) fusing: parse_one is dominated by `!errored`, and every path yielding Some(Err) stores errored = true
    conds = path_conditions(bf, bbp)
    err_t = ('field', ('deref', ('param', self_)), 'errored')
    res.require(any(x[0] == err_t and cond_false(x) for x in conds), 'C03:MacCommands::next:not-fused', 'parse_one can run after an error was reported',
                None, 'DOM(parse_one => !errored)', instance='MacCommands::next: parse_one only while not errored')
    stores = [(bb, si, s) for bb, si, s, root, path in bf.field_writes() if root == self_ and path == ['errored']]
    okf = False
    for bb, si, s in stores:
        v = term_of_operand(bf, s.rv.ops[0])
        if v == ('const', 1) and bf.guarded_by_edges(bb, bf.err_edges(tp.dest.local)):
            # all paths from the Err edge to return pass through the store
            okf = all(not bf.returns_reachable(v2, avoid_nodes=[bb]) or v2 == bb for (u, v2) in bf.err_edges(tp.dest.local))
    res.require(okf, 'C03:MacCommands::next:error-not-latched', 'an error is yielded without latching `errored`', None, 'MPT(Err -> errored = true)',
                instance='MacCommands::next: every Err path sets errored')
    # (i)/(iii) the cursor advances by exactly `consumed` of the Ok result, on the slice that was parsed
    dstores = [(bb, si, s) for bb, si, s, root, path in bf.field_writes() if root == self_ and path == ['data']]
    oka = False
    if len(dstores) == 1:
        bb, si, s = dstores[0]
        v = term_of_operand(bf, s.rv.ops[0])
        cons_t = ('field', ('field', ('as', ('call', 'lorawan::maccommands::MacCommandSet::parse_one', tp and tuple(term_of_operand(bf, a) for a in tp.args), bbp), 'Ok'), '0'), '1')
        oka = term_contains(v, lambda x: isinstance(x, tuple) and x[:1] == ('agg',) and x[1].endswith('RangeFrom') and x[2][0][1] == cons_t) and \
            term_contains(v, lambda x: x == ('field', ('deref', ('param', self_)), 'data')) and bf.guarded_by_edges(bb, bf.ok_edges(tp.dest.local))
    res.require(oka, 'C03:MacCommands::next:cursor', 'the stream cursor does not advance by exactly the consumed length of the parsed command', None,
                'SAME-VALUE(data = &data[consumed..])', instance='MacCommands::next: data = &data[consumed..] with consumed from parse_one')
    # the parsed slice is the current cursor
    a0 = term_of_operand(bf, tp.args[0])
    res.require(term_contains(a0, lambda x: x == ('field', ('deref', ('param', self_)), 'data')), 'C03:MacCommands::next:parse-source',
                'parse_one is not applied to the remaining stream', None, 'SAME-VALUE(parse_one(self.data))', instance='MacCommands::next parses self.data')
