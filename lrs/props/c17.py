"""C17 — programmed frequency, TX power and RX timeout decode to what was requested (PARTIAL: four of the six clauses).

Decided (each over the *whole* input range of the clause, by partitioning the input into the finitely many classes the
code distinguishes and interpreting the MIR abstractly per class - nothing is executed):
  (a) FREQUENCY. Both conversions are, as integer terms, round-to-nearest of f * 2^RES / 32 MHz (the reference formula or the
      equivalent single wide division; polynomial identity as in C13). Rounding to the nearest step puts the decoded frequency within
      half a step of the request: 0.48 Hz (SX126x, RES 25), 30.6 Hz (SX127x, RES 19) - inside the property's "under 1 Hz" / "under
      62 Hz". The word reaches the chip unmodified and most significant byte first (each written byte is the matching byte of the
      conversion's result: decided on the written terms).
  (b) TX POWER. SX127x (both variants, PA_BOOST and RFO): for every requested power - each integer inside the PA's range one by
      one, everything below and everything above as one interval each - the RegPaConfig / RegPaDac bytes are extracted and decoded
      with the data-sheet formulas (PA_BOOST: Pout = 2 + OutputPower, with PaDac = 0x87: 5 + OutputPower; SX1276 RFO:
      Pout = 10.8 + 0.6 MaxPower - 15 + OutputPower; SX1272 RFO: Pout = -1 + OutputPower); the decoded power is the request
      clamped into the range, never above it and less than 1 dB below. SX126x: PaTable::lookup over the same partition for the two
      data-sheet tables (their rows are judged by C13): the row chosen and the SetTxParams power decode (row's output power minus
      the steps below its SetTxParams value) to the clamped request.
  (c) SYMBOL TIMEOUT, SX127x: the 10-bit value written (RegModemConfig2[1:0] : RegSymbTimeoutLsb) is the request for requests up
      to 1023 and 1023 above (bit provenance per class); never shorter than min(request, chip maximum).
  (d) SYMBOL TIMEOUT, SX126x: for each request 0..248 and for the class above the chip maximum, SetLoRaSymbNumTimeout's byte is
      at least min(request, 248), and the mantissa / exponent written to register 0x0706 decode to that same number of symbols.
NOT decided (stated, not claimed): (e) the LoRaWAN adapter's millisecond-to-symbol conversion (a truncating division: adequacy
is a numerical statement over SF x BW x margin), (f) RSSI / SNR conversions within 1 dB (2^24 raw triples; arithmetic shifts of
negated values). These stay outside the claim."""
import json
import re
from ..runner import Result, CheckError
from .. import rules, spi, tables, absint_interp
from ..absint import Lin
from ..rules import callee_name, term_of_operand, term_str
from .common import ctx
from . import c13

PID = 'C17'
VAR = 'lora_phy::sx127x::radio_kind_params::Sx127xVariant'


def _const_setup(body, consts):
    """setup callback fixing the named parameters: int -> constant, (lo, hi) -> interval, bool -> constant flag"""
    def setup(an_, fr, st):
        for i in range(1, body.argc + 1):
            nm = body.local_name(i)
            if nm in consts:
                v = consts[nm]
                if isinstance(v, bool):
                    st.env[(fr.id, i)] = ('bool', ('const', int(v)))
                elif isinstance(v, tuple):
                    sym = 'p%d_%s' % (i, nm)
                    st.env[(fr.id, i)] = ('int', Lin.sym(sym))
                    st.lo[sym], st.hi[sym] = v
                else:
                    st.env[(fr.id, i)] = ('int', Lin.const(v))
    return setup


def _shapes(prog, body, consts, subst=None):
    return [json.loads(k) for k, _ in spi.transactions(prog, body, setup=_const_setup(body, consts), subst=subst, unroll=True)]


def _reg_writes(shapes):
    """{register address: [value tokens]} of single-register writes (SX127x: address | 0x80)"""
    out = {}
    for sh in shapes:
        if sh[0] == 'write' and len(sh[1]) == 2 and sh[1][0].startswith('0x'):
            out.setdefault(int(sh[1][0], 16) & 0x7F, []).append(sh[1][1])
    return out


def _byte(tok):
    return int(tok, 16) if isinstance(tok, str) and tok.startswith('0x') else None


# ---------------------------------------------------------------------------------------------- (a) frequency

def frequency(c, res):
    sub = Result(PID)
    c13.freq_formula(c, sub)
    for v in sub.violations:
        res.violation(v['key'].replace('C13:', 'C17:'), v['what'] + ' - rounding to the nearest step is what keeps the decoded frequency within half a step of the request', v.get('site'), 'FORMULA(round to nearest PLL step)')
    if not sub.violations:
        res.ok('FORMULA(round to nearest PLL step)', 'sx126x: |decode(word) - f| <= 0.48 Hz (2^25 steps per 32 MHz, nearest); sx127x: <= 30.6 Hz (2^19 steps, nearest)')
    probes = (0x01020304, 0xA1B2C3D4, 0x00F0E0D0)
    # SX126x: [0x86, s >> 24, s >> 16, s >> 8, s]
    bf = c.bf(c13.CHIPS['sx126x'] + 'set_channel::{closure#0}')
    arr = None
    for b in bf.body.blocks:
        if b.cleanup:
            continue
        for s in b.stmts:
            if s.k == 'assign' and s.rv.k == 'agg' and s.rv.d.get('ak') == 'array' and len(s.rv.ops) == 5:
                arr = [term_of_operand(bf, o) for o in s.rv.ops]
    ok = arr is not None
    why = ''
    if ok:
        conv = rules.find_in_term(arr[4], lambda y: isinstance(y, tuple) and len(y) == 4 and y[0] == 'call' and y[1].endswith('convert_freq_in_hz_to_pll_step'))
        ok = conv is not None
        if ok:
            for pv in probes:
                for i, sh in ((1, 24), (2, 16), (3, 8), (4, 0)):
                    try:
                        got = rules.eval_term(arr[i], {conv: pv})
                    except Exception:
                        got = None
                    if got != (pv >> sh) & 0xFF:
                        ok, why = False, 'byte %d of SetRfFrequency is %s, not bits %d..%d of the PLL word' % (i, term_str(arr[i])[:60], sh + 7, sh)
    res.require(ok, 'C17:sx126x:set_channel:word-placement', 'sx126x set_channel does not hand the PLL word to the chip most significant byte first: %s' % why, bf.body.path,
                'PROVENANCE(word bytes MSB first)', instance='sx126x set_channel: SetRfFrequency(word >> 24, >> 16, >> 8, word) of convert_freq_in_hz_to_pll_step(f)')
    # SX127x: RegFrfMsb / Mid / Lsb
    bf = c.bf(c13.CHIPS['sx127x'] + 'set_channel::{closure#0}')
    regs = {}
    for bb, t in bf.calls():
        if callee_name(t).endswith('write_register') and len(t.args) == 3:
            r = term_of_operand(bf, t.args[1])
            nm = term_str(r)
            regs[nm.split('::')[-1] if '::' in nm else nm] = term_of_operand(bf, t.args[2])
    ok = True
    why = ''
    want = [('RegFrfMsb', 16), ('RegFrfMid', 8), ('RegFrfLsb', 0)]
    got_regs = {k: v for k, v in regs.items() if 'Frf' in k}
    if len(got_regs) != 3:
        ok, why = False, 'registers written: %s' % sorted(regs)
    else:
        conv = None
        for v in got_regs.values():
            conv = conv or rules.find_in_term(v, lambda y: isinstance(y, tuple) and len(y) == 4 and y[0] == 'call' and y[1].endswith('freq_to_pll_step'))
        ok = conv is not None
        for pv in (0x010203, 0xA1B2C3, 0xF0E0D0):
            for name, sh in want:
                key = [k for k in got_regs if name in k]
                try:
                    got = rules.eval_term(got_regs[key[0]], {conv: pv}) if key else None
                except Exception:
                    got = None
                if got != (pv >> sh) & 0xFF:
                    ok, why = False, '%s receives %s, not bits %d..%d of the PLL word' % (name, term_str(got_regs[key[0]])[:60] if key else None, sh + 7, sh)
    res.require(ok, 'C17:sx127x:set_channel:word-placement', 'sx127x set_channel does not write the PLL word to RegFrfMsb/Mid/Lsb: %s' % why, bf.body.path,
                'PROVENANCE(word bytes MSB first)', instance='sx127x set_channel: RegFrfMsb/Mid/Lsb = bytes 2, 1, 0 of freq_to_pll_step(f)')


# ---------------------------------------------------------------------------------------------- (b) TX power

# (variant, tx_boost) -> (lowest, highest output power of the PA path, decode(RegPaConfig, RegPaDac) -> Pout in tenths of a dB)
def _dec_1276_boost(cfg, dac):
    if not cfg & 0x80:
        return None
    return (50 if (dac & 7) == 7 else 20) + 10 * (cfg & 0x0F)


def _dec_1276_rfo(cfg, dac):
    if cfg & 0x80:
        return None
    return 108 + 6 * ((cfg >> 4) & 7) - 150 + 10 * (cfg & 0x0F)


def _dec_1272_boost(cfg, dac):
    if not cfg & 0x80:
        return None
    return (50 if (dac & 7) == 7 else 20) + 10 * (cfg & 0x0F)


def _dec_1272_rfo(cfg, dac):
    if cfg & 0x80:
        return None
    return -10 + 10 * (cfg & 0x0F)


PA_PATHS = {('sx1276', True): (2, 20, _dec_1276_boost, 0x4D), ('sx1276', False): (-4, 14, _dec_1276_rfo, 0x4D),
            ('sx1272', True): (2, 20, _dec_1272_boost, 0x5A), ('sx1272', False): (-1, 14, _dec_1272_rfo, 0x5A)}


def tx_power_sx127x(c, res):
    prog = c.prog
    n = 0
    for (chip, boost), (lo, hi, dec, dac_reg) in sorted(PA_PATHS.items()):
        path = '<%s as %s>::set_tx_power' % (c13.SX127X_VARIANTS[chip], VAR)
        bl = prog.by_short.get(path) or []
        if len(bl) != 1:
            raise CheckError('anchor: %s' % path)
        body = bl[0]
        classes = [((-(2 ** 31), lo - 1), lo)] + [(p, p) for p in range(lo, hi + 1)] + [((hi + 1, 2 ** 31 - 1), hi)]
        bad = []
        for req, want in classes:
            sh = _shapes(prog, body, {'p_out': req, 'tx_boost': boost})
            n += 1
            regs = _reg_writes(sh)
            cfg = [_byte(x) for x in regs.get(0x09, [])]
            dac = [_byte(x) for x in regs.get(dac_reg, [])]
            if len(cfg) != 1 or cfg[0] is None or len(dac) != 1 or dac[0] is None:
                bad.append('request %s: RegPaConfig %s, RegPaDac %s not single constants' % (req, regs.get(0x09), regs.get(dac_reg)))
                continue
            pout = dec(cfg[0], dac[0])
            if pout is None or pout > 10 * want or pout <= 10 * want - 10:
                bad.append('request %s dBm: RegPaConfig 0x%02X, RegPaDac 0x%02X decode to %s dBm, the request clamped into %d..%d dBm is %d dBm' % (
                    req if not isinstance(req, tuple) else ('below %d' % lo if req[1] < lo else 'above %d' % hi), cfg[0], dac[0], None if pout is None else pout / 10.0, lo, hi, want))
        res.require(not bad, 'C17:%s:tx-power:%s' % (chip, 'pa_boost' if boost else 'rfo'), '%s %s: %s' % (chip, 'PA_BOOST' if boost else 'RFO', '; '.join(bad[:3])), path,
                    'DECODE(PA registers -> output power = request clamped, never above)', instance='%s %s: every request decodes to clamp(request, %d, %d) dBm (within -1 dB, never above); %d classes' % (
                        chip, 'PA_BOOST' if boost else 'RFO', lo, hi, len(classes)))
    if n < 70:
        raise CheckError('floor: SX127x power classes analysed %d < 70' % n)


def tx_power_sx126x(c, res):
    prog = c.prog
    lb = prog.by_short.get('lora_phy::sx126x::variant::PaTable::lookup') or []
    if len(lb) != 1:
        raise CheckError('anchor: PaTable::lookup')
    body = lb[0]
    for name in sorted(c13.PA_TABLES):
        tb = prog.by_short.get('lora_phy::sx126x::variant::' + name) or []
        if len(tb) != 1:
            raise CheckError('anchor: %s' % name)
        an0, fr0, out0, tv = tables.run_fn(prog, tb[0])
        min_dbm = tables._single(out0, an0.field_of(tv, 0, 'min_dbm', out0, fr0))
        ent = an0.field_of(tv, 0, 'entries', out0, fr0)
        arr = an0.read_ptr(ent[1], fr0, out0)
        rows = [tuple(tables._single(out0, an0.field_of(arr[2].get(i, arr[3]), 0, f, out0, fr0)) for f in ('max_dbm', 'pa_duty_cycle', 'hp_max', 'tx_params_at_max')) for i in range(arr[1])]
        hi = rows[-1][0]
        classes = [((-(2 ** 31), min_dbm - 1), min_dbm)] + [(p, p) for p in range(min_dbm, hi + 1)] + [((hi + 1, 2 ** 31 - 1), hi)]
        bad = []
        for req, want in classes:
            an = absint_interp.new_analyzer(prog, max_depth=6)

            an.unroll_concrete = True

            def setup(an_, fr, st, req=req):
                # the constant table is evaluated inside this analysis, so that the row storage it points to lives in this state
                st.mem[('obj', 'patable*')] = an_.call_body(tb[0], [], None, st, {})
                st.env[(fr.id, 1)] = ('ref', ('O', 'patable*', ()))
                if isinstance(req, tuple):
                    st.env[(fr.id, 2)] = ('int', Lin.sym('req'))
                    st.lo['req'], st.hi['req'] = req
                else:
                    st.env[(fr.id, 2)] = ('int', Lin.const(req))
            fr, out = an.analyze_entry(body, setup=setup)
            rv = out.env.get((fr.id, 0)) if out is not None else None
            row = pw = None
            if rv is not None and rv[0] == 'tuple':
                e = rv[1][0]
                pw = tables._single(out, rv[1][1])
                if e[0] == 'ref':
                    ev = an.read_ptr(e[1], fr, out)
                    if ev is not None and ev[0] == 'adt':
                        row = tuple(tables._single(out, an.field_of(ev, 0, f, out, fr)) for f in ('max_dbm', 'pa_duty_cycle', 'hp_max', 'tx_params_at_max'))
            if row is None or pw is None or row not in rows:
                bad.append('request %s: row / power not evaluated (%s, %s)' % (req, row, pw))
                continue
            spw = pw - 256 if pw > 127 else pw
            pout = row[0] - (row[3] - spw)
            if pout != want or spw > row[3]:
                bad.append('request %s dBm: row for <= %d dBm with SetTxParams power %d decodes to %d dBm, the clamped request is %d dBm' % (req, row[0], spw, pout, want))
        res.require(not bad, 'C17:sx126x:tx-power:%s' % name, '%s: %s' % (name, '; '.join(bad[:3])), body.path, 'DECODE(PA row + SetTxParams power -> output power = request clamped)',
                    instance='%s: every request decodes to clamp(request, %d, %d) dBm; %d classes' % (name, min_dbm, hi, len(classes)))


# ---------------------------------------------------------------------------------------------- (c), (d) symbol timeouts

def timeout_sx127x(c, res):
    prog = c.prog
    pth = [p for p in prog.by_short if p == 'lora_phy::sx127x::Sx127x::set_lora_symbol_num_timeout' and 'promoted' not in p]
    if len(pth) != 1:
        raise CheckError('anchor: sx127x set_lora_symbol_num_timeout (%d)' % len(pth))
    body = prog.by_short[pth[0]][0]
    for vn, vty in sorted(c13.SX127X_VARIANTS.items()):
        # requests the field can hold: the ten bits written are the ten low bits of the request
        sh = _shapes(prog, body, {'symbol_num': (0, 1023)}, subst={'C': vty})
        regs = _reg_writes(sh)
        lsb = regs.get(0x1F, [])
        msb = regs.get(0x1E, [])
        ok1 = lsb == ['[symbol_num.7 symbol_num.6 symbol_num.5 symbol_num.4 symbol_num.3 symbol_num.2 symbol_num.1 symbol_num.0]'] and \
            msb == ['[R.7 R.6 R.5 R.4 R.3 R.2 symbol_num.9 symbol_num.8]']
        sh2 = _shapes(prog, body, {'symbol_num': (1024, 65535)}, subst={'C': vty})
        regs2 = _reg_writes(sh2)
        ok2 = regs2.get(0x1F) == ['0xFF'] and regs2.get(0x1E) == ['[R.7 R.6 R.5 R.4 R.3 R.2 1 1]']
        res.require(ok1 and ok2, 'C17:%s:symbol-timeout' % vn, '%s symbol timeout: requests 0..1023 write %s / %s (want the request\'s bits 9..8 and 7..0), larger requests write %s / %s (want 1023)' % (
            vn, msb, lsb, regs2.get(0x1E), regs2.get(0x1F)), body.path, 'DECODE(10-bit SymbTimeout = min(request, 1023))', instance='%s: SymbTimeout = request up to 1023, 1023 above: never shorter than requested' % vn)


def timeout_sx126x(c, res):
    prog = c.prog
    pth = [p for p in prog.by_short if p == 'lora_phy::sx126x::Sx126x::set_lora_symbol_num_timeout' and 'promoted' not in p]
    if len(pth) != 1:
        raise CheckError('anchor: sx126x set_lora_symbol_num_timeout (%d)' % len(pth))
    body = prog.by_short[pth[0]][0]
    MAXS = 248
    bad = []
    n = 0
    for req in list(range(0, MAXS + 1)) + [(MAXS + 1, 65535)]:
        sh = _shapes(prog, body, {'symbol_num': req})
        n += 1
        cmd = [x for x in sh if x[0] == 'write' and x[1][0] == '0xA0']
        reg = [x for x in sh if x[0] == 'write' and x[1][:3] == ['0x0D', '0x07', '0x06']]
        val = _byte(cmd[0][1][1]) if len(cmd) == 1 and len(cmd[0][1]) == 2 else None
        want = req if not isinstance(req, tuple) else MAXS
        if val is None:
            bad.append('request %s: SetLoRaSymbNumTimeout byte %s' % (req, cmd))
            continue
        if val < want:
            bad.append('request %s symbols: SetLoRaSymbNumTimeout(%d) is shorter than requested' % (req, val))
        if want > 0:
            rv = _byte(reg[0][1][3]) if len(reg) == 1 else None
            if rv is None or (rv >> 3) << (2 * (rv & 7) + 1) != val:
                bad.append('request %s symbols: register 0x0706 = %s decodes to %s symbols, the command byte says %d' % (req, reg[0][1][3] if reg else None, None if rv is None else (rv >> 3) << (2 * (rv & 7) + 1), val))
    if n < 250:
        raise CheckError('floor: SX126x timeout classes %d < 250' % n)
    res.require(not bad, 'C17:sx126x:symbol-timeout', 'sx126x symbol timeout: %s' % '; '.join(bad[:3]), body.path, 'DECODE(SymbNum byte >= min(request, 248); mantissa/exponent register agrees)',
                instance='sx126x: for each request 0..248 and the class above, the timeout programmed is at least min(request, 248) symbols and register 0x0706 decodes to the same value')


def run(tier):
    res = Result(PID)
    c = ctx('ws')
    frequency(c, res)
    tx_power_sx127x(c, res)
    tx_power_sx126x(c, res)
    timeout_sx127x(c, res)
    timeout_sx126x(c, res)
    res.coverage.update({'configs': [c.info], 'clauses_decided': ['frequency word', 'TX power (SX127x registers, SX126x PA table lookup)', 'symbol timeout SX127x', 'symbol timeout SX126x'],
                         'clauses_not_decided': ['millisecond-to-symbol conversion of the LoRaWAN adapter', 'RSSI / SNR conversions within 1 dB']})
    res.explanation = __doc__
    res.assumptions = ['data-sheet decode formulas frozen in lrs/props/c17.py (SX1276/77/78/79 rev 7 ch. 5.4.2-5.4.3, SX1272/73 rev 4, SX1261/2 rev 2.1 ch. 13.1.14 / 13.4.4 / 13.4.9)',
                       'SX126x PA tables are the data-sheet rows (decided by C13)', 'the chip applies a register value as the data sheet says']
    return res
