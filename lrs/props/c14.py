"""C14 — the PHY driver and the radio chip never disagree about the radio's state (typestate rules on the driver).

Analysed on the generic async bodies of LoRa<RK, DLY> (the chip-independent layer) and of the LoRaWAN radio adapter.
Chip commands are the calls of RadioKind methods other than the pure create_* constructors. Rules:
R1 gate - in the mode-gated operations every chip command lies behind the test of radio_mode against the required
mode, so a call in the wrong mode returns InvalidRadioMode without commanding the chip;
R2 wake - on every path of every public operation the first chip command is ensure_ready(radio_mode) (directly or
through prepare_modem), unless the operation is gated on a mode in which the chip cannot be asleep;
R3 re-programming - cold_start is raised by init and by sleep(cold) only and cleared only at the end of
do_cold_start after init_lora, set_tx_power_and_ramp_time and set_irq_params; every prepare_* operation runs
prepare_modem first (which performs the cold start when raised) and programs its full parameter set before it
returns Ok; only the prepare_* family (and listen / continuous_wave) selects an operating mode;
R4 errors - at every error exit reached after a command that takes the chip out of standby, or after radio_mode was
given an operating value, the path has passed set_standby followed by radio_mode = Standby (so the chip is in standby
and the driver knows it); R4' an operating mode is recorded only after the last fallible programming step;
R5 adapter - the LoRaWAN adapter receives only after setup_rx stored the parameters and its low_power is a cold sleep.
Chip-side behaviour and cancellation of dropped futures are not decided."""
import re
from ..runner import Result, CheckError
from .. import rules, flow
from ..rules import param_by_name, term_of_operand, term_str, callee_name, path_conditions, cond_true, cond_false
from ..flow import term_contains
from ..layout import peel
from .common import ctx, short_site
from .c11 import is_call, has_call, field_path

PID = 'C14'
L = 'lora_phy::LoRa::'
RK = 'lora_phy::mod_traits::RadioKind'
PURE = {'create_modulation_params', 'create_packet_params'}
# commands after which the chip is (or may be) out of standby
LEAVES_STANDBY = {'do_tx', 'do_rx', 'do_cad', 'set_tx_continuous_wave_mode', 'set_sleep'}
OPERATING = {'Transmit', 'Receive', 'ChannelActivityDetection', 'Listen'}
# public operations and the mode they are gated on (None: not gated)
GATED = {'tx': 'Transmit', 'start_rx': 'Receive', 'complete_rx': 'Receive', 'get_rx_result': 'Receive', 'rx_switch_channel': 'Receive', 'cad': 'ChannelActivityDetection'}
# modes in which the chip cannot be asleep (Receive includes duty-cycle reception, where it sleeps between windows)
AWAKE_MODES = {'Transmit', 'ChannelActivityDetection'}
# reasoned exceptions to R2 (one symbol each)
R2_EXCEPTIONS = {
    'wait_for_irq': 'waits for the DIO line; no SPI transaction',
    'process_irq_event': 'called after an interrupt: the chip raised DIO, so it is awake (documented: not for use outside the IRQ flow)',
    'get_irq_state': 'IRQ helper of the same flow as process_irq_event',
    'clear_irq_status': 'IRQ helper of the same flow as process_irq_event',
    'complete_rx': 'starts with process_irq_event of the reception started by start_rx: the radio is in RX (duty-cycle: woken by the IRQ it waits for)',
    'get_rx_result': 'documented to be called after IrqState::Done of this reception',
    'get_rssi': 'meaningful only while listening (chip in RX)',
    'start_rx': 'follows prepare_for_rx, which records Receive with the chip in standby (awake); restarting a running duty-cycle reception goes through rx_switch_channel / prepare_for_rx, which wake the chip',
    'rx': 'start_rx followed by complete_rx (see start_rx)',
}
# reasoned exceptions to R4: (operation, failing call) -> reason
R4_EXCEPTIONS = {
    ('complete_rx', 'get_rx_payload'): 'the reception has completed (IrqState::Done): a single reception has returned the chip to standby by itself; the failure is about the caller\'s buffer, radio_mode = Receive makes the next prepare_* force standby',
    ('complete_rx', 'get_rx_packet_status'): 'as get_rx_payload: after IrqState::Done',
    ('get_rx_result', 'get_rx_payload'): 'documented to be called after IrqState::Done of this reception (chip back in standby for single reception)',
    ('get_rx_result', 'get_rx_packet_status'): 'as get_rx_payload',
    ('complete_rx', 'explicit'): 'continuous reception is deliberately left running when an error is reported (documented: the caller decides whether to keep receiving); every other mode forces standby before this return',
}
PREPARE = {'prepare_for_tx': ('Transmit', {'set_modulation_params', 'set_tx_power_and_ramp_time', 'set_packet_params', 'set_channel', 'set_payload', 'set_irq_params'}),
           'prepare_for_rx': ('Receive', {'set_modulation_params', 'set_packet_params', 'set_channel', 'set_irq_params'}),
           'prepare_for_cad': ('ChannelActivityDetection', {'set_modulation_params', 'set_channel', 'set_irq_params'}),
           'listen': ('Listen', {'set_channel', 'set_modulation_params', 'do_rx'}),
           'continuous_wave': ('Transmit', {'set_packet_params', 'set_modulation_params', 'set_tx_power_and_ramp_time', 'set_channel', 'set_irq_params', 'set_tx_continuous_wave_mode'})}


def op_body(c, name):
    """the coroutine body of an async LoRa method, or the plain body"""
    for p in (L + name + '::{closure#0}', L + name):
        bl = c.prog.by_short.get(p) or []
        if len(bl) == 1 and (bl[0].coroutine or '{closure' in p or not (c.prog.fns.get(bl[0].raw_path) or {}).get('async')):
            return c.pf.bf(bl[0])
    raise CheckError('anchor: LoRa::%s' % name)


class Events:
    """per block: ordered events ('cmd', name) | ('call', LoRa method) | ('mode', variant or '?') | ('cold', bool) of one body"""

    def __init__(self, c, bf):
        self.bf = bf
        self.ev = {}
        body = bf.body
        for b in body.blocks:
            if b.cleanup or b.idx not in bf.cfg.reach:
                continue
            evs = []
            for si, s in enumerate(b.stmts):
                if s.k != 'assign' or not s.lhs.proj:
                    continue
                root, path = bf.root_of_place(s.lhs)
                if path[-1:] == ['radio_mode']:
                    v = peel(term_of_operand(bf, s.rv.ops[0])) if s.rv.k == 'use' else None
                    if s.rv.k == 'agg':
                        name = s.rv.d.get('variant')
                    elif v is not None and v[0] == 'agg':
                        name = v[1].split('::')[-1]
                    elif v is not None and is_call(v, 'Into::into'):
                        name = 'Receive'       # RxMode -> RadioMode::Receive(_)
                    else:
                        name = '?'
                    evs.append(('mode', name, si))
                elif path[-1:] == ['cold_start']:
                    v = term_of_operand(bf, s.rv.ops[0]) if s.rv.k == 'use' else None
                    evs.append(('cold', v == ('const', 1) or v == ('const', True), si))
            t = b.term
            if t.k == 'call' and t.func is not None and t.func.const is not None:
                cc = t.func.const
                if cc.get('trait') == RK:
                    nm = cc['fn'].split('::')[-1]
                    if nm not in PURE:
                        evs.append(('cmd', nm, None))
                else:
                    cn = callee_name(t) or ''
                    if cn.startswith(L) and '{closure' not in cn:
                        evs.append(('call', cn[len(L):], None))
            self.ev[b.idx] = evs

    def all(self, kind):
        return [(bb, e) for bb, evs in sorted(self.ev.items()) for e in evs if e[0] == kind]


def first_command_summary(c, cache, name, depth=0):
    """set of possible first chip commands of a LoRa operation ('-' = may return without any command)"""
    if name in cache:
        return cache[name]
    cache[name] = {'?'}
    bf = op_body(c, name)
    ev = Events(c, bf)
    out = set()

    def node(bb, v):
        if v != 'none':
            return v
        for e in ev.ev.get(bb, []):
            if e[0] == 'cmd':
                return 'cmd:' + e[1]
            if e[0] == 'call' and depth < 4:
                sub = first_command_summary(c, cache, e[1], depth + 1)
                firsts = sub - {'-'}
                if firsts:
                    # (if the callee may also do nothing we continue as 'none' on that alternative: approximated by taking its commands)
                    return 'cmd:' + sorted(firsts)[0] if len(firsts) == 1 and '-' not in sub else 'multi:' + ','.join(sorted(sub))
        return v
    st = rules.forward_may(bf, [0], ['none'], node_fn=node)
    for b in bf.body.blocks:
        if b.cleanup or b.idx not in bf.cfg.reach:
            continue
        if b.term.k == 'return':
            for v in st.get(b.idx, set()):
                v2 = node(b.idx, v)
                out.add('-' if v2 == 'none' else v2)
        for v in st.get(b.idx, set()):
            v2 = node(b.idx, v)
            if v2 != 'none':
                out.add(v2)
    res = set()
    for v in out:
        if v.startswith('cmd:'):
            res.add(v[4:])
        elif v.startswith('multi:'):
            res.update(v[6:].split(','))
        else:
            res.add(v)
    cache[name] = res
    return res


def gate_variant(c, bf, conds, want):
    """is one of the path conditions the test `radio_mode is <want>`?"""
    rm = rules.variants_of(c.prog, 'mod_params::RadioMode')
    conds = list(conds)
    for cnd in list(conds):
        # a `matches!(self.radio_mode, Mode(..))` flag that is known true stands for the discriminant test it was set under
        fm = rules.flag_meaning(bf, cnd)
        if fm is not None and fm[0]:
            conds += list(fm[1])
    for cnd in conds:
        t = cnd[0]
        if t[0] == 'discr' and field_path(t[1])[1][-1:] == ['radio_mode'] and cnd[1] == (rm[want],):
            return True
        if is_call(t, 'PartialEq>::eq') and cond_true(cnd) and any(field_path(a)[1][-1:] == ['radio_mode'] for a in t[2]):
            return True
    return False


def run(tier):
    res = Result(PID)
    c = ctx('ws')
    prog = c.prog
    ops = sorted({p[len(L):].split('::')[0] for p in prog.by_short if p.startswith(L) and 'promoted' not in p})
    public = [o for o in ops if o not in ('with_syncword_raw', 'do_cold_start', 'prepare_modem', 'create_modulation_params', 'create_tx_packet_params', 'create_rx_packet_params',
                                          'new', 'with_syncword')]
    if len(public) < 20:
        raise CheckError('floor: LoRa operations %d < 20' % len(public))
    n_cmd = 0
    # ------------------------------------------------------------------ R1 gate
    for name, want in sorted(GATED.items()):
        bf = op_body(c, name)
        ev = Events(c, bf)
        cmds = ev.all('cmd') + ev.all('call')
        if not cmds:
            raise CheckError('anchor: LoRa::%s has no chip command' % name)
        for bb, e in cmds:
            n_cmd += 1
            res.require(gate_variant(c, bf, path_conditions(bf, bb), want), 'C14:%s:ungated:%s' % (name, e[1]),
                        '%s commands the chip (%s) on a path that has not tested radio_mode == %s' % (name, e[1], want), short_site(bf, bb), 'DOM(mode gate => command)',
                        instance='%s: %s only in mode %s' % (name, e[1], want))
        # the refused arm returns InvalidRadioMode
        inv = [s for b in bf.body.blocks if not b.cleanup and b.idx in bf.cfg.reach for s in b.stmts if s.k == 'assign' and s.rv.k == 'agg' and s.rv.d.get('variant') == 'InvalidRadioMode']
        res.require(len(inv) >= 1, 'C14:%s:refusal' % name, '%s has no InvalidRadioMode refusal' % name, bf.body.path, 'SHAPE(else => InvalidRadioMode)', instance='%s: wrong mode => InvalidRadioMode' % name)
    # ------------------------------------------------------------------ R2 wake before the first command
    cache = {}
    for name in public:
        firsts = first_command_summary(c, cache, name) - {'-'}
        if not firsts:
            continue
        if name in GATED and GATED[name] in AWAKE_MODES:
            res.ok('WAKE(gated on an awake mode)', '%s: gated on %s, in which the chip is awake' % (name, GATED[name]))
            continue
        bad = sorted(f for f in firsts if f not in ('ensure_ready', 'reset'))
        if name in R2_EXCEPTIONS and bad:
            res.ok('WAKE(reasoned exception)', '%s: first command %s - %s' % (name, bad, R2_EXCEPTIONS[name]))
            continue
        res.require(not bad, 'C14:%s:command-without-wake' % name, '%s may command the chip (%s) without ensure_ready(radio_mode) first: a sleeping chip (Sleep, or duty-cycle reception) is addressed without being woken' % (name, bad),
                    L + name, 'FIRST-COMMAND(ensure_ready)', instance='%s: first chip command is ensure_ready' % name)
    # ------------------------------------------------------------------ R3 re-programming
    ws = c.pf.writers_of_field('lora_phy::LoRa', 'cold_start', crates={'lora_phy'})
    raised, cleared = {}, {}
    for body_, bb, si, s, kind in ws:
        fn = body_.path[len(L):].split('::')[0] if body_.path.startswith(L) else body_.path
        if kind == 'construct':
            continue
        v = term_of_operand(c.pf.bf(body_), s.rv.ops[0]) if s.rv.k == 'use' else None
        (raised if v in (('const', 1), ('const', True)) else cleared).setdefault(fn, []).append((body_, bb, si))
    res.require(set(raised) == {'init', 'sleep'}, 'C14:cold_start:raisers', 'cold_start is raised by %s (expected init and sleep)' % sorted(raised), 'LoRa.cold_start', 'WHO-WRITES(cold_start = true)',
                instance='cold_start raised only by init and sleep(cold)')
    res.require(set(cleared) == {'do_cold_start'}, 'C14:cold_start:clearers', 'cold_start is cleared by %s (expected do_cold_start only)' % sorted(cleared), 'LoRa.cold_start', 'WHO-WRITES(cold_start = false)',
                instance='cold_start cleared only by do_cold_start')
    if 'do_cold_start' in cleared:
        body_, bb, si = cleared['do_cold_start'][0]
        bf = c.pf.bf(body_)
        ev = Events(c, bf)
        need = {'init_lora', 'set_tx_power_and_ramp_time', 'set_irq_params'}
        # must-pass-through: each needed command's Ok edge dominates the clearing store
        got = set()
        for cb, e in ev.all('cmd'):
            if e[1] in need and bf.cfg.dominates(cb, bb):
                got.add(e[1])
        res.require(got == need, 'C14:do_cold_start:incomplete', 'cold_start is cleared without %s having succeeded' % sorted(need - got), short_site(bf, bb, si), 'MPT(full cold start => cold_start = false)',
                    instance='do_cold_start: init_lora, set_tx_power_and_ramp_time, set_irq_params all precede cold_start = false')
    # sleep: cold sleep raises cold_start
    bf = op_body(c, 'sleep')
    st = [(bb, si) for bb, si, s, root, path in bf.field_writes() if path[-1:] == ['cold_start']]
    okc = len(st) == 1
    if okc:
        conds = path_conditions(bf, st[0][0])
        # the coroutine keeps `warm_start_if_possible` as its captured field .1; the store is on its false edge, after set_sleep succeeded
        okc = any(cond_false(x) and peel(x[0])[0] == 'field' and peel(x[0])[2] == '1' and peel(peel(x[0])[1]) == ('param', 1) for x in conds) and \
            any(has_call(x[0], 'set_sleep') for x in conds)
    res.require(okc, 'C14:sleep:cold-start-flag', 'a cold sleep does not raise cold_start', bf.body.path, 'DOM(!warm => cold_start = true)', instance='sleep(cold): cold_start = true')
    # prepare_modem: performs the cold start when raised, after waking/standby
    bf = op_body(c, 'prepare_modem')
    ev = Events(c, bf)
    calls = [(bb, e) for bb, e in ev.all('call') if e[1] == 'do_cold_start']
    okm = len(calls) == 1
    if okm:
        conds = path_conditions(bf, calls[0][0])
        okm = any(cond_true(x) and field_path(x[0])[1][-1:] == ['cold_start'] for x in conds)
        # and nothing else guards it
        extra = [x for x in conds if not (field_path(x[0])[1][-1:] == ['cold_start'] or (x[0][0] == 'discr' and (is_call(x[0][1], 'Try::branch') or rules.is_poll_term(peel(x[0][1])))) or
                                          is_call(x[0], 'PartialEq>::ne') or is_call(x[0], 'PartialEq>::eq'))]
        okm = okm and not extra
    res.require(okm, 'C14:prepare_modem:cold-start', 'prepare_modem does not run do_cold_start exactly when cold_start is raised', bf.body.path, 'EXACT-GUARD(cold_start <=> do_cold_start)',
                instance='prepare_modem: if cold_start { do_cold_start() }')
    mode_setters = {}
    for name in ops:
        try:
            bf = op_body(c, name)
        except CheckError:
            continue
        ev = Events(c, bf)
        for bb, e in ev.all('mode'):
            mode_setters.setdefault(e[1], set()).add(name)
    for m in sorted(OPERATING):
        allowed = {n for n, (mm, _) in PREPARE.items() if mm == m}
        if m == 'Receive':
            allowed.add('rx_switch_channel')     # restores the mode it was gated on, after a successful do_rx
        got = mode_setters.get(m, set())
        res.require(got <= allowed and got, 'C14:who-writes:radio_mode=%s' % m, 'radio_mode = %s is assigned by %s (allowed: %s)' % (m, sorted(got), sorted(allowed)), 'LoRa.radio_mode',
                    'WHO-WRITES(radio_mode = %s)' % m, instance='radio_mode = %s only by %s' % (m, sorted(got)))
    for name, (mode, need) in sorted(PREPARE.items()):
        bf = op_body(c, name)
        ev = Events(c, bf)
        # prepare_modem is the first event
        firsts = first_command_summary(c, cache, name) - {'-'}
        pm = [bb for bb, e in ev.all('call') if e[1] == 'prepare_modem']
        res.require(len(pm) == 1 and all(bf.cfg.dominates(pm[0], bb) for bb, e in ev.all('cmd')), 'C14:%s:prepare_modem-first' % name, '%s does not start with prepare_modem' % name, bf.body.path,
                    'DOM(prepare_modem => every command)', instance='%s: prepare_modem (wake, standby, cold start, image calibration) precedes every command' % name)
        # every Ok return has passed all needed programming commands
        oks = [b.idx for b in bf.body.blocks if not b.cleanup and b.idx in bf.cfg.reach for s in b.stmts
               if s.k == 'assign' and s.lhs.local == 0 and not s.lhs.proj and ((s.rv.k == 'agg' and s.rv.d.get('variant') == 'Ok'))]
        tail_ok = [bb for bb, e in ev.all('cmd') if any(True for _ in [0])]
        cmds = ev.all('cmd')
        missing = set()
        ok_sites = oks
        if not ok_sites:
            # the last command's result is returned as is (`.await` of the final call)
            ok_sites = [max(bb for bb, e in cmds)] if cmds else []
        for ob in ok_sites:
            got = {e[1] for bb, e in cmds if bf.cfg.dominates(bb, ob) or bb == ob}
            missing |= (need - got)
        res.require(not missing and ok_sites, 'C14:%s:incomplete-programming' % name, '%s can return Ok without %s' % (name, sorted(missing)), bf.body.path, 'MPT(programming set => Ok)',
                    instance='%s: Ok only after %s' % (name, sorted(need)))
        # R4': the operating mode is recorded after the last fallible step
        ms = [(bb, e) for bb, e in ev.all('mode') if e[1] == mode]
        for bb, e in ms:
            later = sorted({e2[1] for b2, e2 in cmds if b2 != bb and bf.cfg.dominates(bb, b2)} | {e2[1] for b2, e2 in cmds if b2 == bb})
            later = [x for x in later if x not in ('ensure_ready',)]
            res.require(not later, 'C14:%s:mode-recorded-before-last-fallible-step' % name,
                        '%s records radio_mode = %s before %s: if that step fails the driver believes the radio is prepared (the mode gate of the next operation passes) although programming is incomplete' % (name, mode, later),
                        short_site(bf, bb, e[2]), 'ORDER(last fallible step => mode)', instance='%s: radio_mode = %s recorded after the last fallible step' % (name, mode))
    # ------------------------------------------------------------------ R4 error exits
    # abstract path state = (belief, chip): belief in {standby, sleep, op:<mode>, entry}; chip in {standby, out:<cmd>}.
    # At an error exit the dangerous disagreements are
    #   D1  belief standby/sleep while the chip may be out of standby (the next prepare_* would skip set_standby);
    #   D2  belief = an operating mode that this very operation recorded although it then failed (handled by R4' above);
    # an operating belief carried in from the gate (tx/cad/complete_rx ...) together with a failed recovery is reported as
    #   D3  the operation failed, the chip may be out of standby, and no set_standby + radio_mode = Standby was reached
    # except when the failing call IS the recovery (ensure_ready / set_standby of the recovery sequence): a bus that is still
    # failing cannot be commanded into standby; radio_mode keeps the operating value, so the next prepare_* forces standby.
    n_err = 0
    recovery_excused = []
    sum_cache = {}

    def make_node(ev, depth):
        def node(bb, v):
            vals = {v}
            for e in ev.ev.get(bb, []):
                nxt = set()
                for (belief, chip, prev) in vals:
                    if e[0] == 'cmd' and e[1] in LEAVES_STANDBY:
                        prev = chip
                        chip = 'out:' + e[1]
                    elif e[0] == 'cmd' and e[1] == 'set_standby':
                        chip = 'standby'
                    elif e[0] == 'cmd' and e[1] == 'reset':
                        chip = 'standby'
                    elif e[0] == 'mode':
                        belief = 'standby' if e[1] == 'Standby' else 'sleep' if e[1] == 'Sleep' else ('op:' + e[1])
                    elif e[0] == 'call' and e[1] == 'start_rx':
                        prev = chip
                        chip = 'out:do_rx'
                    elif e[0] == 'call' and e[1] in ('prepare_modem',):
                        belief, chip = 'standby', 'standby'
                    elif e[0] == 'call' and depth < 3:
                        # any other operation of the driver called from this one: its effect on (belief, chip) along its successful returns
                        outs = ok_summary(e[1], (belief, chip, prev), depth + 1)
                        if outs:
                            nxt |= outs
                            continue
                    nxt.add((belief, chip, prev))
                vals = nxt
            return frozenset(vals) if len(vals) != 1 else next(iter(vals))
        return node

    def ok_summary(callee, v, depth):
        key = (callee, v)
        if key in sum_cache:
            return sum_cache[key]
        sum_cache[key] = frozenset()
        try:
            bf2 = op_body(c, callee)
        except CheckError:
            return frozenset()
        ev2 = Events(c, bf2)
        if not ev2.all('cmd') and not ev2.all('call') and not ev2.all('mode'):
            sum_cache[key] = frozenset([v])
            return sum_cache[key]
        node2_ = make_node(ev2, depth)
        errb = {ex['bb'] for ex in rules.err_exits(bf2)}
        st2_ = rules.forward_may(bf2, [0], [v], node_fn=node2_, edge_fn=lambda u, w, val: None if u in errb else val)
        outs = set()
        for b in bf2.body.blocks:
            if b.cleanup or b.idx not in bf2.cfg.reach or b.term.k != 'return':
                continue
            for x in st2_.get(b.idx, set()):
                r = node2_(b.idx, x)
                outs |= r if isinstance(r, frozenset) else {r}
        sum_cache[key] = frozenset(outs)
        return sum_cache[key]

    def is_recovery_call(nm):
        """an operation that only wakes the chip and forces standby (enter_standby and the like): failing inside it is failing in the recovery"""
        try:
            ev2 = Events(c, op_body(c, nm))
        except CheckError:
            return False
        cmds_ = {e[1] for bb, e in ev2.all('cmd')}
        return bool(cmds_) and cmds_ <= {'ensure_ready', 'set_standby'} and not ev2.all('call')
    for name in public + ['prepare_modem', 'do_cold_start']:
        bf = op_body(c, name)
        ev = Events(c, bf)
        if not ev.all('cmd') and not ev.all('call'):
            continue
        node = make_node(ev, 0)

        def edge(u, v_, val):
            # a set_standby / command that failed did not change the chip: handled by keeping the pre-state on `?` error edges
            return val
        if name in GATED:
            init = ('op:' + GATED[name], 'out:gate' if GATED[name] in ('Receive',) else 'standby', 'standby')
        else:
            init = ('entry', 'standby', 'standby')
        st = rules.forward_may(bf, [0], [init], node_fn=node)
        # the state *before* the failing call is what holds on its error edge
        pre = {}
        for b in bf.body.blocks:
            if b.cleanup or b.idx not in bf.cfg.reach:
                continue
            pre[b.idx] = st.get(b.idx, set())
        for ex in rules.err_exits(bf):
            src = ex['source'] if isinstance(ex['source'], str) else str(ex['source'])
            short_src = src.split('::')[-1]
            if src == 'explicit' and name in GATED and not gate_variant(c, bf, path_conditions(bf, ex['bb']), GATED[name]):
                continue
            n_err += 1
            # state on reaching the exit block (the failing call already ran in a dominating block: undo its effect when it is a command that failed)
            vals = set()
            for v in st.get(ex['bb'], set()):
                # the failing call itself was not carried out by the chip (bus fault before delivery): the chip is as before it
                if v[1] == 'out:' + short_src or (short_src == 'start_rx' and v[1] == 'out:do_rx'):
                    v = (v[0], v[2], v[2])
                vals.add((v[0], v[1]))
            key = 'C14:%s:err-exit:%s#%d' % (name, short_src, ex['ord'])
            if (name, short_src) in R4_EXCEPTIONS:
                res.ok('TYPESTATE(reasoned exception)', '%s: error exit %s#%d - %s' % (name, short_src, ex['ord'], R4_EXCEPTIONS[(name, short_src)]))
                continue
            d1 = sorted(v for v in vals if v[0] in ('standby', 'sleep') and v[1].startswith('out') and not v[1].endswith(short_src))
            recovery = short_src in ('ensure_ready', 'set_standby') or is_recovery_call(short_src)
            d3 = sorted(v for v in vals if v[0].startswith('op:') and v[1].startswith('out') and not recovery)
            if recovery and any(v[0].startswith('op:') for v in vals):
                recovery_excused.append(key)
            res.require(not d1, key + ':believes-standby', '%s can fail (%s) leaving radio_mode = standby/sleep while the chip may be out of standby %s' % (name, src, d1), short_site(bf, ex['bb']),
                        'TYPESTATE(no standby belief with the chip out of standby)', instance='%s: error exit %s#%d never leaves a standby belief with the chip out of standby' % (name, short_src, ex['ord']))
            res.require(not d3, key, '%s can fail (%s) after the chip left standby %s without set_standby + radio_mode = Standby on this path: the chip is not left in standby and the driver does not record it' % (
                name, src, d3), short_site(bf, ex['bb']), 'TYPESTATE(error exit => standby forced and recorded)', instance='%s: error exit %s#%d forces and records standby' % (name, short_src, ex['ord']))
    res.coverage['recovery_failures_excused'] = recovery_excused
    # R4'' every successful set_standby is recorded: after the command, radio_mode = Standby is the next mode event and is
    # reached before the operation returns normally
    n_sb = 0
    for name in public + ['prepare_modem']:
        bf = op_body(c, name)
        ev = Events(c, bf)
        if not [1 for bb, e in ev.all('cmd') if e[1] == 'set_standby']:
            continue

        def node2(bb, v):
            for e in ev.ev.get(bb, []):
                if e[0] == 'cmd' and e[1] == 'set_standby':
                    v = 'pending'
                elif e[0] == 'mode' and v == 'pending':
                    v = 'recorded' if e[1] == 'Standby' else 'wrong:' + e[1]
            return v
        err_blocks = {ex['bb'] for ex in rules.err_exits(bf)}
        st2 = rules.forward_may(bf, [0], ['none'], node_fn=node2, edge_fn=lambda u, v_, val: None if u in err_blocks else val)
        bad = []
        for b in bf.body.blocks:
            if b.cleanup or b.idx not in bf.cfg.reach or b.term.k != 'return':
                continue
            for pb in bf.cfg.pred[b.idx] + [b.idx]:
                if pb in err_blocks:
                    continue
                for v in st2.get(pb, set()):
                    v2 = node2(pb, v)
                    if v2 == 'pending' or v2.startswith('wrong'):
                        bad.append((pb, v2))
        n_sb += 1
        res.require(not bad, 'C14:%s:standby-not-recorded' % name, '%s can return normally after set_standby without recording radio_mode = Standby (%s): the chip is in standby while the driver believes otherwise' % (name, sorted(set(bad))[:3]),
                    bf.body.path, 'TYPESTATE(set_standby => radio_mode = Standby)', instance='%s: every successful set_standby is recorded in radio_mode' % name)
    if n_sb < 6:
        raise CheckError('floor: operations with set_standby %d < 6' % n_sb)
    if n_err < 40:
        raise CheckError('floor: error exits analysed %d < 40' % n_err)
    if n_cmd < 10:
        raise CheckError('floor: gated commands %d < 10' % n_cmd)
    # ------------------------------------------------------------------ R5 adapter
    AD = '<lora_phy::lorawan_radio::LorawanRadio<RK, DLY, P, G> as lorawan_device::async_device::radio::PhyRxTx>::'
    for m in ('rx_single', 'rx_continuous'):
        bl = prog.by_short.get(AD + m + '::{closure#0}') or []
        if len(bl) != 1:
            raise CheckError('anchor: adapter %s' % m)
        bf = c.pf.bf(bl[0])
        cmds = [(bb, t) for bb, t in bf.calls() if (callee_name(t) or '').startswith(L)]
        nor = [s for b in bf.body.blocks if not b.cleanup for s in b.stmts if s.k == 'assign' and s.rv.k == 'agg' and s.rv.d.get('variant') == 'NoRxParams']
        okg = bool(cmds)
        for bb, t in cmds:
            conds = path_conditions(bf, bb)

            def params_present(x):
                # `if let Some(p) = &self.rx_pkt_params`, or `self.rx_pkt_params.as_ref().ok_or(NoRxParams)?` (Continue edge of the `?`)
                ts_ = term_str(x[0])
                if x[0][0] != 'discr' or 'rx_pkt_params' not in ts_:
                    return False
                if 'branch(' in ts_:
                    return 'ok_or' in ts_ and 'NoRxParams' in ts_ and x[1] in ((0,), ('not', (1,)))
                return x[1] in ((1,), ('not', (0,)))
            okg = okg and any(params_present(x) for x in conds)
            nor = nor or [x for x in conds if 'NoRxParams' in term_str(x[0])]
        okg = okg and bool(nor)
        res.require(okg, 'C14:adapter:%s:needs-setup_rx' % m, '%s drives the radio without the parameters stored by setup_rx' % m, bf.body.path, 'DOM(rx parameters present => receive)',
                    instance='adapter %s: refused with NoRxParams unless setup_rx stored the parameters' % m)
    bl = prog.by_short.get(AD + 'low_power::{closure#0}') or []
    if len(bl) == 1:
        bf = c.pf.bf(bl[0])
        sl = [(bb, t) for bb, t in bf.calls() if (callee_name(t) or '') == L + 'sleep']
        res.require(len(sl) == 1 and term_of_operand(bf, sl[0][1].args[1]) in (('const', 0), ('const', False)), 'C14:adapter:low_power', 'low_power is not a cold sleep', bf.body.path, 'SHAPE(sleep(false))',
                    instance='adapter low_power: sleep(cold) => cold start before the next operation')
    res.coverage.update({'r4_exceptions': {'%s/%s' % k: v for k, v in R4_EXCEPTIONS.items()}, 'operations': public, 'error_exits': n_err, 'gated_commands': n_cmd, 'first_commands': {k: sorted(v) for k, v in sorted(cache.items())}, 'r2_exceptions': R2_EXCEPTIONS,
                         'configs': [c.info]})
    res.explanation = __doc__
    res.assumptions = ['what the silicon does with a command in a given mode is not modelled; LEAVES_STANDBY = %s' % sorted(LEAVES_STANDBY),
                       'dropping a future at an await point is not analysed (documented non-cancellable operations)']
    return res
