"""C06 — uplink frame counters never repeat within a session (structural part).

Decides on MIR: (a) the complete set of writers of Session.fcnt_up (new = 0; +1 in handle_rx's accept path
and in rx2_complete, each behind the `== 0xFFFF_FFFF` test whose other edge reports SessionExpired);
(b) prepare_buffer hands the full 32-bit self.fcnt_up to the frame builder and returns it;
(c) NO-REUSE as must-pass-through: between a frame handed to the radio and the next point where a new frame
can be prepared there is a counter increment on every path - in the async front-end every exit of
send/rx_downlink/rx_listen after the transmission, in the non-blocking front-end every transition back to
Idle. Exits without an increment are reported one by one (keys name the function and the failing callee)."""
from ..runner import Result, CheckError
from .. import rules, flow
from ..rules import (param_by_name, one_call, term_of_operand, term_of_local, term_of_place, term_str, callee_name, err_exits,
                     forward_may, variant_discr)
from ..flow import term_contains
from .common import ctx, short_site, is_session_replacement, SESSION_REPLACERS

PID = 'C06'
MAXC = 0xFFFFFFFF


def increments(c, res, fn):
    """check the +1 stores to self.fcnt_up in `fn`: value, guard, other edge; returns list of store blocks"""
    bf = c.bf(fn)
    body = bf.body
    self_ = param_by_name(body, 'self')
    short = '::'.join(fn.split('::')[-2:])
    stores = [(bb, si, s) for bb, si, s, root, path in bf.field_writes() if root == self_ and path == ['fcnt_up']]
    if len(stores) != 1:
        raise CheckError('expected exactly one store to self.fcnt_up in %s, found %d' % (fn, len(stores)))
    bb, si, s = stores[0]
    v = term_of_operand(bf, s.rv.ops[0])
    cur = ('field', ('deref', ('param', self_)), 'fcnt_up')
    res.require(v == ('Add', cur, ('const', 1)), 'C06:%s:increment-value' % short, 'fcnt_up is not incremented by exactly one: %s' % term_str(v),
                short_site(bf, bb, si), 'SHAPE(fcnt_up += 1)', instance='%s: fcnt_up = fcnt_up + 1' % short)
    # guard: false edge of Eq(self.fcnt_up, 0xFFFF_FFFF)
    guard_edges = []
    exp_edges = []
    for b in body.blocks:
        t = b.term
        if b.cleanup or t.k != 'switch' or t.discr.place is None or not t.discr.place.is_local():
            continue
        tt = term_of_local(bf, t.discr.place.local)
        if tt in (('Eq', cur, ('const', MAXC)), ('Eq', ('const', MAXC), cur)):
            for val, tgt in t.targets:
                if val == 0:
                    guard_edges.append((b.idx, tgt))
            exp_edges.append((b.idx, t.otherwise))
        elif tt in (('Ne', cur, ('const', MAXC)), ('Lt', cur, ('const', MAXC))):
            for val, tgt in t.targets:
                if val == 0:
                    exp_edges.append((b.idx, tgt))
            guard_edges.append((b.idx, t.otherwise))
    res.require(bool(guard_edges) and bf.guarded_by_edges(bb, guard_edges), 'C06:%s:increment-unguarded' % short,
                'fcnt_up increment not guarded by the exhaustion test (would wrap or panic)', short_site(bf, bb, si),
                'DOM(increment => fcnt_up != MAX)', instance='%s: increment guarded by fcnt_up != 0xFFFF_FFFF' % short)
    # exhausted edge returns SessionExpired without writing
    for (u, v2) in exp_edges:
        rets = set()
        reach = bf.cfg.reachable_from(v2)
        for x in reach:
            if x == v2 or bf.guarded_by_edges(x, [(u, v2)]):
                for st in body.blocks[x].stmts:
                    if st.k == 'assign' and st.lhs.is_local() and st.lhs.local == 0 and st.rv.k == 'agg':
                        rets.add(st.rv.d.get('variant'))
        res.require(rets == {'SessionExpired'}, 'C06:%s:exhausted-response' % short, 'exhausted counter does not report SessionExpired: %s' % sorted(rets),
                    short_site(bf, v2), 'RETURNS(SessionExpired)', instance='%s: exhausted => SessionExpired' % short)
    return bf, bb, guard_edges, exp_edges


def run(tier):
    res = Result(PID)
    c = ctx('ws')
    prog = c.prog
    # ---------------- (a) writers
    ws = c.pf.writers_of_field('session::Session', 'fcnt_up', crates={'lorawan_device'})
    allowed = {'lorawan_device::mac::session::Session::handle_rx': 'store', 'lorawan_device::mac::session::Session::rx2_complete': 'store',
               'lorawan_device::mac::session::Session::new': 'construct'}
    seen = set()
    for (b, bb, si, s, kind) in ws:
        if b.exp and 'derive' in b.exp:
            continue
        if is_session_replacement(b, s, kind):
            res.require(True, 'C06:who-writes:fcnt_up:%s' % '::'.join(b.path.split('::')[-2:]), '', None, 'WHO-WRITES(fcnt_up)', instance='session replaced as a whole: %s (%s)' % (b.path, SESSION_REPLACERS[b.path]))
            continue
        seen.add(b.path)
        res.require(allowed.get(b.path) == kind, 'C06:who-writes:fcnt_up:%s' % '::'.join(b.path.split('::')[-2:]),
                    'unexpected writer of Session.fcnt_up (%s)' % kind, flow.Site(b, bb, si), 'WHO-WRITES(fcnt_up)',
                    instance='writer of fcnt_up: %s (%s)' % (b.path, kind))
    if set(allowed) - seen:
        raise CheckError('floor: writers of fcnt_up missing: %s' % (set(allowed) - seen))
    nbf = c.bf('lorawan_device::mac::session::Session::new')
    for b in nbf.body.blocks:
        for s in b.stmts:
            if s.k == 'assign' and s.rv.k == 'agg' and s.rv.d.get('adt', '').endswith('session::Session'):
                fl = s.rv.d['fields']
                v = term_of_operand(nbf, s.rv.ops[fl.index('fcnt_up')])
                res.require(v == ('const', 0), 'C06:Session::new:fcnt_up', 'new session does not start at fcnt_up = 0', None, 'CONST(fcnt_up=0)',
                            instance='Session::new: fcnt_up = 0')
    hbf, hstore, hguard, hexp = increments(c, res, 'lorawan_device::mac::session::Session::handle_rx')
    rbf, rstore, rguard, rexp = increments(c, res, 'lorawan_device::mac::session::Session::rx2_complete')
    # S2: rx2_complete increments (or reports expiry) on every path
    ex = rbf.returns_reachable(0, avoid_nodes=[rstore], avoid_edges=rexp)
    res.require(not ex, 'C06:Session::rx2_complete:path-without-increment', 'rx2_complete can return without incrementing fcnt_up',
                short_site(rbf, 0), 'MPT(entry -> increment | SessionExpired)', instance='rx2_complete: every path increments or expires')
    # S3: handle_rx: every response other than NoUpdate is produced after the increment (or is SessionExpired / rx2_complete())
    body = hbf.body
    n_ret = 0
    for b in body.blocks:
        if b.cleanup or b.idx not in hbf.cfg.reach:
            continue
        for si, s in enumerate(b.stmts):
            if s.k == 'assign' and s.lhs.is_local() and s.lhs.local == 0 and s.rv.k == 'agg':
                var = s.rv.d.get('variant')
                n_ret += 1
                if var == 'NoUpdate':
                    continue
                if var == 'SessionExpired':
                    good = hbf.guarded_by_edges(b.idx, hexp)
                else:
                    good = hbf.cfg.dominates(hstore, b.idx)
                res.require(good, 'C06:Session::handle_rx:response-without-increment:%s' % var,
                            'handle_rx reports %s on a path that did not increment fcnt_up' % var, short_site(hbf, b.idx, si),
                            'DOM(response != NoUpdate => increment)', instance='handle_rx: %s only after increment' % var)
        t = b.term
        if t.k == 'call' and t.dest.is_local() and t.dest.local == 0:
            n_ret += 1
            cn = callee_name(t)
            good = cn.endswith('Session::rx2_complete') or hbf.cfg.dominates(hstore, b.idx)
            if not good and cn.endswith('Into::into') and rules.is_call_suffix(term_of_operand(hbf, t.args[0]), 'multicast::Multicast::handle_rx'):
                # multicast build: a frame on a multicast port is answered by the multicast handler before the unicast path.
                # The pending uplink is then completed by the front-end (rule multicast_class_a below) - or the panic of the
                # non-blocking front-end's conversion stops the device (C04, all-features build).
                good = multicast_class_a(c, res)
            res.require(good, 'C06:Session::handle_rx:response-without-increment:%s' % cn.split('::')[-1],
                        'handle_rx returns the result of %s before incrementing fcnt_up' % cn, short_site(hbf, b.idx),
                        'DOM(response != NoUpdate => increment)', instance='handle_rx: returns %s()' % cn.split('::')[-1])
    if n_ret < 4:
        raise CheckError('floor: handle_rx return sites %d < 4' % n_ret)
    # Mac::rx2_complete / Mac::handle_rx forward the session result unchanged
    mbf = c.bf('lorawan_device::mac::Mac::rx2_complete')
    fw = [callee_name(t) for bb, t in mbf.calls() if t.dest.is_local() and t.dest.local == 0]
    res.require(any(x.endswith('Session::rx2_complete') for x in fw), 'C06:Mac::rx2_complete:forward', 'Mac::rx2_complete does not call Session::rx2_complete',
                None, 'CALLS(Session::rx2_complete)', instance='Mac::rx2_complete -> Session::rx2_complete')
    # ---------------- (b) prepare_buffer
    pbf = c.bf('lorawan_device::mac::session::Session::prepare_buffer')
    pself = param_by_name(pbf.body, 'self')
    cur = ('field', ('deref', ('param', pself)), 'fcnt_up')
    found = False
    for b in pbf.body.blocks:
        for si, s in enumerate(b.stmts):
            if s.k == 'assign' and s.rv.k == 'agg' and s.rv.d.get('adt', '').endswith('creator::DataFrame'):
                fl = s.rv.d['fields']
                v = term_of_operand(pbf, s.rv.ops[fl.index('fcnt')])
                found = True
                res.require(v == cur, 'C06:prepare_buffer:frame-fcnt', 'DataFrame.fcnt is not the full self.fcnt_up: %s' % term_str(v),
                            short_site(pbf, b.idx, si), 'SAME-VALUE(fcnt)', instance='prepare_buffer: DataFrame.fcnt = self.fcnt_up (u32)')
    if not found:
        raise CheckError('prepare_buffer: DataFrame construction not found')
    w = [1 for bb, si, s, root, path in pbf.field_writes() if root == pself and path == ['fcnt_up']]
    res.require(not w, 'C06:prepare_buffer:writes-fcnt_up', 'prepare_buffer writes fcnt_up', None, 'WHO-WRITES', instance='prepare_buffer does not write fcnt_up')
    rets = [term_of_operand(pbf, s.rv.ops[0]) for b in pbf.body.blocks if not b.cleanup for s in b.stmts
            if s.k == 'assign' and s.lhs.is_local() and s.lhs.local == 0 and s.rv.k == 'use']
    res.require(rets and all(r == cur for r in rets), 'C06:prepare_buffer:returned-fcnt', 'prepare_buffer does not return the counter it used',
                None, 'SAME-VALUE(return)', instance='prepare_buffer returns self.fcnt_up as read at entry')
    # ---------------- (c) async front-end
    async_no_reuse(c, res)
    nb_no_reuse(c, res)
    res.coverage['configs'] = [c.info]
    res.explanation = __doc__
    res.assumptions = ['Session.fcnt_up is a pub field: writes from outside the workspace are not analysed',
                       'a frame offered to the radio whose tx call fails is counted as handed to the radio (conservative)']
    return res


def multicast_class_a(c, res):
    """async front-end, multicast build: a multicast response that ends a Class A window (handle_mac_response called with
    rx_config = None returns Ok(Some(..))) is preceded by Mac::rx2_complete on every path"""
    fn = 'lorawan_device::async_device::Device::handle_mac_response::{closure#0}'
    if not c.has(fn):
        return False
    bf = c.bf(fn)
    starts = [bb for bb, t in bf.calls() if callee_name(t).endswith('multicast::Response::is_transmit_request')]
    if len(starts) != 1:
        return False
    # "not a Class A window" edges: Option::is_none(&rx_config) evaluated false
    rx_cfg = None
    edges = []
    for bb, t in bf.calls():
        if callee_name(t).endswith('Option::is_none'):
            a = term_of_operand(bf, t.args[0])
            if 'RxConfig' in (t.args[0].place.ty if t.args[0].place is not None else ''):
                al = bf.aliases(t.dest.local)
                for b2 in bf.body.blocks:
                    t2 = b2.term
                    if not b2.cleanup and t2.k == 'switch' and t2.discr.place is not None and t2.discr.place.is_local() and t2.discr.place.local in al:
                        edges += [(b2.idx, tgt) for val, tgt in t2.targets if val == 0]
                rx_cfg = a
    # may-analysis with two components: (increment seen?, outcomes of pure predicate calls taken so far). A second call of the
    # same predicate on the same unmodified value cannot take the other outcome (the `a && p(x)` ... `if p(x)` idiom).
    inc_bbs = set(bb for bb, t in bf.calls() if callee_name(t).endswith('Mac::rx2_complete'))
    pred_edges = {}
    pred_roots = {}
    for bb, t in bf.calls():
        cn = callee_name(t)
        if cn.endswith(('multicast::Response::is_for_async_mc_response', 'multicast::Response::is_transmit_request')) and t.args and t.args[0].place is not None:
            key = (cn, term_str(term_of_operand(bf, t.args[0])))
            root = bf.root_of_place(t.args[0].place)[0] if hasattr(bf, 'root_of_place') else None
            al = bf.aliases(t.dest.local)
            for b2 in bf.body.blocks:
                t2 = b2.term
                if not b2.cleanup and t2.k == 'switch' and t2.discr.place is not None and t2.discr.place.is_local() and t2.discr.place.local in al:
                    for val, tgt in t2.targets:
                        if val == 0:
                            pred_edges[(b2.idx, tgt)] = (key, False)
                    pred_edges[(b2.idx, t2.otherwise)] = (key, True)
    written = {}
    for b2 in bf.body.blocks:
        for s_ in b2.stmts:
            if s_.k == 'assign' and s_.rv.k == 'agg' and (s_.rv.d.get('adt') or '').endswith('multicast::Response'):
                written[b2.idx] = True

    def node_fn(bb, v):
        inc, facts = v
        if bb in inc_bbs:
            inc = True
        if bb in written:
            facts = frozenset()
        return (inc, facts)

    def edge_fn(u, w, v):
        inc, facts = v
        if (u, w) in edges:
            inc = True
        pe = pred_edges.get((u, w))
        if pe is not None:
            if (pe[0], not pe[1]) in facts:
                return None
            facts = facts | {pe}
        return (inc, facts)
    st = forward_may(bf, starts, {(False, frozenset())}, node_fn, edge_fn)
    ok = True
    n = 0
    for b in bf.body.blocks:
        if b.cleanup or b.idx not in st:
            continue
        for si, s_ in enumerate(b.stmts):
            if s_.k == 'assign' and s_.lhs.is_local() and s_.lhs.local == 0 and s_.rv.k == 'agg' and s_.rv.d.get('variant') == 'Ok':
                v = rv_term(bf, s_.rv)
                if term_contains(v, lambda y: isinstance(y, tuple) and y[:2] == ('agg', 'core::option::Option::Some')):
                    n += 1
                    if any(not inc for inc, _ in st[b.idx]):
                        ok = False
    res.require(ok and n >= 1, 'C06:async::handle_mac_response:multicast-ends-class-a-window-without-increment',
                'a multicast response can end a Class A receive window (Ok(Some(..)) with rx_config = None) without Mac::rx2_complete: the pending uplink keeps its frame counter and the next uplink reuses it',
                fn, 'MPT(multicast response in a Class A window -> rx2_complete)', instance='handle_mac_response: a multicast response that ends a Class A window is preceded by rx2_complete()')
    return ok and n >= 1


def exits_without_inc(c, bf, starts, inc_calls=(), inc_edges=()):
    """may-analysis: which exits are reachable from `starts` with no increment event. returns set of exit blocks"""
    inc_call_bbs = set(bb for bb, t in bf.calls() if any(callee_name(t).endswith(x) for x in inc_calls))
    inc_edges = set(inc_edges)

    def node_fn(bb, v):
        return True if bb in inc_call_bbs else v

    def edge_fn(u, w, v):
        return True if (u, w) in inc_edges else v
    st = forward_may(bf, starts, {False}, node_fn, edge_fn)
    bad = set()
    for e in bf.cfg.exits:
        if False in st.get(e, set()):
            bad.add(e)
    return bad, st


def async_no_reuse(c, res):
    D = 'lorawan_device::async_device::Device::'
    # --- rx_listen: Some(response) can only originate from handle_mac_response(handle_rx(..))
    lbf = c.bf(D + 'rx_listen::{closure#0}')
    bbh, th = one_call(lbf, 'Mac::handle_rx')
    aw = {rules.short_fn(a.callee): a for a in lbf.awaits()}
    if 'Device::handle_mac_response' not in aw:
        raise CheckError('rx_listen: await of handle_mac_response not found')
    hm = aw['Device::handle_mac_response']
    # the response argument of handle_mac_response is the handle_rx result
    arg = term_of_operand(lbf, hm.term.args[4])
    res.require(arg[0] == 'call' and arg[1].endswith('Mac::handle_rx') and arg[3] == bbh, 'C06:async::rx_listen:response-source',
                'handle_mac_response is not given the handle_rx result: %s' % term_str(arg), short_site(lbf, hm.call_bb),
                'SAME-VALUE(response)', instance='rx_listen: handle_mac_response(handle_rx(..))')
    # returned Ok payload: None constant or the `?`-unwrapped result of that await
    for b in lbf.body.blocks:
        if b.cleanup:
            continue
        for si, s in enumerate(b.stmts):
            if s.k == 'assign' and s.lhs.is_local() and s.lhs.local == 0 and s.rv.k == 'agg' and s.rv.d.get('variant') == 'Ok':
                pl = s.rv.ops[0].place
                srcs = []
                if pl is not None and pl.is_local():
                    for (dbb, dsi, kind, obj) in lbf.whole_defs(lbf_alias_root(lbf, pl.local)):
                        if kind == 'stmt' and obj.k == 'assign':
                            srcs.append(term_of_operand(lbf, obj.rv.ops[0]) if obj.rv.k == 'use' else flow._term_local(lbf, obj.lhs.local, 0, frozenset()) if False else rv_term(lbf, obj.rv))
                ok_src = bool(srcs)
                for t in srcs:
                    is_none = t == ('agg', 'core::option::Option::None', ())
                    from_hm = term_contains(t, lambda x: isinstance(x, tuple) and len(x) == 4 and x[0] == 'call' and x[3] == hm.poll_bb)
                    if not (is_none or from_hm):
                        ok_src = False
                res.require(ok_src, 'C06:async::rx_listen:returned-response', 'rx_listen can return a response not produced by handle_rx: %s' % [term_str(t) for t in srcs],
                            short_site(lbf, b.idx, si), 'PROVENANCE(Ok payload)', instance='rx_listen returns None or handle_mac_response(..)? only')
    # --- handle_mac_response: Some(..) never on the NoUpdate arm (C07 checks Ok(None) there); other arms return the response or rx2_complete()
    # --- rx_downlink: increments on every Ok exit; error exits enumerated
    dbf = c.bf(D + 'rx_downlink::{closure#0}')
    inc_edges = []
    n_listen = 0
    for a in dbf.awaits():
        if rules.short_fn(a.callee) == 'Device::rx_listen' and a.result is not None:
            n_listen += 1
            # result -> `?` -> Continue value -> `if let Some(response)`
            oks = dbf.ok_edges(a.result)
            # locals holding the Continue payload
            for (u, v) in oks:
                for s in dbf.body.blocks[v].stmts:
                    if s.k == 'assign' and s.rv.k == 'use' and s.rv.ops[0].place is not None and s.rv.ops[0].place.proj \
                            and 'Option' in dbf.body.locals[s.lhs.local]:
                        for l2 in dbf.aliases(s.lhs.local):
                            inc_edges += [e for e, nm in dbf.variant_edges(l2, {'None': 0, 'Some': 1}).items() if nm == 'Some']
    if n_listen != 2:
        raise CheckError('rx_downlink: expected two rx_listen awaits (RX1, RX2), found %d' % n_listen)
    if len(inc_edges) < 2:
        raise CheckError('rx_downlink: could not find the `Some(response)` edges of both rx_listen results')
    bad, st = exits_without_inc(c, dbf, [0], inc_calls=['Mac::rx2_complete'], inc_edges=inc_edges)
    report_exits(c, res, dbf, 'rx_downlink', st)
    # --- rx_listen error exits (each can leave the window without an increment)
    bad, st = exits_without_inc(c, lbf, [0], inc_calls=[], inc_edges=[])
    report_exits(c, res, lbf, 'rx_listen', st, ok_exits_matter=False)
    # --- send: after the transmission
    sbf = c.bf(D + 'send::{closure#0}')
    aws = {rules.short_fn(a.callee): a for a in sbf.awaits()}
    if 'PhyRxTx::tx' not in aws or 'Device::rx_downlink' not in aws:
        raise CheckError('send: awaits of radio.tx and rx_downlink not found')
    tx = aws['PhyRxTx::tx']
    rd = aws['Device::rx_downlink']
    # the buffer transmitted is the buffer prepared by Mac::send in the same call
    bbs, ts = one_call(sbf, 'Mac::send')
    res.require(sbf.cfg.dominates(bbs, tx.call_bb), 'C06:async::send:tx-without-prepare', 'radio.tx not dominated by Mac::send', short_site(sbf, tx.call_bb),
                'DOM(tx => Mac::send)', instance='send: radio.tx dominated by Mac::send (one frame per call)')
    inc_edges = sbf.ok_edges(rd.result) if rd.result is not None else []
    # start: the frame is handed to the radio at the tx call
    bad, st = exits_without_inc(c, sbf, [tx.call_bb], inc_calls=[], inc_edges=inc_edges)
    report_exits(c, res, sbf, 'send', st)
    # --- every other place of the async front-end that hands a data frame to the radio (answers sent from handle_mac_response
    #     in the certification / multicast builds): the same must-pass-through rule from each radio.tx site
    n_tx_sites = 0
    for body in c.prog.bodies.values():
        if body.crate != 'lorawan_device' or not body.path.startswith(D) or body.stage == 'promoted':
            continue
        xbf = c.pf.bf(body)
        txs = [a for a in xbf.awaits() if rules.short_fn(a.callee) == 'PhyRxTx::tx']
        if not txs:
            continue
        fname = body.path[len(D):].replace('::{closure#0}', '')
        for a in txs:
            n_tx_sites += 1
            if fname in ('send', 'join'):
                continue            # send: judged above; join: a JoinRequest carries no frame counter
            prepared = [callee_name(t).split('::')[-1] for bb_, t in xbf.calls() if callee_name(t).endswith(('Mac::multicast_setup_send', 'Mac::certification_setup_send', 'Mac::send'))
                        and xbf.cfg.dominates(bb_, a.call_bb)]
            bad, st2 = exits_without_inc(c, xbf, [a.call_bb], inc_calls=['Mac::rx2_complete'], inc_edges=[])
            okx = True
            for b in body.blocks:
                if b.cleanup or b.idx not in st2:
                    continue
                for si, s_ in enumerate(b.stmts):
                    if s_.k == 'assign' and s_.lhs.is_local() and s_.lhs.local == 0 and s_.rv.k == 'agg' and s_.rv.d.get('variant') == 'Ok' and False in st2[b.idx]:
                        okx = False
            res.require(okx, 'C06:async::%s:tx(%s):ok-exit-without-increment' % (fname, ','.join(prepared) or '?'),
                        '%s transmits a data frame prepared by %s and can return Ok without any increment of fcnt_up: the next uplink reuses the counter of that frame' % (fname, prepared or 'an unknown builder'),
                        short_site(xbf, a.call_bb), 'MPT(tx -> increment before Ok exit)', instance='async::%s: frame prepared by %s is followed by rx2_complete() before Ok' % (fname, ','.join(prepared)))
    if n_tx_sites < 2:
        raise CheckError('floor: radio.tx sites of the async front-end %d < 2' % n_tx_sites)
    res.coverage['async_tx_sites'] = n_tx_sites
    res.coverage['async_error_exits'] = sum(len(err_exits(b)) for b in (sbf, dbf, lbf))
    if res.coverage['async_error_exits'] < 11:
        raise CheckError('floor: async error exits enumerated %d < 11' % res.coverage['async_error_exits'])


def lbf_alias_root(bf, local):
    """follow `_a = move _b` backwards while single-def"""
    seen = set()
    while local not in seen:
        seen.add(local)
        d = bf.whole_defs(local)
        if len(d) == 1 and d[0][2] == 'stmt' and d[0][3].k == 'assign' and d[0][3].rv.k == 'use' and d[0][3].rv.ops[0].place is not None \
                and d[0][3].rv.ops[0].place.is_local():
            local = d[0][3].rv.ops[0].place.local
        else:
            break
    return local


def rv_term(bf, rv):
    if rv.k == 'use':
        return term_of_operand(bf, rv.ops[0])
    if rv.k == 'agg' and rv.d.get('ak') == 'adt':
        nm = flow.strip_generics(rv.d['adt']) + ('::' + rv.d['variant'] if rv.d.get('is_enum') else '')
        fl = rv.d.get('fields', [])
        return ('agg', nm, tuple((fl[i] if i < len(fl) else str(i), term_of_operand(bf, o)) for i, o in enumerate(rv.ops)))
    return ('other',)


def report_exits(c, res, bf, fname, st, ok_exits_matter=True):
    """every exit site (the block assigning _0) reachable in state 'no increment yet'"""
    body = bf.body
    exits = {e['bb']: e for e in err_exits(bf, trace_explicit=True)}
    # error exits
    for bb, e in sorted(exits.items()):
        if False in st.get(bb, set()):
            key = 'C06:async::%s:err-exit:%s#%d' % (fname, e['source'], e['ord'])
            res.violation(key, 'after the frame was handed to the radio, %s can return Err (failing %s) without incrementing fcnt_up: the next send reuses the counter'
                          % (fname, e['source']), short_site(bf, bb), 'MPT(tx -> increment before exit)')
        elif bb in st:
            res.ok('MPT(tx -> increment before exit)', 'async::%s err-exit %s#%d has an increment before it' % (fname, e['source'], e['ord']))
    if not ok_exits_matter:
        return
    # Ok exits: blocks assigning _0 = Ok(..)
    for b in body.blocks:
        if b.cleanup or b.idx not in st:
            continue
        for si, s in enumerate(b.stmts):
            if s.k == 'assign' and s.lhs.is_local() and s.lhs.local == 0 and s.rv.k == 'agg' and s.rv.d.get('variant') == 'Ok':
                res.require(False not in st[b.idx], 'C06:async::%s:ok-exit-without-increment' % fname,
                            '%s can return Ok without an increment of fcnt_up after the transmission' % fname, short_site(bf, b.idx, si),
                            'MPT(tx -> increment before Ok exit)', instance='async::%s Ok exit at bb%d passes an increment' % (fname, b.idx))


def nb_no_reuse(c, res):
    S = 'lorawan_device::nb_device::state::'
    prog = c.prog
    nu = variant_discr(prog, 'mac::Response', 'NoUpdate')
    # WHO-CONSTRUCTS State::Idle
    sites = {}
    for body in prog.bodies.values():
        if body.crate != 'lorawan_device' or body.stage == 'promoted':
            continue
        for b in body.blocks:
            if b.cleanup:
                continue
            for si, s in enumerate(b.stmts):
                if s.k == 'assign' and s.rv.k == 'agg' and s.rv.d.get('adt', '').endswith('nb_device::state::State') and s.rv.d.get('variant') == 'Idle':
                    sites.setdefault(body.path, []).append((b.idx, si))
    allowed = {S + 'Idle::handle_event', S + 'WaitingForRx::handle_event', '<lorawan_device::nb_device::state::State as core::default::Default>::default',
               '<lorawan_device::nb_device::state::State as core::convert::From<lorawan_device::nb_device::state::Idle>>::from'}
    for p in sites:
        res.require(p in allowed, 'C06:nb:who-constructs-Idle:%s' % rules.short_fn(p), 'unexpected transition to Idle in %s' % p, None,
                    'WHO-CONSTRUCTS(State::Idle)', instance='State::Idle constructed in %s' % p)
    if S + 'WaitingForRx::handle_event' not in sites or S + 'Idle::handle_event' not in sites:
        raise CheckError('floor: State::Idle construction sites missing')
    # WaitingForRx: each transition to Idle is preceded by an increment event
    wbf = c.bf(S + 'WaitingForRx::handle_event')
    bbh, th = one_call(wbf, 'Mac::handle_rx')
    non_nu = []
    for b in wbf.body.blocks:
        t = b.term
        if t.k == 'switch' and t.discr.place is not None:
            rv = wbf.single_rvalue(t.discr.place.local)
            if rv is not None and rv.k == 'discr' and not rv.place.proj and rv.place.local == th.dest.local:
                for val, tgt in t.targets:
                    if val != nu:
                        non_nu.append((b.idx, tgt))
                if not any(val == nu for val, tgt in t.targets):
                    raise CheckError('nb WaitingForRx: NoUpdate arm not explicit')
                non_nu.append((b.idx, t.otherwise))
    rx2 = [bb for bb, t in wbf.calls_to('Mac::rx2_complete')]
    for (bb, si) in sites[S + 'WaitingForRx::handle_event']:
        good = wbf.guarded_by_edges(bb, non_nu) or any(wbf.cfg.dominates(r, bb) for r in rx2)
        res.require(good, 'C06:nb::WaitingForRx:idle-without-increment', 'transition to Idle without rx2_complete or an accepted downlink',
                    short_site(wbf, bb, si), 'DOM(-> Idle => increment)', instance='nb WaitingForRx -> Idle at bb%d after increment' % bb)
    # Idle: after the frame was built and offered to the radio, returning to Idle means no increment
    ibf = c.bf(S + 'Idle::handle_event')
    txreq = None
    for bb, t in ibf.calls_to('PhyRxTx::handle_event'):
        ev = term_of_operand(ibf, t.args[1])
        if ev[0] == 'agg' and ev[1].endswith('Event::TxRequest'):
            txreq = (bb, t)
    if txreq is None:
        raise CheckError('nb Idle: TxRequest not found')
    bbt, tt = txreq
    out = ibf.outcome_edges(tt.dest.local)
    n = 0
    for (bb, si) in sorted(sites[S + 'Idle::handle_event']):
        if not ibf.cfg.can_reach(bbt, bb) or bb == bbt:
            res.ok('DOM', 'nb Idle early return (no frame offered) at bb%d' % bb)
            continue
        n += 1
        kind = 'radio-error' if ibf.guarded_by_edges(bb, [e for e, k in out.items() if k == 'err']) else 'unexpected-response'
        res.violation('C06:nb::Idle:idle-after-txrequest:%s' % kind,
                      'after a frame was built and offered to the radio (TxRequest) the state machine returns to Idle (%s) without incrementing fcnt_up' % kind,
                      short_site(ibf, bb, si), 'DOM(-> Idle => increment)')
    res.coverage['nb_idle_after_txrequest_sites'] = n
