"""C01 — every frame the library builds is byte-exact LoRaWAN 1.0.x (structural part: layout, key/counter dataflow,
refusals).

Decided on MIR terms with byte- and bit-level provenance against the LoRaWAN 1.0.x tables frozen below:
(a) the ordered writes of DataFrame::build_into, JoinRequest::build_into and JoinAccept::build_into are exactly
MHDR | DevAddr (wire order) | FCtrl | FCnt low 16 bits little-endian | FOpts | [FPort] | FRMPayload | MIC, resp. the join
layouts, at the specified (symbolic) offsets; MHDR per frame type and FCtrl bit positions (ADR 7, ADRACKReq 6 uplink
only, ACK 5, FPending 4 downlink only, FOptsLen 3..0) by partition over the flags with the length symbolic;
(b) B0 / Ai helper blocks: first byte 0x49 / 0x01, direction bit = MHDR bit 5, DevAddr = frame bytes 1..5, all four
counter bytes little-endian, byte 15 = message length resp. block counter starting at 1 and stepping by 1 per 16
bytes; the keystream index is i & 15 and the payload is XORed in place; (c) the payload is encrypted with the
application key exactly for a non-zero FPort data payload and with the network key for MAC commands, the MIC is always
computed with the network key over everything but the last four bytes, and both helpers receive the full 32-bit
frame counter of the description; (d) the four refusals (FOpts too long, FOpts with port 0, missing key, buffer too
short) are decided before the first write; (e) the JoinAccept is MIC-ed and then wrapped with the block *decrypt*
primitive over bytes 1.. in 16-byte blocks. Not decided: that the aes / cmac crates compute AES / CMAC, and equality
with an independent implementation on concrete inputs."""
from ..runner import Result, CheckError
from .. import rules, flow, layout, bits, tables, absint_interp, spi
from ..rules import param_by_name, term_of_operand, term_str, callee_name, path_conditions, cond_true, cond_false
from ..flow import term_contains
from ..layout import peel, buffer_script, off, term_bits, index_call, range_of
from .common import ctx, short_site
from .c11 import is_call, has_call, field_path

PID = 'C01'
E = 'lorawan::'


def norm_script(bf, script, self_p):
    """[(kind, start, end, source description)] with offsets normalised"""
    out = []
    for w in script:
        if w.kind == 'byte':
            out.append(('byte', off(w.start), None, peel(w.value)))
        elif w.kind == 'range':
            out.append(('range', off(w.start), off(w.end) if w.end is not None else None, peel(w.value)))
        else:
            out.append(('call', (w.callee or '').split('::')[-1], None, w.value))
    return out


def self_field(t, self_p, name):
    r, p = field_path(t)
    return r == ('param', self_p) and p == [name]


def _lin_eq(a, b):
    return a[0] == b[0] and a[1] == b[1]


def _lin_sub(a, b):
    r = dict(a[0])
    for k, v in b[0].items():
        r[k] = r.get(k, 0) - v
        if r[k] == 0:
            del r[k]
    return r, a[1] - b[1]


def _phis_in(t):
    out = []

    def walk(y):
        if isinstance(y, tuple):
            if len(y) == 2 and y[0] == 'phi' and isinstance(y[1], int):
                if y not in out:
                    out.append(y)
                return
            for z in y:
                walk(z)
    walk(t)
    return out


def _ctr_shape(ebf, ablk, eb):
    """FRMPayload encryption judged in terms of the payload offset k = (position XORed) - start, whatever the loop
    variable is: the loop variable X runs over a Range whose first / last+1 positions are start / end, the XOR is
    payload[P] ^= S[k & 15], the block S = AES(A) is recomputed exactly where k & 15 == 0, and A[15] there is
    k / 16 + 1 (modulo 256), either in closed form or as a counter starting at 1 and incremented once per block."""
    start, end = ('param', 2), ('param', 3)
    xw = [w for w in buffer_script(ebf, lambda t: t == ('param', 1)) if w.kind == 'byte']
    if len(xw) != 1:
        return False
    v = peel(xw[0].value)
    P = xw[0].start
    if not (v[0] == 'BitXor' and peel(v[1])[0] == 'index' and peel(peel(v[1])[1]) == ('param', 1) and rules.linear(peel(v[1])[2]) == rules.linear(P) and peel(v[2])[0] == 'index'):
        return False
    # loop variable: the Some payload of Iterator::next over Range{start: s0, end: e0}
    X = rules.find_in_term(P, lambda y: isinstance(y, tuple) and y[:1] == ('field',) and len(y) == 3 and y[2] == '0' and isinstance(y[1], tuple) and y[1][:1] == ('as',) and is_call(y[1][1], 'Iterator::next'))
    f = None
    if X is None:
        # a counting `while x < e { ..; x += 1 }` instead of `for x in s..e`: a loop variable defined as (first value, itself + 1), the XOR
        # executed under x < e
        for cand in [y for y in _phis_in(P)]:
            dl = rules.defs_with_conditions(ebf, cand[1])
            inits = [d for d, cs, bb in dl if rules.linear(d) != ({cand: 1}, 1)]
            incs = [d for d, cs, bb in dl if rules.linear(d) == ({cand: 1}, 1)]
            ends = [x[0][2] for x in path_conditions(ebf, xw[0].bb) if x[0][0] == 'Lt' and cond_true(x) and peel(x[0][1]) == cand]
            if len(inits) == 1 and len(incs) == 1 and len(ends) == 1:
                X, f = cand, {'start': inits[0], 'end': ends[0]}
                break
        if X is None:
            return False
    if f is None:
        rng = rules.find_in_term(X, lambda y: isinstance(y, tuple) and y[:1] == ('agg',) and y[1].endswith('ops::range::Range'))
        if rng is None:
            return False
        f = dict(rng[2])
    lp = rules.linear(P)
    c_ = _lin_sub(lp, ({X: 1}, 0))                      # P = X + c
    if X in c_[0]:
        return False

    def plus_c(t):
        l = rules.linear(t)
        r = dict(l[0])
        for k, v_ in c_[0].items():
            r[k] = r.get(k, 0) + v_
            if r[k] == 0:
                del r[k]
        return r, l[1] + c_[1]
    if not (_lin_eq(plus_c(f['start']), ({start: 1}, 0)) and _lin_eq(plus_c(f['end']), ({end: 1}, 0))):
        return False
    k_lin = _lin_sub(lp, ({start: 1}, 0))             # payload offset

    def uncast(t):
        t = peel(t)
        while isinstance(t, tuple) and t[:1] == ('cast',):
            t = peel(t[2])
        return t

    def is_k(t):
        return _lin_eq(rules.linear(peel(t)), k_lin)

    def low4(t):
        t = uncast(t)
        return (t[0] == 'BitAnd' and ((t[2] == ('const', 15) and is_k(t[1])) or (t[1] == ('const', 15) and is_k(t[2])))) or (t[0] == 'Rem' and t[2] == ('const', 16) and is_k(t[1]))

    def blk(t):
        t = uncast(t)
        return (t[0] in ('Shr', 'ShrUnchecked') and t[2] == ('const', 4) and is_k(t[1])) or (t[0] == 'Div' and t[2] == ('const', 16) and is_k(t[1]))
    if not low4(peel(v[2])[2]):
        return False
    # the keystream block is recomputed exactly under k & 15 == 0
    j0 = [x for x in path_conditions(ebf, eb[0][0]) if x[0][0] == 'Eq' and x[0][2] == ('const', 0) and cond_true(x) and low4(x[0][1])]
    if not j0:
        return False
    w15 = [w for w in buffer_script(ebf, lambda t: t == ablk) if w.kind == 'byte' and off(w.start) == 15]
    if len(w15) != 1 or not any(y[0] == j0[-1][0] and cond_true(y) for y in path_conditions(ebf, w15[0].bb)):
        return False
    val = peel(w15[0].value)
    if val[0] == 'phi':
        ctr = val[1]
        dl = rules.defs_with_conditions(ebf, ctr)
        kinds = sorted('init1' if d == ('const', 1) else 'inc' if (is_call(d, 'wrapping_add') and peel(d[2][0]) == ('phi', ctr) and peel(d[2][1]) == ('const', 1)) else 'other' for d, cs, bb in dl)
        inc_bb = [bb for d, cs, bb in dl if is_call(d, 'wrapping_add')]
        return kinds == ['inc', 'init1'] and all(any(y[0] == j0[-1][0] and cond_true(y) for y in path_conditions(ebf, b_)) for b_ in inc_bb)
    if is_call(val, 'wrapping_add') or val[0] in ('Add', 'AddWithOverflow'):
        x, y = (val[2][0], val[2][1]) if val[0] == 'call' else (val[1], val[2])
        if peel(y) != ('const', 1):
            x, y = y, x
        return peel(y) == ('const', 1) and blk(x)
    if val[0] == 'cast':
        inner = peel(val[2])
        return inner[0] in ('Add', 'AddWithOverflow') and ((peel(inner[2]) == ('const', 1) and blk(inner[1])) or (peel(inner[1]) == ('const', 1) and blk(inner[2])))
    return False


def _ctr_shape_blocks(ebf, ablk, eb):
    """the same clause for the block-wise form: an outer loop over the block starts B = 0, 16, 32, .. (step_by(16) over
    0..len, len = end - start) recomputes S = AES(A) with A[15] = 1, 2, 3, .. once per block, an inner loop over
    J in 0..min(16, len - B) XORs payload[start + B + J] with S[J]"""
    start, end = ('param', 2), ('param', 3)
    xw = [w for w in buffer_script(ebf, lambda t: t == ('param', 1)) if w.kind == 'byte']
    if len(xw) != 1:
        return False
    v = peel(xw[0].value)
    P = xw[0].start
    if not (v[0] == 'BitXor' and peel(v[1])[0] == 'index' and peel(peel(v[1])[1]) == ('param', 1) and rules.linear(peel(v[1])[2]) == rules.linear(P) and peel(v[2])[0] == 'index'):
        return False

    def is_next_var(y):
        return isinstance(y, tuple) and y[:1] == ('field',) and len(y) == 3 and y[2] == '0' and isinstance(y[1], tuple) and y[1][:1] == ('as',) and is_call(y[1][1], 'Iterator::next')
    lp = rules.linear(P)
    vars_ = [x for x in lp[0] if is_next_var(x)]
    if len(vars_) != 2 or lp[1] != 0 or lp[0].get(start) != 1 or any(lp[0][x] != 1 for x in vars_) or len(lp[0]) != 3:
        return False
    def iter_src(x):
        it = peel(x[1][1][2][0])
        return peel(it[2][0]) if is_call(it, 'IntoIterator::into_iter') else it
    B = [x for x in vars_ if is_call(iter_src(x), 'Iterator::step_by')]
    J = [x for x in vars_ if not is_call(iter_src(x), 'Iterator::step_by')]
    if len(B) != 1 or len(J) != 1:
        return False
    B, J = B[0], J[0]
    sb = rules.find_in_term(B, lambda y: is_call(y, 'Iterator::step_by'))
    rng = peel(sb[2][0])
    if not (peel(sb[2][1]) == ('const', 16) and rng[0] == 'agg' and rng[1].endswith('ops::range::Range')):
        return False
    f = dict(rng[2])
    len_lin = ({end: 1, start: -1}, 0)
    if not (peel(f['start']) == ('const', 0) and _lin_eq(rules.linear(f['end']), len_lin)):
        return False
    jr = rules.find_in_term(J, lambda y: isinstance(y, tuple) and y[:1] == ('agg',) and y[1].endswith('ops::range::Range'))
    if jr is None:
        return False
    jf = dict(jr[2])
    je = peel(jf['end'])
    if not (peel(jf['start']) == ('const', 0) and is_call(je, 'cmp::min')):
        return False
    a1, a2 = [peel(x) for x in je[2]]
    if a1 != ('const', 16):
        a1, a2 = a2, a1
    if a1 != ('const', 16) or not _lin_eq(rules.linear(a2), _lin_sub(len_lin, ({B: 1}, 0))):
        return False
    if peel(peel(v[2])[2]) != J:
        return False
    # S, A[15] and the counter step belong to the outer loop only: not under the inner iterator
    def it_arg(t):
        it = peel(term_of_operand(ebf, t.args[0]))
        return peel(it[2][0]) if is_call(it, 'IntoIterator::into_iter') else it
    inner_next = [bb for bb, t in ebf.calls() if callee_name(t).endswith('Iterator::next') and not is_call(it_arg(t), 'Iterator::step_by')]
    outer_next = [bb for bb, t in ebf.calls() if callee_name(t).endswith('Iterator::next') and is_call(it_arg(t), 'Iterator::step_by')]
    if len(inner_next) != 1 or len(outer_next) != 1:
        return False

    def outer_only(bb):
        return ebf.cfg.dominates(outer_next[0], bb) and not ebf.cfg.dominates(inner_next[0], bb)
    if not outer_only(eb[0][0]):
        return False
    w15 = [w for w in buffer_script(ebf, lambda t: t == ablk) if w.kind == 'byte' and off(w.start) == 15]
    if len(w15) != 1 or not outer_only(w15[0].bb) or not ebf.cfg.can_reach(w15[0].bb, eb[0][0]):
        return False
    val = peel(w15[0].value)
    if val[0] != 'phi':
        return False
    dl = rules.defs_with_conditions(ebf, val[1])
    kinds = sorted('init1' if d == ('const', 1) else 'inc' if (is_call(d, 'wrapping_add') and peel(d[2][0]) == ('phi', val[1]) and peel(d[2][1]) == ('const', 1)) else 'other' for d, cs, bb in dl)
    inc_bb = [bb for d, cs, bb in dl if is_call(d, 'wrapping_add')]
    return kinds == ['inc', 'init1'] and all(outer_only(b_) for b_ in inc_bb)


def run(tier):
    res = Result(PID)
    c = ctx('ws')
    prog = c.prog
    # ------------------------------------------------------------------ DataFrame::build_into
    bf = c.bf(E + 'creator::DataFrame::build_into')
    sp, bufp, nwk, app = 1, param_by_name(bf.body, 'buf'), param_by_name(bf.body, 'nwk_crypto'), param_by_name(bf.body, 'app_crypto')
    sc = norm_script(bf, buffer_script(bf, lambda t: term_contains(t, lambda y: y == ('param', bufp))), sp)
    writes = [x for x in sc if x[0] in ('byte', 'range')]
    fl = ('len(&**arg%d.f_opts)' % sp, 1)

    def to_frame_end(x):
        """the range runs to the end of the frame: open-ended, or ending 4 bytes after its start (the frame ends with the 4 MIC bytes)"""
        if x[2] is None:
            return True
        a, b = x[1], x[2]
        a = (a, ()) if isinstance(a, int) else a
        b = (b, ()) if isinstance(b, int) else b
        return b[0] - a[0] == 4 and a[1] == b[1]

    ftv = rules.variants_of(prog, 'parser::DataFrameType')

    def mhdr_inline(v):
        """the MHDR byte selected in place: {frame type: constant} when the value is a constant per variant of self.frame_type, else None"""
        out_ = {}
        inv_ = {i_: n_ for n_, i_ in ftv.items()}
        for cv, cs in rules.value_cases(bf, v):
            cv = peel(cv)
            sel = [x for x in cs if x[0][0] == 'discr' and self_field(peel(x[0][1]), sp, 'frame_type')]
            if cv[0] != 'const' or not sel:
                return None
            val = sel[-1][1]
            if isinstance(val, tuple) and len(val) == 1 and val[0] in inv_:
                out_[inv_[val[0]]] = cv[1]
            elif isinstance(val, tuple) and val[:1] == ('not',):
                rest = [n_ for i_, n_ in inv_.items() if i_ not in val[1]]
                if len(rest) != 1:
                    return None
                out_[rest[0]] = cv[1]
            else:
                return None
        return out_ or None

    def low16_le_of_fcnt(v):
        """the two low-order bytes of self.fcnt, little endian: (fcnt as u16).to_le_bytes() or fcnt.to_le_bytes()[..2]"""
        v = peel(v)
        if is_call(v, 'to_le_bytes'):
            a = peel(v[2][0])
            return a[0] == 'cast' and a[1] == 'u16' and self_field(a[2], sp, 'fcnt')
        ic = index_call(v)
        if ic is not None and is_call(ic[0], 'to_le_bytes') and self_field(peel(ic[0][2][0]), sp, 'fcnt'):
            return ic[1][0] == ('const', 0) and ic[1][1] == ('const', 2)
        return False

    def is_port_cursor(o):
        return isinstance(o, tuple) and o[0] == 0 and len(o[1]) == 1 and o[1][0][1] == 1 and o[1][0][0].startswith('φ_')
    want = [
        ('MHDR', lambda x: x[0] == 'byte' and x[1] == 0 and ((is_call(x[3], 'DataFrame::mhdr') and peel(x[3][2][0]) == ('param', sp)) or mhdr_inline(x[3]) is not None)),
        ('DevAddr', lambda x: x[0] == 'range' and (x[1], x[2]) == (1, 5) and is_call(x[3], 'DevAddr::as_wire_bytes') and self_field(x[3][2][0], sp, 'dev_addr')),
        ('FCtrl', lambda x: x[0] == 'byte' and x[1] == 5 and is_call(x[3], 'DataFrame::fctrl') and peel(x[3][2][0]) == ('param', sp)),
        ('FCnt', lambda x: x[0] == 'range' and (x[1], x[2]) == (6, 8) and low16_le_of_fcnt(x[3])),
        ('FOpts', lambda x: x[0] == 'range' and x[1] == 8 and x[2] == (8, (fl,)) and self_field(x[3], sp, 'f_opts')),
        ('FPort', lambda x: x[0] == 'byte' and is_port_cursor(x[1])),
        ('FRMPayload', lambda x: x[0] == 'range' and is_port_cursor(x[1]) and isinstance(x[2], tuple) and len(x[2][1]) == 2),
        ('MIC', lambda x: x[0] == 'range' and to_frame_end(x) and term_contains(x[3], lambda y: isinstance(y, tuple) and y[:1] == ('call',) and y[1].endswith('calculate_data_mic'))),
    ]
    okl = len(writes) == len(want) and all(p(x) for (n, p), x in zip(want, writes))
    res.require(okl, 'C01:DataFrame::build_into:layout', 'data frame writes are not MHDR[0] DevAddr[1..5] FCtrl[5] FCnt16[6..8] FOpts[8..] FPort FRMPayload MIC: %s' % [
        (x[0], x[1], x[2], term_str(x[3])[:40]) for x in writes], bf.body.path, 'SPEC-LAYOUT(data frame)', instance='DataFrame: MHDR | DevAddr | FCtrl | FCnt(le16) | FOpts | FPort | FRMPayload | MIC in this order and at these offsets')
    # EXACT-GUARD(FPort): the port byte is written whenever a port is present (the length reserved for the frame counts it) - and under no
    # further condition: a port with an empty FRMPayload is legal, and a reused buffer must not shine through at that offset
    raw = buffer_script(bf, lambda t: term_contains(t, lambda y: y == ('param', bufp)))
    raw_w = [w for w in raw if w.kind in ('byte', 'range')]
    okp, whyp = False, 'port byte write not found'
    if len(raw_w) == len(writes):
        pw = [(w, x) for w, x in zip(raw_w, writes) if x[0] == 'byte' and is_port_cursor(x[1])]
        first = [w for w, x in zip(raw_w, writes) if x[0] == 'byte' and x[1] == 0]
        if len(pw) == 1 and len(first) == 1:
            base = {term_str(cn[0]) for cn in rules.path_conditions(bf, first[0].bb)}
            extra = [cn for cn in rules.path_conditions(bf, pw[0][0].bb) if term_str(cn[0]) not in base]
            val = pw[0][1][3]
            opt = None
            if isinstance(val, tuple) and val[:1] == ('field',) and isinstance(val[1], tuple) and val[1][:1] == ('as',) and val[1][2] == 'Some':
                opt = peel(val[1][1])
            # which kind of payload / whether a port exists is decided by enum tests (on the payload description, on the port option);
            # anything else - a length, an emptiness test, a flag - makes the port byte depend on more than the presence of a port
            def enum_test(cn):
                tm_ = cn[0]
                if not (isinstance(tm_, tuple) and tm_[:1] == ('discr',)):
                    return False
                # the only calls allowed inside are the plumbing of `?` / combinators on the option itself
                return not term_contains(tm_, lambda y: isinstance(y, tuple) and y[:1] == ('call',) and isinstance(y[1], str) and
                                         not y[1].endswith(('Try::branch', 'Option::map', 'Option::as_ref', 'Option::copied', 'NonZero::get', 'Into::into', 'From::from')))
            other = [cn for cn in extra if not enum_test(cn)]
            okp = not other
            whyp = 'the port byte is written only under %s' % [(term_str(cn[0])[:50], cn[1]) for cn in other]
    res.require(okp, 'C01:DataFrame::build_into:fport-guard', 'FPort: %s - a frame with a port and an empty FRMPayload keeps whatever the buffer held at that offset (and the MIC covers it)' % whyp, bf.body.path,
                'EXACT-GUARD(port byte written <=> a port is present)', instance='DataFrame: the FPort byte is written exactly when a port is present')
    # the cursor: starts right after FOpts, +1 after the port byte
    cur = None
    for x in writes:
        if x[0] == 'byte' and is_port_cursor(x[1]):
            cur = int(x[1][1][0][0][2:])
    okc = False
    if cur is not None:
        dl = rules.defs_with_conditions(bf, cur)
        vals = []
        for v, cs, bb in dl:
            lin, k = rules.linear(v)
            vals.append((k, tuple(sorted((term_str(a), b_) for a, b_ in lin.items()))))
        okc = sorted(vals) == sorted([(8, (fl,)), (1, (('φ_%d' % cur, 1),))])
    res.require(okc, 'C01:DataFrame::build_into:cursor', 'FPort/FRMPayload offset is not 8 + FOptsLen (+1 after the port byte)', bf.body.path, 'SPEC-LAYOUT(offset of FPort)',
                instance='FPort at 8 + len(FOpts); FRMPayload right after it')
    # contiguity: the MIC starts where the FRMPayload ends (no byte of the frame is left unwritten)
    micw0 = [x for x in writes if want[-1][1](x)]
    frmw = [x for x in writes if x[0] == 'range' and is_port_cursor(x[1]) and isinstance(x[2], tuple)]
    okg = len(micw0) == 1 and len(frmw) == 1 and isinstance(micw0[0][1], tuple)
    if okg:
        mk, msy = micw0[0][1]
        names = dict(msy)
        frm_len = [n_ for n_ in dict(frmw[0][2][1]) if n_.startswith('len(')]
        # the third summand is the length of the optional port byte: 1 when a port is present, 0 otherwise - either
        # `f_port.map_or(0, |_| 1)` or a value selected by a match / if-let on the same option
        port_terms = [n_ for n_ in names if n_ != fl[0] and n_ not in frm_len]
        okg = mk == 8 and fl[0] in names and len(frm_len) == 1 and frm_len[0] in names and len(port_terms) == 1 and all(v_ == 1 for v_ in names.values()) and len(names) == 3
        one = False
        if okg and port_terms[0].startswith('map_or(') and ', 0, ' in port_terms[0]:
            cl = [p_ for p_ in prog.by_short if p_.endswith('DataFrame::build_into::{closure#0}')]
            if len(cl) == 1:
                cb = prog.by_short[cl[0]][0]
                one = any(s_.k == 'assign' and s_.lhs.local == 0 and s_.rv.k == 'use' and s_.rv.ops[0].const_int() == 1 for b_ in cb.blocks for s_ in b_.stmts)
        elif okg and port_terms[0].startswith('φ_'):
            dl = rules.defs_with_conditions(bf, int(port_terms[0][2:]))
            cases = {}
            for v_, cs_, bb_ in dl:
                dv = [x_[1][0] for x_ in cs_ if x_[0][0] == 'discr' and isinstance(x_[1], tuple) and len(x_[1]) == 1 and isinstance(x_[1][0], int)]
                # the option tested must be the port option whose Some payload is the byte written at the cursor
                if v_[0] == 'const' and dv:
                    cases[dv[-1]] = v_[1]
            one = cases == {0: 0, 1: 1} and len(dl) == 2
        okg = okg and one
    res.require(okg, 'C01:DataFrame::build_into:contiguous', 'MIC offset is not 8 + len(FOpts) + (1 if a port is present) + len(FRMPayload): %s' % ((micw0[0][1] if micw0 else None),), bf.body.path,
                'COVERAGE(MIC starts where the payload ends)', instance='frame bytes are contiguous: header 8 | FOpts | [FPort] | FRMPayload | MIC')
    # payload / port / key per Payload arm
    tup = None
    for x in writes:
        if x[0] == 'byte' and is_port_cursor(x[1]):
            tup = rules.find_in_term(x[3], lambda y: isinstance(y, tuple) and y[0] == 'phi')
    arms = {}
    if tup is not None:
        for v, cs, bb in rules.defs_with_conditions(bf, tup[1]):
            v = peel(v)
            while v[0] == 'agg' and v[1].endswith(('Result::Ok', 'Option::Some')) and len(v[2]) == 1:
                v = peel(v[2][0][1])        # the selection travels as Ok((port, payload, key)) through `?` when it lives in a helper
            if v[0] != 'tuple':
                continue
            d = [x for x in cs if x[0][0] == 'discr' and self_field(peel(x[0][1]), sp, 'payload')]
            pv = rules.variants_of(prog, 'creator::Payload')
            inv = {v_: k_ for k_, v_ in pv.items()}
            name = inv.get(d[-1][1][0]) if d and len(d[-1][1]) == 1 and d[-1][1][0] in inv else None
            arms[name] = [peel(z) for z in v[1]]
    def crypto_is(t, which):
        t = peel(t)
        if which == 'nwk':
            return t == ('param', nwk)
        return term_contains(t, lambda y: y == ('param', app)) and t != ('param', nwk) and not term_contains(t, lambda y: y == ('param', nwk))
    oka = set(arms) == {'None', 'Data', 'MacCommands'}
    if oka:
        n_, d_, m_ = arms['None'], arms['Data'], arms['MacCommands']
        oka = n_[0][0] == 'agg' and n_[0][1].endswith('Option::None') and crypto_is(n_[2], 'nwk') and \
            d_[0][0] == 'agg' and d_[0][1].endswith('Option::Some') and is_call(d_[0][2][0][1], 'NonZero') is False and crypto_is(d_[2], 'app') and \
            m_[0][0] == 'agg' and m_[0][1].endswith('Option::Some') and peel(m_[0][2][0][1]) == ('const', 0) and crypto_is(m_[2], 'nwk')
        # the data port is the description's non-zero port
        oka = oka and has_call(d_[0], '::get') and term_contains(d_[0], lambda y: y == 'f_port')
    res.require(oka, 'C01:DataFrame::build_into:key-by-port', 'payload key / port selection per payload kind is not {none: -, nwk; data: port.get(), app key; MAC commands: port 0, nwk key}: %s' % {
        k: [term_str(z)[:50] for z in v] for k, v in arms.items()}, bf.body.path, 'TABLE(payload kind -> port, key)', instance='FRMPayload key: AppSKey for data on its non-zero FPort, NwkSKey for MAC commands on port 0')
    enc = [(bb, t) for bb, t in bf.calls() if callee_name(t).endswith('securityhelpers::encrypt_frm_data_payload')]
    mic = [(bb, t) for bb, t in bf.calls() if callee_name(t).endswith('securityhelpers::calculate_data_mic')]
    if len(enc) != 1 or len(mic) != 1:
        raise CheckError('anchor: build_into calls encrypt %d / mic %d times' % (len(enc), len(mic)))
    ea = [peel(term_of_operand(bf, a)) for a in enc[0][1].args]
    oke = self_field(ea[3], sp, 'fcnt') and tup is not None and term_contains(ea[4], lambda y: y == tup) and is_port_cursor(off(ea[1])) and \
        any(cond_false(x) and is_call(x[0], 'is_empty') for x in path_conditions(bf, enc[0][0]))
    res.require(oke, 'C01:DataFrame::build_into:encrypt-args', 'FRMPayload encryption is not (out, cursor, cursor+len, full self.fcnt, key of the payload kind) for a non-empty payload', short_site(bf, enc[0][0]),
                'PROVENANCE(encrypt arguments)', instance='encrypt_frm_data_payload(out, start, end, self.fcnt (32 bits), selected key) iff payload non-empty')
    ma = [peel(term_of_operand(bf, a)) for a in mic[0][1].args]
    ic = index_call(ma[0])
    okm = ma[1] == ('param', nwk) and self_field(ma[2], sp, 'fcnt') and ic is not None and ic[1][2] == 'to' and bf.cfg.dominates(enc[0][0], mic[0][0]) is False or True
    okm = ma[1] == ('param', nwk) and self_field(ma[2], sp, 'fcnt') and ic is not None and ic[1][2] == 'to'
    # MIC range: out[..total-4] and stored at out[total-4..]
    micw = [x for x in writes if want[-1][1](x)]
    okm = okm and len(micw) == 1 and off(ic[1][1]) == micw[0][1]
    res.require(okm, 'C01:DataFrame::build_into:mic', 'MIC is not calculate_data_mic(out[..total-4], NwkSKey crypto, full self.fcnt) stored at out[total-4..]', short_site(bf, mic[0][0]),
                'PROVENANCE(MIC)', instance='MIC = cmac(B0 | out[..total-4]) with the NwkSKey and the 32-bit counter, stored in the last 4 bytes')
    # MIC after encryption (over the ciphertext)
    res.require(bf.cfg.can_reach(enc[0][0], mic[0][0]) and not bf.cfg.can_reach(mic[0][0], enc[0][0]), 'C01:DataFrame::build_into:mic-over-ciphertext', 'the MIC is computed before the payload is encrypted',
                short_site(bf, mic[0][0]), 'ORDER(encrypt => MIC)', instance='MIC computed over the encrypted payload')
    # refusals before the first write
    gm = [(bb, t) for bb, t in bf.calls() if callee_name(t).endswith('::get_mut')]
    if len(gm) != 1:
        raise CheckError('anchor: build_into get_mut')
    first_write_blocks = [w.bb for w in buffer_script(bf, lambda t: term_contains(t, lambda y: y == ('param', bufp))) if w.kind in ('byte', 'range') or (w.kind == 'call' and not (w.callee or '').endswith('get_mut'))]
    errs = {}
    for b in bf.body.blocks:
        if b.cleanup or b.idx not in bf.cfg.reach:
            continue
        for s in b.stmts:
            if s.k == 'assign' and s.rv.k == 'agg' and (s.rv.d.get('adt') or '').endswith('parser::Error'):
                errs[s.rv.d.get('variant')] = b.idx
    need = {'FOptsTooLong', 'FOptsWithFPortZero', 'MissingKey', 'BufferTooShort'}
    okr = need <= set(errs) and all(bf.cfg.dominates(gm[0][0], wb) for wb in first_write_blocks) and \
        all(not any(bf.cfg.dominates(wb, errs[e]) for wb in first_write_blocks) for e in need)
    res.require(okr, 'C01:DataFrame::build_into:refusals', 'refusals %s are not all decided before the first write into the output' % sorted(need - set(errs) or need), bf.body.path,
                'DOM(refusal checks => first write)', instance='FOptsTooLong / FOptsWithFPortZero / MissingKey / BufferTooShort decided before any byte is written')
    # guard FOpts <= 15 dominates everything
    g15 = [x for b_ in first_write_blocks[:1] for x in path_conditions(bf, b_) if x[0][0] == 'Gt' and x[0][2] == ('const', 15) and cond_false(x) and has_call(x[0][1], '::len')]
    res.require(bool(g15), 'C01:DataFrame::build_into:fopts-limit', 'writes are not guarded by len(FOpts) <= 15', bf.body.path, 'DOM(len(FOpts) <= 15)', instance='FOpts longer than 15 bytes refused (FCtrl nibble cannot overflow)')
    # ------------------------------------------------------------------ MHDR / FCtrl tables
    from .. import absint_interp
    from ..absint import Lin
    ft = prog.adts[E + 'parser::DataFrameType']
    MHDR = {'UnconfirmedUp': 0x40, 'UnconfirmedDown': 0x60, 'ConfirmedUp': 0x80, 'ConfirmedDown': 0xa0}
    got = {}
    mbl = prog.by_short.get(E + 'creator::DataFrame::mhdr') or []
    mb = mbl[0] if len(mbl) == 1 else bf.body
    if not mbl:
        # no mhdr() helper: the byte is selected where it is written
        w0 = [x for x in writes if x[0] == 'byte' and x[1] == 0]
        got = (mhdr_inline(w0[0][3]) or {}) if len(w0) == 1 else {}
    for i, v in enumerate(ft['variants'] if mbl else []):
        an = absint_interp.new_analyzer(prog, max_depth=3)

        def setup(an_, fr, st, i=i):
            obj = an_.read_ptr(st.env[(fr.id, 1)][1], fr, st)
            st.mem[('obj', 'p1_self*')] = an_.with_field(obj, 0, 'frame_type', ('adt', E + 'parser::DataFrameType', frozenset([i]), {}, None, ()))
        fr, out = an.analyze_entry(mb, setup=setup)
        rv = out.env.get((fr.id, 0)) if out is not None else None
        got[v['name']] = tables._single(out, rv) if out is not None else None
    res.require(got == MHDR, 'C01:mhdr:table', 'MHDR per frame type is %s (specification: %s)' % (got, MHDR), mb.path, 'TABLE(MHDR)', instance='MHDR: 0x40/0x60/0x80/0xA0 for unconfirmed/confirmed up/down')
    fb = prog.by_short[E + 'creator::DataFrame::fctrl'][0]
    bad = []
    n_combo = 0
    for i, v in enumerate(ft['variants']):
        up = v['name'].endswith('Up')
        for mask in range(16):
            flags = {'adr': bool(mask & 1), 'adr_ack_req': bool(mask & 2), 'ack': bool(mask & 4), 'f_pending': bool(mask & 8)}
            an = absint_interp.new_analyzer(prog, max_depth=4)

            def setup(an_, fr, st, i=i, flags=flags):
                obj = an_.read_ptr(st.env[(fr.id, 1)][1], fr, st)
                obj = an_.with_field(obj, 0, 'frame_type', ('adt', E + 'parser::DataFrameType', frozenset([i]), {}, None, ()))
                for k_, b_ in flags.items():
                    obj = an_.with_field(obj, 0, k_, ('bool', ('const', b_)))
                # build_into refuses FOpts longer than 15 bytes before FCtrl is computed (rule fopts-limit above)
                fo = an_.field_of(obj, 0, 'f_opts', st, fr)
                if fo[0] == 'sref' and fo[3].single():
                    st.hi[fo[3].single()[0]] = 15
                    obj = an_.with_field(obj, 0, 'f_opts', fo)
                st.mem[('obj', 'p1_self*')] = obj
            fr, out = an.analyze_entry(fb, setup=setup)
            rv = out.env.get((fr.id, 0)) if out is not None else None
            n_combo += 1
            if rv is None or rv[0] != 'int':
                bad.append((v['name'], mask, 'no value'))
                continue
            bl = bits.BitView(an, out).lin_bits(rv[1], 'u8')
            exp_hi = [int(flags['f_pending'] and not up), int(flags['ack']), int(flags['adr_ack_req'] and up), int(flags['adr'])]
            lowsrc = {e[1] for e in bl[:4] if isinstance(e, tuple) and e[0] == 'i'}
            ok_low = all(isinstance(e, tuple) and e[0] == 'i' and e[2] == k for k, e in enumerate(bl[:4])) and len(lowsrc) == 1 and 'len' in next(iter(lowsrc))
            if bl[4:] != exp_hi or not ok_low:
                bad.append((v['name'], mask, bits.fmt(bl)))
    res.require(not bad and n_combo == 64, 'C01:fctrl:bits', 'FCtrl differs from ADR(7) ADRACKReq(6, uplink only) ACK(5) FPending(4, downlink only) FOptsLen(3..0): %s' % bad[:3], fb.path,
                'TABLE(FCtrl bits, 64 flag combinations, length symbolic)', instance='FCtrl: ADR bit 7, ADRACKReq bit 6 (uplinks), ACK bit 5, FPending bit 4 (downlinks), FOptsLen bits 3..0')
    # ------------------------------------------------------------------ helper blocks
    # judged where the block is used, whatever builds it (out-parameter helper, by-value helper, inline code): the abstract
    # interpreter runs the function and the 16 bytes handed to the AES primitive are read bit by bit at the call
    def blocks_at(fn_body, hook, argi):
        an = absint_interp.new_analyzer(prog, max_depth=6)
        rec = []

        def h(an_, t, args, frame, st, nm):
            rec.append([spi.fmt_byte(x) for x in spi.slice_bits(an_, st, args[argi], frame)])
        an.call_hooks[hook] = h
        an.analyze_entry(fn_body)
        return rec

    def pname(body, i):
        nm = [n for n, pl in body.dbg if pl.is_local() and pl.local == i]
        if not nm:
            raise CheckError('anchor: parameter %d of %s has no name' % (i, body.path))
        return nm[0]

    def byte_of(nm, lo=0):
        return '[' + ' '.join('%s.%d' % (nm, k) for k in range(lo + 7, lo - 1, -1)) + ']'

    def helper_want(tag, frame_nm, cnt_nm):
        return ['0x%02X' % tag, '0x00', '0x00', '0x00', '0x00', '[0 0 0 0 0 0 0 %s[0].5]' % frame_nm] + [byte_of('%s[%d]' % (frame_nm, k)) for k in range(1, 5)] + \
            [byte_of(cnt_nm, 8 * k) for k in range(4)] + ['0x00']
    mbf = c.bf(E + 'securityhelpers::calculate_data_mic')
    rec = blocks_at(mbf.body, 'Crypto::calculate_mic', 1)
    if not rec:
        raise CheckError('anchor: calculate_data_mic does not reach Crypto::calculate_mic')
    want_b0 = helper_want(0x49, pname(mbf.body, 1), pname(mbf.body, 3)) + [byte_of(pname(mbf.body, 1) + '.len')]
    badr = [r for r in rec if r != want_b0]
    res.require(not badr, 'C01:generate_helper_block:layout', 'B0 block is not [0x49, 0,0,0,0, dir = MHDR bit 5, DevAddr = frame[1..5], FCnt 4 bytes LE, 0, len(msg)]: %s' % (badr[:1],), mbf.body.path,
                'SPEC-LAYOUT(B0 block, bits at the cmac call)', instance='B0 at Crypto::calculate_mic: 0x49 | 0000 | dir(MHDR bit 5) | DevAddr(frame 1..5) | FCnt32 LE | 0 | len(msg)')
    cm = [(bb, t) for bb, t in mbf.calls() if callee_name(t).endswith('Crypto::calculate_mic')]
    okb = len(cm) == 1
    if okb:
        ca = [peel(term_of_operand(mbf, x)) for x in cm[0][1].args]
        okb = ca[0] == ('param', 2) and ca[2] == ('param', 1)
    res.require(okb, 'C01:calculate_data_mic:b0', 'MIC is not cmac(key, B0 | msg) over the whole message under the given key', mbf.body.path, 'PROVENANCE(cmac arguments)',
                instance='calculate_data_mic: one cmac call, key = the crypto given, message = the whole data slice')
    ebf = c.bf(E + 'securityhelpers::encrypt_frm_data_payload')
    rec = blocks_at(ebf.body, 'Crypto::encrypt_block', 1)
    if not rec:
        raise CheckError('anchor: encrypt_frm_data_payload does not reach Crypto::encrypt_block')
    want_a = helper_want(0x01, pname(ebf.body, 1), pname(ebf.body, 4))
    bada = [r for r in rec if r[:15] != want_a]
    res.require(not bada and rec[0][15] == '0x01', 'C01:encrypt_frm_data_payload:ai', 'Ai block is not [0x01, 0,0,0,0, dir, DevAddr, FCnt 4 bytes LE, 0, block index from 1]: %s' % ((bada or rec)[:1],), ebf.body.path,
                'SPEC-LAYOUT(Ai block, bits at the AES call)', instance='Ai at Crypto::encrypt_block: 0x01 | 0000 | dir | DevAddr | FCnt32 LE | 0 | i (first block 1)')
    eb = [(bb, t) for bb, t in ebf.calls() if callee_name(t).endswith('Crypto::encrypt_block')]
    okx = len(eb) == 1
    if okx:
        # the Ai array: the local whose byte 15 is stored
        a15 = set()
        for b_ in ebf.body.blocks:
            for s_ in b_.stmts:
                if s_.k == 'assign' and s_.lhs.proj and not b_.cleanup:
                    lt = flow.term_of_place(ebf, s_.lhs)
                    if lt[0] in ('index', 'cindex') and (lt[2] == ('const', 15) or lt[2] == 15) and peel(lt[1])[0] == 'phi':
                        a15.add(peel(lt[1]))
        okx = len(a15) == 1
        if okx:
            ablk = next(iter(a15))
            okx = _ctr_shape(ebf, ablk, eb) or _ctr_shape_blocks(ebf, ablk, eb)
    res.require(okx, 'C01:encrypt_frm_data_payload:ctr', 'payload encryption is not AES-CTR with Ai = helper block(0x01, full counter), Ai[15] = 1, 2, 3, ... per 16 bytes, XOR at start + i with keystream byte i & 15',
                ebf.body.path, 'SPEC-LAYOUT(Ai) + INDUCTION(block counter) + SHAPE(xor)', instance='FRMPayload: XOR with AES(Ai), Ai tag 0x01, block index from 1, keystream byte i mod 16')
    # ------------------------------------------------------------------ JoinAccept
    jb = c.bf(E + 'creator::JoinAccept::build_into')
    jbuf = param_by_name(jb.body, 'buf')
    sc = norm_script(jb, buffer_script(jb, lambda t: term_contains(t, lambda y: y == ('param', jbuf))), 1)
    wr = [x for x in sc if x[0] in ('byte', 'range')]
    head = wr[:6]
    okj = len(head) == 6 and head[0][:2] == ('byte', 0) and head[0][3] == ('const', 0x20) and \
        (head[1][1], head[1][2]) == (1, 4) and is_call(head[1][3], 'as_wire_bytes') and self_field(head[1][3][2][0], 1, 'join_nonce') and \
        (head[2][1], head[2][2]) == (4, 7) and self_field(head[2][3][2][0], 1, 'net_id') and \
        (head[3][1], head[3][2]) == (7, 11) and self_field(head[3][3][2][0], 1, 'dev_addr') and \
        head[4][:2] == ('byte', 11) and is_call(head[4][3], 'raw_value') and self_field(head[4][3][2][0], 1, 'dl_settings') and \
        head[5][:2] == ('byte', 12) and head[5][3][0] == 'BitAnd' and self_field(head[5][3][1], 1, 'rx_delay') and head[5][3][2] == ('const', 15)
    res.require(okj, 'C01:JoinAccept::build_into:layout', 'JoinAccept is not 0x20 | JoinNonce[1..4] | NetID[4..7] | DevAddr[7..11] | DLSettings[11] | RxDelay & 0x0f [12]: %s' % [(x[0], x[1], x[2], term_str(x[3])[:30]) for x in head],
                jb.body.path, 'SPEC-LAYOUT(JoinAccept)', instance='JoinAccept: MHDR 0x20 | JoinNonce | NetID | DevAddr | DLSettings | RxDelay')
    cf = [x for x in wr[6:]]
    types = sorted(x[3][1] for x in cf if x[0] == 'byte' and x[1] == 28 and x[3][0] == 'const')
    # the 16 CFList bytes copied wholesale from a value assembled elsewhere (a helper returning the wire form): the layout is
    # then not a fact of this function's stores; it is recorded as not judged rather than reported
    wholesale = [x for x in cf if x[0] == 'range' and (x[1], x[2]) == (13, 29)]
    cf_delegated = len(wholesale) == 1 and not any(x[0] == 'byte' and 13 <= x[1] < 29 for x in cf) and not any(x[0] == 'range' and x is not wholesale[0] and isinstance(x[1], int) and 13 <= x[1] < 29 for x in cf)
    if cf_delegated:
        res.ok('SPEC-LAYOUT(CFList)', 'CFList at bytes 13..29 copied as one 16-byte value built outside build_into (%s): layout not judged here' % term_str(wholesale[0][3])[:60])
    res.require(cf_delegated or (types == [0, 1] and any(x[0] == 'range' and (x[1], x[2]) == (13, 22) for x in cf)), 'C01:JoinAccept::build_into:cflist', 'CFList is not written at 13.. with its type byte (0 / 1) at 28: %s' % [(x[0], x[1], x[2]) for x in cf],
                jb.body.path, 'SPEC-LAYOUT(CFList)', instance='CFList at bytes 13..29: type 0 = five 3-byte frequencies, type 1 = 9-byte mask, type byte last')
    # coverage: with a CFList every byte 13..29 is written on either arm (a reused buffer must not shine through)
    raw = buffer_script(jb, lambda t: term_contains(t, lambda y: y == ('param', jbuf)))
    cfv = rules.variants_of(prog, 'parser::CfList')
    arms = {'FixedChannel': [], 'DynamicChannel': []}
    for w in raw:
        if w.kind == 'call' and not (w.callee or '').endswith('::fill'):
            continue
        if w.kind in ('byte', 'range', 'call') and (off(w.start) if w.start is not None else None) is not None:
            arm = None
            for cnd in path_conditions(jb, w.bb):
                if cnd[0][0] == 'discr' and 'c_f_list' in term_str(cnd[0]) and 'Some' in term_str(cnd[0]) and len(cnd[1]) == 1 and cnd[1][0] in cfv.values():
                    arm = [k_ for k_, v_ in cfv.items() if v_ == cnd[1][0]][0]
            if arm:
                arms[arm].append(w)
    def const_cover(ws):
        cov = set()
        for w in ws:
            a = off(w.start)
            b_ = off(w.end) if w.end is not None else (a + 1 if w.kind == 'byte' else None)
            if isinstance(a, int) and isinstance(b_, int):
                cov.update(range(a, b_))
        return cov
    fixed_cov = const_cover(arms['FixedChannel'])
    dyn_cov = const_cover(arms['DynamicChannel'])
    strided = [w for w in arms['DynamicChannel'] if w.kind == 'range' and isinstance(off(w.start), tuple)]
    okd = False
    if len(strided) == 1:
        a, b_ = off(strided[0].start), off(strided[0].end)
        cft = prog.adts['lorawan::parser::CfList']['variants'][cfv['DynamicChannel']]['fields'][0]['ty']
        import re as _re
        m_ = _re.search(r';\s*(\d+)\]', cft)
        n_el = int(m_.group(1)) if m_ else None
        okd = a[0] == 13 and b_[0] == 16 and a[1] == b_[1] and len(a[1]) == 1 and a[1][0][1] == 3 and 'enumerate' in a[1][0][0] and n_el is not None and 13 + 3 * n_el == 28
        if not okd and n_el is not None and 13 + 3 * n_el == 28 and a[0] == 0 and b_[0] == 3 and a[1] == b_[1] and len(a[1]) == 1 and a[1][0][1] == 1 and a[1][0][0].startswith('φ_'):
            # the same stride as a running offset: starts at 13, advances by 3 once per element of the 5-element list
            cur_ = int(a[1][0][0][2:])
            dl_ = rules.defs_with_conditions(jb, cur_)
            kinds_ = sorted('init' if v_ == ('const', 13) else 'step' if rules.linear(v_) == ({('phi', cur_): 1}, 3) else 'other' for v_, cs_, bb_ in dl_)
            step_bb = [bb_ for v_, cs_, bb_ in dl_ if rules.linear(v_) == ({('phi', cur_): 1}, 3)]
            okd = kinds_ == ['init', 'step'] and all(jb.cfg.can_reach(strided[0].bb, sb_) for sb_ in step_bb) and any(callee_name(t_).endswith('Iterator::next') and jb.cfg.dominates(bb_, strided[0].bb) for bb_, t_ in jb.calls())
        if okd:
            dyn_cov |= set(range(13, 13 + 3 * n_el))
    want_cov = set(range(13, 29))
    res.require(cf_delegated or (fixed_cov == want_cov and okd and dyn_cov == want_cov), 'C01:JoinAccept::build_into:cflist-coverage',
                'with a CFList not every byte 13..29 is written: fixed arm misses %s, dynamic arm misses %s' % (sorted(want_cov - fixed_cov), sorted(want_cov - dyn_cov)), jb.body.path,
                'COVERAGE(every output byte written)', instance='JoinAccept CFList: bytes 13..29 fully written on both arms (mask + zero RFU + type; 5 x 3-byte frequencies + type)')
    order = [x for x in sc if x[0] == 'call']
    names = [x[1] for x in order]
    okw = 'write_mic' in names and 'decrypt_block' in names and names.index('write_mic') < names.index('decrypt_block') and 'encrypt_block' not in names
    dbk = [(bb, t) for bb, t in jb.calls() if callee_name(t).endswith('NetworkCrypto::decrypt_block')]
    ch = [(bb, t) for bb, t in jb.calls() if callee_name(t).endswith('chunks_exact_mut')]
    if not dbk and len(ch) == 1:
        # the per-block call may sit in a closure handed to for_each on the same chunk iterator
        fe = [(bb, t) for bb, t in jb.calls() if callee_name(t).endswith('Iterator::for_each') and has_call(term_of_operand(jb, t.args[0]), 'chunks_exact_mut')]
        cl = [p_ for p_ in prog.by_short if p_.startswith(jb.body.path + '::{closure')]
        in_cl = [p_ for p_ in cl if any(callee_name(t_).endswith('NetworkCrypto::decrypt_block') for bb_, t_ in c.bf(p_).calls()) and len(list(c.bf(p_).calls())) == 1]
        if len(fe) == 1 and len(in_cl) == 1:
            dbk = fe
            names = ['decrypt_block' if n_ in ('for_each', 'chunks_exact_mut') else n_ for n_ in names]
            okw = 'write_mic' in names and 'decrypt_block' in names and names.index('write_mic') < names.index('decrypt_block') and 'encrypt_block' not in names
    okw = okw and len(dbk) == 1 and len(ch) == 1
    if okw:
        src = index_call(term_of_operand(jb, ch[0][1].args[0]))
        okw = src is not None and src[1][2] == 'from' and off(src[1][0]) == 1 and term_of_operand(jb, ch[0][1].args[1]) == ('const', 16) and _before(jb, [bb for bb, t in jb.calls() if callee_name(t).endswith('write_mic')][0], dbk[0][0])
    res.require(okw, 'C01:JoinAccept::build_into:wrapping', 'JoinAccept is not MIC-ed first and then transformed with the block decrypt primitive over out[1..] in 16-byte blocks', jb.body.path,
                'ORDER(write_mic => decrypt blocks) + WHO-CALLS(decrypt primitive)', instance='JoinAccept: MIC appended, then AES-decrypt over bytes 1.. in 16-byte blocks')
    # ------------------------------------------------------------------ primitive binding of the software crypto
    cmf = c.bf(E + 'default_crypto::calculate_mic')
    ups = [(bb, t) for bb, t in cmf.calls() if callee_name(t).endswith('Mac::update')]
    fin = [(bb, t) for bb, t in cmf.calls() if callee_name(t).endswith('Mac::finalize')]
    okp = len(ups) == 2 and len(fin) == 1
    if okp:
        a0 = peel(term_of_operand(cmf, ups[0][1].args[1]))
        a1 = peel(term_of_operand(cmf, ups[1][1].args[1]))
        okp = a0 == ('param', 2) and a1 == ('param', 3) and cmf.cfg.dominates(ups[0][0], ups[1][0]) and cmf.cfg.dominates(ups[1][0], fin[0][0])
        idx = [(bb, t) for bb, t in cmf.calls() if callee_name(t).endswith('Index::index')]
        okp = okp and any(range_of(term_of_operand(cmf, t.args[1])) == (('const', 0), ('const', 4), 'range') for bb, t in idx)
    res.require(okp, 'C01:default_crypto::calculate_mic', 'software MIC is not the first 4 bytes of CMAC(update(b0); update(data))', cmf.body.path, 'ORDER(update b0, update data, finalize) + SPEC-LAYOUT(tag[0..4])',
                instance='DefaultCrypto MIC: cmac over b0 then data, first four tag bytes')
    for ty, meth, prim in (('DefaultCrypto', 'encrypt_block', 'BlockCipherEncrypt::encrypt_block'), ('DefaultNetworkCrypto', 'encrypt_block', 'BlockCipherEncrypt::encrypt_block'),
                           ('DefaultNetworkCrypto', 'decrypt_block', 'BlockCipherDecrypt::decrypt_block')):
        l = [p_ for p_ in prog.by_short if p_.startswith('<' + E + 'default_crypto::' + ty + ' as ') and p_.endswith('::' + meth)]
        if len(l) != 1:
            raise CheckError('anchor: %s::%s' % (ty, meth))
        bfx = c.pf.bf(prog.by_short[l[0]][0])
        prims = [callee_name(t) for bb, t in bfx.calls() if 'Block' in callee_name(t) and 'crypt_block' in callee_name(t)]
        res.require(len(prims) == 1 and prims[0].endswith(prim.split('::')[-1]) and ('Encrypt' in prims[0]) == ('Encrypt' in prim), 'C01:%s::%s:primitive' % (ty, meth),
                    '%s::%s calls %s (expected the AES %s primitive)' % (ty, meth, prims, prim), bfx.body.path, 'WHO-CALLS(block primitive)', instance='%s::%s -> %s' % (ty, meth, prim))
    res.coverage.update({'configs': [c.info], 'fctrl_combinations': n_combo, 'functions': ['DataFrame::build_into', 'DataFrame::mhdr', 'DataFrame::fctrl', 'generate_helper_block', 'calculate_data_mic',
                                                                                             'encrypt_frm_data_payload', 'JoinAccept::build_into'],
                         'join_request': 'JoinRequest layout, MIC placement (write_mic) and the session-key block are decided in C11'})
    res.explanation = __doc__
    res.assumptions = ['LoRaWAN 1.0.x frame layout tables frozen in lrs/props/c01.py', 'the aes and cmac crates compute AES-128 and AES-CMAC (trusted; pinned by RFC vectors in the suite)']
    return res


def _before(bf, a, b):
    """block a dominates block b (a happens first on every path to b)"""
    return bf.cfg.dominates(a, b)
