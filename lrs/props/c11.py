"""C11 — OTAA join establishes exactly the session the JoinAccept defines (structural part).

Decided on MIR terms (def chains, dominance, who-writes, byte layouts against the LoRaWAN 1.0.x tables frozen below):
(a) the JoinRequest is built from the configured identifiers, the nonce that is stored as "the one just sent", and a
MIC under the root key, with the specified byte layout; (b) Mac.state becomes Joined only with the session that
Otaa::handle_rx returns, which exists only on the Ok edge of check_mic_and_decrypt_in_place under the same root key
(decrypt, then MIC over all bytes but the last four); without it the attempt ends in NoJoinAccept and writes nothing;
(c) session keys = AES(root key, tag | JoinNonce | NetID | DevNonce | 0..) with tag 1 / 2 and the accessor offsets of
the JoinAccept; (d) the new session starts from zeroed counters with the assigned address; (e) RX delay, DL settings
and CFList are applied from the accept, the guarded ones only when the region accepts them. Not decided: numerical
equality with an independent key derivation, histories of retries."""
from ..runner import Result, CheckError
from .. import rules, flow, layout
from ..rules import param_by_name, term_of_operand, term_str, callee_name, path_conditions, cond_true, cond_false
from ..flow import term_contains, term_of_place
from ..layout import peel, buffer_script, reads_of, off
from .common import ctx, short_site
from .c04 import guarded_by_call

PID = 'C11'
D = 'lorawan_device::'
P = 'lorawan::parser::DecryptedJoinAcceptPayload::'

# LoRaWAN 1.0.x JoinAccept (after MHDR): JoinNonce 3 | NetID 3 | DevAddr 4 | DLSettings 1 | RxDelay 1 | [CFList 16] | MIC 4
JOIN_ACCEPT_FIELDS = {'join_nonce': ('range', 1, 4), 'net_id': ('range', 4, 7), 'dev_addr': ('range', 7, 11), 'dl_settings': ('byte', 11), 'rx_delay': ('byte', 12)}
# JoinRequest: MHDR 0x00 | JoinEUI 8 | DevEUI 8 | DevNonce 2 | MIC 4 = 23 bytes
JOIN_REQUEST = [('byte', 0, 'mhdr'), ('range', 1, 9, 'join_eui'), ('range', 9, 17, 'dev_eui'), ('range', 17, 19, 'dev_nonce')]
# session key block: tag | JoinNonce | NetID | DevNonce | pad
KEY_BLOCK = [('byte', 0, 'tag'), ('range', 1, 4, 'join_nonce'), ('range', 4, 7, 'net_id'), ('range', 7, 9, 'dev_nonce')]


def is_call(t, suffix):
    t = peel(t)
    return isinstance(t, tuple) and len(t) >= 3 and t[0] == 'call' and t[1].endswith(suffix)


def has_call(t, suffix):
    return term_contains(t, lambda y: isinstance(y, tuple) and len(y) >= 3 and y[0] == 'call' and isinstance(y[1], str) and y[1].endswith(suffix))


def field_path(t):
    """['network_credentials', 'appkey'] for *arg1.network_credentials.appkey (peeled), with the root"""
    t = peel(t)
    path = []
    while isinstance(t, tuple) and t and t[0] == 'field':
        path.append(t[2])
        t = peel(t[1])
    return t, list(reversed(path))


def appkey_crypto(t, root_pred):
    """t is DefaultCrypto::new(&*inner(&<root>.…appkey)) (or appkey() accessor)"""
    t = peel(t)
    if not is_call(t, 'DefaultCrypto::new'):
        return False
    k = peel(t[2][0])
    if not is_call(k, 'AppKey::inner'):
        return False
    src = peel(k[2][0])
    if is_call(src, 'NetworkCredentials::appkey'):
        return root_pred(peel(src[2][0]), [])
    root, path = field_path(src)
    return path[-1:] == ['appkey'] and root_pred(root, path[:-1])


def cflist_applied(c, res):
    """the channel list of the accept is what the device ends up with (dynamic plans, CFList type 0): for every entry n
    the slot NUM_JOIN_CHANNELS + n becomes None when the frequency is 0 ("unused"), Channel::new(freq, DR0, DR5) when the
    frequency is valid for the region, and is otherwise left alone; nothing else is stored by the handler"""
    cands = [p for p in c.prog.by_short if p.endswith('RegionHandler>::process_join_accept') and 'DynamicChannelPlan' in p]
    if len(cands) != 1:
        raise CheckError('anchor: DynamicChannelPlan::process_join_accept')
    bf = c.bf(cands[0])
    body = bf.body
    n_none = n_some = 0
    ok, why = True, ''
    hz = None
    for b in body.blocks:
        if b.cleanup or b.idx not in bf.cfg.reach:
            continue
        for si, s_ in enumerate(b.stmts):
            if not (s_.k == 'assign' and s_.lhs.proj):
                continue
            root, path = bf.root_of_place(s_.lhs)
            if root != 1:
                continue
            lhs = flow.term_of_place(bf, s_.lhs)
            idx = lhs[2] if lhs[0] == 'index' else None
            okslot = path[:1] == ['channels'] and idx is not None and term_contains(idx, lambda y: isinstance(y, tuple) and y[:1] == ('cdef',) and 'NUM_JOIN_CHANNELS' in str(y)) \
                and has_call(idx, 'Iterator::next')
            if not okslot:
                ok, why = False, 'store to %s' % term_str(lhs)[:100]
                continue
            cs = path_conditions(bf, b.idx)
            val = peel(term_of_operand(bf, s_.rv.ops[0])) if s_.rv.k == 'use' else (('agg', 'x::' + (s_.rv.d.get('variant') or ''), tuple((str(i), term_of_operand(bf, o)) for i, o in enumerate(s_.rv.ops))) if s_.rv.k == 'agg' else ('other',))
            if val[0] == 'agg' and val[1].endswith('None'):
                n_none += 1
                z = [x for x in cs if x[0][0] == 'Eq' and peel(x[0][2]) == ('const', 0) and is_call(x[0][1], 'Frequency::hz') and cond_true(x)]
                if not z:
                    ok, why = False, 'slot cleared without the frequency being 0'
            elif val[0] == 'agg' and val[1].endswith('Some'):
                n_some += 1
                v = peel(val[2][0][1])
                okv = is_call(v, 'Channel::new') and is_call(v[2][0], 'Frequency::hz') and str(v[2][1]).count('_0') and str(v[2][2]).count('_5')
                g = [x for x in cs if is_call(x[0], 'frequency_valid') and cond_true(x) and peel(x[0][2][1]) == peel(v[2][0])] if okv else []
                if not (okv and g):
                    ok, why = False, 'slot set to %s without frequency_valid of that frequency' % term_str(v)[:80]
            else:
                ok, why = False, 'slot := %s' % term_str(val)[:60]
    ok = ok and n_none == 1 and n_some == 1
    res.require(ok, 'C11:DynamicChannelPlan::process_join_accept:cflist-applied', 'the CFList of an accepted JoinAccept is not applied entry by entry (unused = removed, valid = defined DR0..DR5, else kept): %s (removals %d, definitions %d)' % (why, n_none, n_some),
                body.path, 'PROVENANCE(channel slots from the CFList)', instance='process_join_accept: slot J+n = None for frequency 0, Channel::new(freq, DR0, DR5) for a valid frequency, untouched otherwise')


def cflist_mask_applied(c, res):
    """fixed plans (CFList type 1): the mask of the accept is installed whenever the accept carries one - the call of channel_mask_set is
    guarded by nothing but the presence and the type of the CFList, and receives that mask. (channel_mask_set is also what resets the
    join bias and the join-channel walk: skipping it for a mask 'equal to the current one' leaves the first uplinks of the new session on
    the sub-band the join went out on, whatever the mask says.)"""
    cands = [p for p in c.prog.by_short if p.endswith('RegionHandler>::process_join_accept') and 'FixedChannelPlan' in p]
    if len(cands) != 1:
        raise CheckError('anchor: FixedChannelPlan::process_join_accept')
    bf = c.bf(cands[0])
    sets = [(bb, t) for bb, t in bf.calls() if callee_name(t).endswith('channel_mask_set')]
    ok, why = len(sets) == 1, '%d calls of channel_mask_set' % len(sets)
    if ok:
        bb, t = sets[0]
        arg = term_of_operand(bf, t.args[1])
        from_list = term_contains(arg, lambda y: y == ('param', 2))
        extra = []
        for cnd in path_conditions(bf, bb):
            tm = cnd[0]
            if isinstance(tm, tuple) and tm[:1] == ('discr',) and term_contains(tm, lambda y: y == ('param', 2)) and not term_contains(tm, lambda y: isinstance(y, tuple) and y[:1] == ('call',)):
                continue            # Some(..) / CfList::FixedChannel(..) of the argument
            if term_contains(tm, lambda y: isinstance(y, tuple) and y[:1] == ('call',) and isinstance(y[1], str) and y[1].endswith('channel_mask_validate')) and term_contains(tm, lambda y: y == ('param', 2)):
                continue            # "applied when valid for the region": a validity test of that mask is part of the property
            extra.append(cnd)
        ok = from_list and not extra
        why = 'the mask installed is not the one of the CFList' if not from_list else 'the mask is only installed under %s' % [(term_str(x[0])[:60], x[1]) for x in extra]
    res.require(ok, 'C11:FixedChannelPlan::process_join_accept:mask-applied', 'the CFList type 1 mask of an accepted JoinAccept is not always applied: %s' % why, bf.body.path,
                'EXACT-GUARD(channel_mask_set <=> the accept carries a CFList type 1)', instance='fixed plans: process_join_accept installs the CFList mask whenever one is present')


def run(tier):
    res = Result(PID)
    c = ctx('ws')
    # ------------------------------------------------------------------ (a) JoinRequest
    bf = c.bf(D + 'mac::otaa::Otaa::prepare_buffer')
    body = bf.body
    self_ = param_by_name(body, 'self')
    calls = {callee_name(t).split('::')[-2] + '::' + callee_name(t).split('::')[-1]: (bb, t) for bb, t in bf.calls()}
    if 'JoinRequest::build_into' not in calls:
        raise CheckError('anchor: Otaa::prepare_buffer does not call JoinRequest::build_into')
    bb_b, tb = calls['JoinRequest::build_into']
    req = peel(term_of_operand(bf, tb.args[0]))
    ok = req[0] == 'agg' and req[1].endswith('JoinRequest')
    fields = dict(req[2]) if ok else {}

    def cred(t, name):
        t = peel(t)
        if is_call(t, 'Into::into') or is_call(t, 'From::from'):
            t = peel(t[2][0])
        root, path = field_path(t)
        return root == ('param', self_) and path == ['network_credentials', name]
    res.require(ok and cred(fields.get('join_eui'), 'appeui'), 'C11:prepare_buffer:join_eui', 'JoinRequest.join_eui is not the configured AppEUI: %s' % term_str(fields.get('join_eui')),
                short_site(bf, bb_b), 'PROVENANCE(join_eui)', instance='JoinRequest.join_eui <- credentials.appeui')
    res.require(ok and cred(fields.get('dev_eui'), 'deveui'), 'C11:prepare_buffer:dev_eui', 'JoinRequest.dev_eui is not the configured DevEUI: %s' % term_str(fields.get('dev_eui')),
                short_site(bf, bb_b), 'PROVENANCE(dev_eui)', instance='JoinRequest.dev_eui <- credentials.deveui')
    # the nonce sent is the nonce remembered: one store to self.dev_nonce, dominating build_into, and the request reads that field
    st = [(bb, si, s) for bb, si, s, root, path in bf.field_writes() if root == self_ and path == ['dev_nonce']]
    dn = fields.get('dev_nonce')
    r_, p_ = field_path(dn) if dn is not None else (None, None)
    same = len(st) == 1 and bf.cfg.dominates(st[0][0], bb_b) and r_ == ('param', self_) and p_ == ['dev_nonce']
    if not same and len(st) == 1 and bf.cfg.dominates(st[0][0], bb_b) and dn is not None and st[0][2].rv.k == 'use':
        # or the request carries the very value that was stored (one local feeds both the field and the request)
        sv = peel(term_of_operand(bf, st[0][2].rv.ops[0]))
        same = sv == peel(dn) and sv[0] == 'call'
    res.require(same, 'C11:prepare_buffer:dev_nonce', 'the DevNonce put in the JoinRequest is not the one stored in Otaa.dev_nonce (stores: %d, request field: %s)' % (len(st), term_str(dn) if dn else None),
                short_site(bf, bb_b), 'SAME-VALUE(dev_nonce sent = dev_nonce remembered)', instance='JoinRequest.dev_nonce is Otaa.dev_nonce, stored once before the request is built')
    res.require(appkey_crypto(term_of_operand(bf, tb.args[2]), lambda root, path: root == ('param', self_) and path == ['network_credentials']),
                'C11:prepare_buffer:mic-key', 'the JoinRequest MIC is not computed under the configured AppKey: %s' % term_str(term_of_operand(bf, tb.args[2])),
                short_site(bf, bb_b), 'PROVENANCE(MIC key)', instance='JoinRequest MIC under credentials.appkey')
    # the frame goes into the radio buffer and its length becomes the buffer position
    buf = param_by_name(body, 'buf')
    a1 = peel(term_of_operand(bf, tb.args[1]))
    into_buf = is_call(a1, 'as_mut') and peel(a1[2][0]) == ('param', buf)
    sp = calls.get('RadioBuffer::set_pos')
    len_ok = False
    if sp:
        lt = peel(term_of_operand(bf, sp[1].args[1]))
        len_ok = is_call(lt, '::len') and has_call(lt, 'JoinRequest::build_into')
    res.require(into_buf and len_ok, 'C11:prepare_buffer:buffer', 'the JoinRequest is not written to the radio buffer with its length as position',
                short_site(bf, bb_b), 'SHAPE(build into buf; set_pos(len))', instance='JoinRequest built into the radio buffer; pos = built length')
    # layout of the JoinRequest
    bq = c.bf('lorawan::creator::JoinRequest::build_into')
    sq = param_by_name(bq.body, 'self')
    bufq = param_by_name(bq.body, 'buf')
    script = buffer_script(bq, lambda t: term_contains(t, lambda y: y == ('param', bufq)))
    got = []
    for w in script:
        if w.kind == 'byte':
            got.append(('byte', off(w.start), term_str(peel(w.value))))
        elif w.kind == 'range':
            v = peel(w.value)
            src = None
            if is_call(v, 'as_wire_bytes'):
                r0, p0 = field_path(v[2][0])
                if r0 == ('param', sq):
                    src = p0[-1] if p0 else None
            got.append(('range', off(w.start), off(w.end), src))
        elif w.kind == 'call' and (w.callee or '').endswith('write_mic'):
            got.append(('mic',))
    want = [('byte', 0, '0'), ('range', 1, 9, 'join_eui'), ('range', 9, 17, 'dev_eui'), ('range', 17, 19, 'dev_nonce'), ('mic',)]
    got2 = [g for g in got if g[0] != 'call']
    res.require([g for g in got2 if g in want] == want and len([g for g in got2 if g[0] in ('byte', 'range')]) == 4, 'C11:JoinRequest::build_into:layout',
                'JoinRequest bytes are not MHDR 0x00 | JoinEUI[1..9] | DevEUI[9..17] | DevNonce[17..19] | MIC: %s' % got2, bq.body.path, 'SPEC-LAYOUT(JoinRequest)',
                instance='JoinRequest layout: 0x00 | join_eui 1..9 | dev_eui 9..17 | dev_nonce 17..19 | MIC last 4')
    # the frame is exactly 23 bytes: get_mut(..23)
    g23 = any(is_call(term_of_operand(bq, t.args[0]) if False else ('call', callee_name(t), tuple(term_of_operand(bq, a) for a in t.args)), '::get_mut')
              and layout.range_of(term_of_operand(bq, t.args[1])) == (('const', 0), ('const', 23), 'to') for bb, t in bq.calls())
    res.require(g23, 'C11:JoinRequest::build_into:length', 'the JoinRequest is not built in exactly the first 23 bytes', bq.body.path, 'SPEC-LAYOUT(JoinRequest length)',
                instance='JoinRequest occupies buf[..23]')
    # write_mic: MIC over everything but the last 4 bytes, stored in the last 4
    bw = c.bf('lorawan::creator::write_mic')
    outp = 1
    mic_ok = False
    for bb, t in bw.calls():
        if callee_name(t).endswith('copy_from_slice'):
            dst = layout.index_call(term_of_operand(bw, t.args[0]))
            src = peel(term_of_operand(bw, t.args[1]))
            if dst and dst[0] == ('param', outp) and dst[1][2] == 'from' and off(dst[1][0]) == (-4, (('len(&*arg1)', 1),)):
                m = rules.find_in_term(src, lambda y: isinstance(y, tuple) and len(y) >= 3 and y[0] == 'call' and y[1].endswith('securityhelpers::calculate_mic'))
                if m is not None:
                    d = layout.index_call(m[2][0])
                    mic_ok = d is not None and d[0] == ('param', outp) and d[1][2] == 'to' and off(d[1][1]) == (-4, (('len(&*arg1)', 1),)) and peel(m[2][1]) == ('param', 2)
    res.require(mic_ok, 'C11:write_mic:layout', 'write_mic does not store calculate_mic(out[..len-4], crypto) into out[len-4..]', bw.body.path, 'SPEC-LAYOUT(MIC)',
                instance='MIC = cmac(out[..len-4]) stored at out[len-4..]')
    # ------------------------------------------------------------------ (b) joined only on an authentic accept
    bh = c.bf(D + 'mac::otaa::Otaa::handle_rx')
    sh = param_by_name(bh.body, 'self')
    chk = [(bb, t) for bb, t in bh.calls() if callee_name(t).endswith('check_mic_and_decrypt_in_place')]
    if len(chk) != 1:
        raise CheckError('anchor: Otaa::handle_rx calls check_mic_and_decrypt_in_place %d times' % len(chk))
    cb, ct = chk[0]
    res.require(appkey_crypto(term_of_operand(bh, ct.args[1]), lambda root, path: root == ('param', sh) and path == ['network_credentials']),
                'C11:Otaa::handle_rx:mic-key', 'the JoinAccept is not verified under the configured AppKey', short_site(bh, cb), 'PROVENANCE(MIC key)',
                instance='JoinAccept MIC/decryption under credentials.appkey')
    rxp = param_by_name(bh.body, 'rx')
    a0 = peel(term_of_operand(bh, ct.args[0]))
    res.require(is_call(a0, 'as_mut_for_read') and peel(a0[2][0]) == ('param', rxp), 'C11:Otaa::handle_rx:input', 'the verified bytes are not the received buffer contents',
                short_site(bh, cb), 'PROVENANCE(received bytes)', instance='verified bytes = rx.as_mut_for_read()')
    ok_edges = bh.ok_edges(ct.dest.local) if hasattr(bh, 'ok_edges') else []
    # every effect and the Some(session) return are on the Ok side
    eff = rules.effects(c, bh, {param_by_name(bh.body, 'region'), param_by_name(bh.body, 'configuration'), sh})
    n_eff = 0
    for e in eff:
        n_eff += 1
        what = e['callee'].split('::')[-1] if e['kind'] == 'call' else 'store ' + '.'.join(e['path'])
        res.require(bh.guarded_by_edges(e['bb'], ok_edges), 'C11:Otaa::handle_rx:%s-before-authentication' % what,
                    'state change (%s) can happen without a verified JoinAccept' % what, short_site(bh, e['bb'], e.get('si')), 'DOM(MIC ok => effect)',
                    instance='Otaa::handle_rx: %s only after the MIC verified' % what)
    if n_eff < 4:
        raise CheckError('floor: effects in Otaa::handle_rx %d < 4' % n_eff)
    some_sites = []
    for b in bh.body.blocks:
        if b.cleanup:
            continue
        for si, s in enumerate(b.stmts):
            if s.k == 'assign' and s.lhs.local == 0 and not s.lhs.proj and s.rv.k == 'agg' and s.rv.d.get('variant') == 'Some':
                some_sites.append((b.idx, si, s))
    res.require(len(some_sites) == 1 and bh.guarded_by_edges(some_sites[0][0], ok_edges), 'C11:Otaa::handle_rx:session-without-authentication',
                'a session is returned on a path without a verified JoinAccept', bh.body.path, 'DOM(MIC ok => Some(session))',
                instance='Otaa::handle_rx returns Some(session) only after the MIC verified')
    if some_sites:
        v = peel(term_of_operand(bh, some_sites[0][2].rv.ops[0]))
        okd = is_call(v, 'Session::derive_new')
        if okd:
            a = [peel(x) for x in v[2]]
            okd = term_contains(a[0], lambda y: y == ('call',) or (isinstance(y, tuple) and len(y) == 4 and y[0] == 'call' and y[3] == cb)) and \
                field_path(a[1]) == (('param', sh), ['dev_nonce']) and field_path(a[2]) == (('param', sh), ['network_credentials'])
        res.require(okd, 'C11:Otaa::handle_rx:session-args', 'the session is not derived from (this accept, the DevNonce sent, the credentials): %s' % term_str(v),
                    short_site(bh, some_sites[0][0]), 'PROVENANCE(derive_new arguments)', instance='session = derive_new(verified accept, Otaa.dev_nonce, credentials)')
    # check_mic_and_decrypt_in_place: Ok only after decrypt_in_place Ok and validate_mic true, same crypto
    bc = c.bf(P + 'check_mic_and_decrypt_in_place')
    oks = []
    for b in bc.body.blocks:
        if b.cleanup:
            continue
        for si, s in enumerate(b.stmts):
            if s.k == 'assign' and s.lhs.local == 0 and not s.lhs.proj and s.rv.k == 'agg' and s.rv.d.get('variant') == 'Ok':
                oks.append(b.idx)
    vm = [(bb, t) for bb, t in bc.calls() if callee_name(t).endswith('validate_mic')]
    okc = len(oks) == 1 and len(vm) == 1 and guarded_by_call(bc, oks[0], 'validate_mic') and peel(term_of_operand(bc, vm[0][1].args[1])) == ('param', 2) and \
        has_call(term_of_operand(bc, vm[0][1].args[0]), 'decrypt_in_place')
    if not oks and len(vm) == 1:
        # the result built by combinators (`ok.then_some(x).ok_or(e)`): the alternatives of the returned value, each with its
        # conditions; the only Ok alternative must be the one taken when validate_mic returned true
        rets = [(b.idx, b.term) for b in bc.body.blocks if not b.cleanup and b.term is not None and getattr(b.term, 'k', None) == 'call'
                and b.term.dest is not None and b.term.dest.local == 0 and not b.term.dest.proj and not callee_name(b.term).endswith('from_residual')]
        if len(rets) == 1:
            rt = flow.term_of_call(bc, rets[0][0]) if hasattr(flow, 'term_of_call') else None
            if rt is None:
                t_ = rets[0][1]
                rt = ('call', callee_name(t_), tuple(term_of_operand(bc, a_) for a_ in t_.args), rets[0][0])
            cases = rules.value_cases(bc, rt)
            okcases = [(v_, cs_) for v_, cs_ in cases if isinstance(v_, tuple) and v_[:1] == ('agg',) and str(v_[1]).endswith('Result::Ok')]
            known = all(isinstance(v_, tuple) and v_[:1] == ('agg',) and str(v_[1]).endswith(('Result::Ok', 'Result::Err')) for v_, _ in cases)
            okc = known and len(okcases) == 1 and any(isinstance(peel(cn_[0]), tuple) and peel(cn_[0])[:1] == ('call',) and str(peel(cn_[0])[1]).endswith('validate_mic') and tuple(cn_[1]) == (1,) for cn_ in okcases[0][1]) and \
                peel(term_of_operand(bc, vm[0][1].args[1])) == ('param', 2) and has_call(term_of_operand(bc, vm[0][1].args[0]), 'decrypt_in_place')
    res.require(okc, 'C11:check_mic_and_decrypt_in_place:ok-without-mic', 'Ok is returned without validate_mic(decrypted, same crypto) being true', bc.body.path,
                'DOM(validate_mic => Ok)', instance='check_mic_and_decrypt_in_place: Ok only if validate_mic under the same key')
    bv = c.bf(P + 'validate_mic')
    vok = False
    for bb, t in bv.calls():
        if callee_name(t).endswith('securityhelpers::calculate_mic'):
            d = layout.index_call(term_of_operand(bv, t.args[0]))
            vok = d is not None and d[1][2] == 'to' and isinstance(off(d[1][1]), tuple) and off(d[1][1])[0] == -4 and peel(term_of_operand(bv, t.args[1])) == ('param', 2)
    res.require(vok, 'C11:validate_mic:coverage', 'the JoinAccept MIC is not computed over all bytes but the last four under the given key', bv.body.path, 'SPEC-LAYOUT(JoinAccept MIC)',
                instance='JoinAccept MIC over bytes[..len-4]')
    # Mac.state writers
    ws = c.pf.writers_of_field('mac::Mac', 'state', crates={'lorawan_device'})
    writers = {}
    for body_, bb, si, s, kind in ws:
        writers.setdefault(body_.path.replace(D, ''), []).append((body_, bb, si, s, kind))
    WR = {'mac::Mac::new': 'initial state', 'mac::Mac::join_otaa': 'Otaa(new attempt)', 'mac::Mac::join_abp': 'ABP session supplied by the application',
          'mac::Mac::handle_rx': 'Joined(session from Otaa::handle_rx)', 'mac::Mac::set_session': 'session supplied by the application',
          'mac::Mac::certification_setup_send': 'certification'}
    for fn, sites in sorted(writers.items()):
        res.require(fn in WR, 'C11:who-writes:Mac.state:%s' % fn, 'unreviewed writer of Mac.state', fn, 'WHO-WRITES(Mac.state)', instance='Mac.state written by %s (%s)' % (fn, WR.get(fn)))
    bm = c.bf(D + 'mac::Mac::handle_rx')
    for bb, si, s, root, path in bm.field_writes():
        if path == ['state']:
            v = peel(term_of_operand(bm, s.rv.ops[0])) if s.rv.k == 'use' else None
            if v is None and s.rv.k == 'agg':
                v = ('agg', 'x::' + s.rv.d.get('variant', ''), tuple((str(i), term_of_operand(bm, o)) for i, o in enumerate(s.rv.ops)))
            okj = v is not None and v[0] == 'agg' and v[1].endswith('Joined') and term_contains(v, lambda y: isinstance(y, tuple) and y[:1] == ('as',) and y[2] == 'Some' and has_call(y, 'Otaa::handle_rx'))
            res.require(okj, 'C11:Mac::handle_rx:joined-value', 'Mac.state is set to something else than Joined(session returned by Otaa::handle_rx): %s' % (term_str(v) if v else s.rv.k),
                        short_site(bm, bb, si), 'PROVENANCE(Mac.state)', instance='Mac.state = Joined(Some-payload of Otaa::handle_rx)')
    # no accept: NoJoinAccept and nothing written - judged at Mac::rx2_complete's Otaa arm (the arm may delegate to Otaa::rx2_complete)
    bx = c.bf(D + 'mac::Mac::rx2_complete')
    sv = rules.variants_of(c.prog, 'mac::State')
    if 'Otaa' not in sv:
        raise CheckError('anchor: mac::State::Otaa')

    def in_otaa_arm(bb):
        return any(x[0][0] == 'discr' and field_path(x[0][1])[1][-1:] == ['state'] and x[1] == (sv['Otaa'],) for x in path_conditions(bx, bb))
    arm_blocks = [b.idx for b in bx.body.blocks if not b.cleanup and b.idx in bx.cfg.reach and in_otaa_arm(b.idx)]
    if not arm_blocks:
        raise CheckError('anchor: Mac::rx2_complete has no State::Otaa arm')
    arm_calls = [(bb, t) for bb, t in bx.calls() if bb in arm_blocks]
    arm_writes = [(bb, si) for bb, si, s, root, path in bx.field_writes() if bb in arm_blocks]
    arm_rets = [s for bb in arm_blocks for s in bx.body.blocks[bb].stmts if s.k == 'assign' and s.lhs.is_local() and s.lhs.local == 0]
    deleg = [(bb, t) for bb, t in arm_calls if callee_name(t).endswith('Otaa::rx2_complete')]
    if deleg:
        okn = len(arm_calls) == 1 and not arm_writes and not arm_rets and deleg[0][1].dest.is_local() and deleg[0][1].dest.local == 0
        br = c.bf(D + 'mac::otaa::Otaa::rx2_complete')
        wr = list(br.field_writes())
        rets = [s for b in br.body.blocks if not b.cleanup for s in b.stmts if s.k == 'assign' and s.lhs.local == 0]
        okn = okn and not wr and not list(br.calls()) and len(rets) == 1 and rets[0].rv.k == 'agg' and rets[0].rv.d.get('variant') == 'NoJoinAccept'
        where = br.body.path
    else:
        okn = not arm_calls and not arm_writes and len(arm_rets) == 1 and arm_rets[0].rv.k == 'agg' and arm_rets[0].rv.d.get('variant') == 'NoJoinAccept'
        where = bx.body.path
    res.require(okn, 'C11:Otaa::rx2_complete', 'a join attempt without accept does not simply end in NoJoinAccept', where, 'SHAPE(return NoJoinAccept, no effects)',
                instance='Otaa::rx2_complete returns NoJoinAccept and writes nothing')
    # ------------------------------------------------------------------ (c) key derivation
    bk = c.bf(P + 'derive_session_key')
    sk = param_by_name(bk.body, 'self')
    blk = None
    for bb, t in bk.calls():
        if callee_name(t).endswith('encrypt_block'):
            blk = peel(term_of_operand(bk, t.args[1]))
            enc_key = peel(term_of_operand(bk, t.args[0]))
    if blk is None:
        raise CheckError('anchor: derive_session_key does not call encrypt_block')
    # the 16 bytes handed to the AES primitive, read bit by bit where they are used (whatever fills the block: stores into a zeroed
    # array, an array literal, a helper)
    from .. import absint_interp, spi
    an_k = absint_interp.new_analyzer(c.prog, max_depth=6)
    rec_k = []

    def hook_k(an_, t_, args_, frame_, st_, nm_):
        rec_k.append([spi.fmt_byte(x_) for x_ in spi.slice_bits(an_, st_, args_[1], frame_)])
    an_k.call_hooks['Crypto::encrypt_block'] = hook_k
    an_k.analyze_entry(bk.body)
    if not rec_k:
        raise CheckError('anchor: derive_session_key does not reach Crypto::encrypt_block')

    def byte_of(nm):
        return '[' + ' '.join('%s.%d' % (nm, k_) for k_ in range(7, -1, -1)) + ']'
    want_k = [byte_of('first_byte')] + [byte_of('self.bytes[%d]' % i_) for i_ in range(1, 7)] + [byte_of('dev_nonce.0[%d]' % i_) for i_ in range(2)] + ['0x00'] * 7
    param_by_name(bk.body, 'first_byte'), param_by_name(bk.body, 'dev_nonce')
    n_enc = len([1 for bb, t in bk.calls() if callee_name(t).endswith('encrypt_block')])
    res.require(all(r_ == want_k for r_ in rec_k) and n_enc == 1, 'C11:derive_session_key:layout', 'key block is not tag | JoinNonce = frame[1..4] | NetID = frame[4..7] | DevNonce | zero pad, encrypted once: %s' % (
        [r_ for r_ in rec_k if r_ != want_k][:1] or n_enc,), bk.body.path,
        'SPEC-LAYOUT(session key block, bits at the AES call)', instance='session key = AES(tag | JoinNonce | NetID | DevNonce | 0-pad)')
    res.require(all(r_[9:] == ['0x00'] * 7 and len(r_) == 16 for r_ in rec_k), 'C11:derive_session_key:padding',
                'the key block is not 16 bytes ending in seven zero bytes', bk.body.path, 'SPEC-LAYOUT(pad)', instance='key block bytes 9..16 are zero')
    res.require(enc_key == ('param', param_by_name(bk.body, 'crypto')), 'C11:derive_session_key:key', 'the block is not encrypted with the supplied (AppKey) crypto', bk.body.path,
                'PROVENANCE(key)', instance='key block encrypted with the crypto argument')
    for nm, tag in (('derive_nwkskey', 1), ('derive_appskey', 2)):
        bd = c.bf(P + nm)
        cs = [(bb, t) for bb, t in bd.calls() if callee_name(t).endswith('derive_session_key')]
        okt = len(cs) == 1 and term_of_operand(bd, cs[0][1].args[1]) == ('const', tag) and peel(term_of_operand(bd, cs[0][1].args[2])) == ('param', 2) and \
            peel(term_of_operand(bd, cs[0][1].args[3])) == ('param', 3) and peel(term_of_operand(bd, cs[0][1].args[0])) == ('param', 1)
        res.require(okt, 'C11:%s:tag' % nm, '%s does not derive with tag 0x%02x from (self, dev_nonce, crypto)' % (nm, tag), bd.body.path, 'SPEC-LAYOUT(key tag)',
                    instance='%s: tag 0x%02x' % (nm, tag))
    for fn, want_r in sorted(JOIN_ACCEPT_FIELDS.items()):
        ba = c.bf(P + fn)
        rd = reads_of(ba, lambda t: isinstance(t, tuple) and t[0] == 'field' and t[2] == 'bytes')
        res.require(rd == [want_r], 'C11:%s:offset' % fn, 'JoinAccept accessor %s reads %s, specification says %s' % (fn, rd, want_r), ba.body.path, 'SPEC-LAYOUT(JoinAccept)',
                    instance='JoinAccept.%s at %s' % (fn, want_r[1:]))
    # ------------------------------------------------------------------ (d) the new session
    bd = c.bf(D + 'mac::session::Session::derive_new')
    cs = [(bb, t) for bb, t in bd.calls() if callee_name(t).endswith('Session::new')]
    if len(cs) != 1:
        raise CheckError('anchor: Session::derive_new does not call Session::new once')
    a = [peel(term_of_operand(bd, x)) for x in cs[0][1].args]
    dec, dn, cr = 1, 2, 3

    def key_ok(t, nm):
        return is_call(t, nm) and peel(t[2][0]) == ('param', dec) and peel(t[2][1]) == ('param', dn) and \
            appkey_crypto(t[2][2], lambda root, path: root == ('param', cr))
    res.require(key_ok(a[0], 'derive_nwkskey') and key_ok(a[1], 'derive_appskey'), 'C11:derive_new:keys',
                'session keys are not derive_nwkskey/derive_appskey(accept, dev_nonce, AppKey crypto): %s / %s' % (term_str(a[0]), term_str(a[1])), short_site(bd, cs[0][0]),
                'PROVENANCE(session keys)', instance='Session keys = (derive_nwkskey, derive_appskey)(accept, nonce sent, AppKey)')
    res.require(is_call(a[2], 'dev_addr') and peel(a[2][2][0]) == ('param', dec), 'C11:derive_new:devaddr', 'device address is not the one in the accept', short_site(bd, cs[0][0]),
                'PROVENANCE(devaddr)', instance='Session.devaddr = accept.dev_addr()')
    bn = c.bf(D + 'mac::session::Session::new')
    agg = [s for b in bn.body.blocks if not b.cleanup for s in b.stmts if s.k == 'assign' and s.rv.k == 'agg' and (s.rv.d.get('adt') or '').endswith('session::Session')]
    if len(agg) != 1:
        raise CheckError('anchor: Session::new constructs Session %d times' % len(agg))
    fl = dict(zip(agg[0].rv.d['fields'], [term_of_operand(bn, o) for o in agg[0].rv.ops]))
    want_new = {'fcnt_up': ('const', 0), 'adr_ack_cnt': ('const', 0), 'confirmed': ('const', 0), 'nwkskey': ('param', 1), 'appskey': ('param', 2), 'devaddr': ('param', 3)}
    for k, v in sorted(want_new.items()):
        g = peel(fl.get(k))
        res.require(g == v or (v == ('const', 0) and g in (('const', 0), ('const', False))), 'C11:Session::new:%s' % k, 'new session field %s = %s (expected %s)' % (k, term_str(g), term_str(v)),
                    bn.body.path, 'CONST(new session)', instance='Session::new: %s = %s' % (k, term_str(v)))
    fd = peel(fl.get('fcnt_down'))
    res.require(fd is not None and fd[0] == 'agg' and fd[1].endswith('Option::None'), 'C11:Session::new:fcnt_down', 'new session fcnt_down = %s (expected None)' % term_str(fd), bn.body.path,
                'CONST(new session)', instance='Session::new: fcnt_down = None')
    up = peel(fl.get('uplink'))
    res.require(is_call(up, 'Default>::default') or is_call(up, 'Default::default'), 'C11:Session::new:uplink', 'new session does not start with an empty Uplink', bn.body.path, 'CONST(new session)',
                instance='Session::new: uplink = Default')
    # ------------------------------------------------------------------ (e) settings of the accept
    for field, how, what in (('rx1_dr_offset', 'guard', 'rx1_dr_offset_validate'), ('rx2_data_rate', 'guard', 'get_datarate')):
        st = [(bb, si, s) for bb, si, s, root, path in bh.field_writes() if path == [field]]
        if len(st) != 1:
            raise CheckError('anchor: Otaa::handle_rx stores %s %d times' % (field, len(st)))
        bb, si, s = st[0]
        v = term_of_operand(bh, s.rv.ops[0]) if s.rv.k == 'use' else ('x',) + tuple(term_of_operand(bh, o) for o in s.rv.ops)
        # each alternative of the stored value: the field's own current value (nothing changes), or the accept's value under the region's test
        from .c04 import cond_mentions_call
        alts = rules.value_cases(bh, v, path_conditions(bh, bb)) if s.rv.k == 'use' else [(v, list(path_conditions(bh, bb)))]
        src_ok, n_new = True, 0
        for cv, cs_ in alts:
            if field_path(peel(cv))[1][-1:] == [field] and field_path(peel(cv))[0] == ('param', param_by_name(bh.body, 'configuration')):
                continue
            n_new += 1
            src_ok = src_ok and has_call(cv, 'DLSettings::' + field) and any(cond_mentions_call(bh, x, what) and not cond_false(x) for x in cs_)
        src_ok = src_ok and n_new >= 1
        res.require(src_ok, 'C11:Otaa::handle_rx:%s' % field, '%s is not the accept\'s value applied under %s' % (field, what), short_site(bh, bb, si),
                    'DOM(%s => store)+PROVENANCE' % what, instance='Otaa::handle_rx: %s <- DLSettings.%s() if %s' % (field, field, what))
    st = [(bb, si, s) for bb, si, s, root, path in bh.field_writes() if path == ['rx1_delay']]
    okd = len(st) == 1 and st[0][2].rv.k == 'use'
    if okd:
        v = peel(term_of_operand(bh, st[0][2].rv.ops[0]))
        okd = is_call(v, 'del_to_delay_ms') and is_call(v[2][0], 'rx_delay')
    res.require(okd, 'C11:Otaa::handle_rx:rx1_delay', 'rx1_delay is not del_to_delay_ms(accept.rx_delay())', bh.body.path, 'PROVENANCE(rx1_delay)',
                instance='Otaa::handle_rx: rx1_delay = del_to_delay_ms(rx_delay())')
    # exactness: the accept's settings are applied whenever the accept is authentic (and the region accepts the value):
    # no other condition may stand before these writes
    def extra_guards(bb, allowed_call=None):
        out = []
        for cnd in path_conditions(bh, bb):
            tm = cnd[0]
            if has_call(tm, 'check_mic_and_decrypt_in_place') and not (allowed_call and has_call(tm, allowed_call)):
                # the authenticity test itself, however it is spelled: match on the Result, on `.ok()` of it, `is_ok()`, `?`
                core_ = peel(tm)
                while isinstance(core_, tuple) and core_ and (core_[0] == 'discr' or (core_[0] == 'call' and isinstance(core_[1], str) and
                                                               core_[1].endswith(('Result::ok', 'Result::is_ok', 'Try::branch')) and len(core_[2]) == 1)):
                    core_ = peel(core_[1] if core_[0] == 'discr' else core_[2][0])
                if is_call(core_, 'check_mic_and_decrypt_in_place'):
                    continue
            if allowed_call and has_call(tm, allowed_call):
                continue
            out.append((term_str(tm)[:100], cnd[1]))
        return out
    for field, allowed in (('rx1_delay', None), ('rx1_dr_offset', 'rx1_dr_offset_validate'), ('rx2_data_rate', 'get_datarate')):
        for bb, si, s_, root, path in bh.field_writes():
            if path == [field]:
                eg = extra_guards(bb, allowed)
                res.require(not eg, 'C11:Otaa::handle_rx:%s-extra-guard' % field, 'the accept\'s %s is not always applied: extra condition %s' % (field, eg), short_site(bh, bb, si),
                            'EXACT-GUARD(authentic accept%s <=> write)' % (' and region validity' if allowed else ''), instance='Otaa::handle_rx: %s written on every authentic accept%s' % (field, ' the region accepts' if allowed else ''))
    for bb, t in bh.calls():
        if callee_name(t).endswith('process_join_accept') or callee_name(t).endswith('Session::derive_new'):
            eg = extra_guards(bb)
            res.require(not eg, 'C11:Otaa::handle_rx:%s-extra-guard' % callee_name(t).split('::')[-1], '%s does not happen for every authentic accept: extra condition %s' % (callee_name(t).split('::')[-1], eg),
                        short_site(bh, bb), 'EXACT-GUARD(authentic accept <=> effect)', instance='Otaa::handle_rx: %s for every authentic accept' % callee_name(t).split('::')[-1])
    pj = [(bb, t) for bb, t in bh.calls() if callee_name(t).endswith('process_join_accept')]
    okp = len(pj) == 1 and has_call(term_of_operand(bh, pj[0][1].args[1]), 'c_f_list')
    res.require(okp, 'C11:Otaa::handle_rx:cflist', 'the CFList of the accept is not handed to the region', bh.body.path, 'PROVENANCE(CFList)',
                instance='Otaa::handle_rx: region.process_join_accept(accept.c_f_list())')
    cflist_applied(c, res)
    cflist_mask_applied(c, res)
    res.coverage.update({'functions': ['Otaa::prepare_buffer', 'JoinRequest::build_into', 'write_mic', 'Otaa::handle_rx', 'check_mic_and_decrypt_in_place', 'validate_mic', 'Mac::handle_rx',
                                       'Otaa::rx2_complete', 'derive_session_key', 'derive_nwkskey', 'derive_appskey', 'Session::derive_new', 'Session::new'] + sorted(JOIN_ACCEPT_FIELDS),
                         'mac_state_writers': sorted(writers), 'configs': [c.info]})
    res.explanation = __doc__
    res.assumptions = ['LoRaWAN 1.0.x layouts frozen in this module (JoinRequest, JoinAccept field offsets, key block, tags 1/2)',
                       'AES/CMAC primitives and DefaultCrypto are trusted; region validity of CFList contents is C04/C09']
    return res
