"""driver for absint-based checks: entry selection, invariant fixpoint passes, obligation reporting"""
import time
from . import absint_interp, absint_inv
from .lir import strip_generics
from .runner import CheckError


def exported_entries(prog, crate, module_pred=None, exclude_names=('new_from_raw',)):
    """bodies of functions reachable from outside the crate (effective visibility), excluding documented-unchecked
    constructors; trait-impl methods of exported types are included through `exported` as rustc computes it"""
    out = []
    for path, meta in sorted(prog.fns.items()):
        if meta['crate'] != crate or not meta.get('exported'):
            continue
        if meta['name'] in exclude_names:
            continue
        b = prog.bodies.get(path)
        if b is None:
            continue
        if module_pred and not module_pred(path, meta):
            continue
        out.append(b)
    return out


_calls_index = {}


def call_site_generic_args(prog):
    """fn path (raw generic path) -> set of generic-arg tuples seen at call sites anywhere in the workspace"""
    key = id(prog)
    if key in _calls_index:
        return _calls_index[key]
    idx = {}
    for b in prog.bodies.values():
        for blk in b.blocks:
            t = blk.term
            if t.k == 'call' and t.func is not None and t.func.const is not None:
                c = t.func.const
                for k in ('fn', 'res'):
                    p = c.get(k)
                    if p and c.get('ga'):
                        idx.setdefault(strip_tf(p), set()).add(tuple(c['ga']))
    _calls_index[key] = idx
    return idx


def strip_tf(p):
    from .lir import strip_turbofish
    return strip_turbofish(p)


def instantiations(prog, body):
    """list of substitutions (generic name -> concrete string) under which a generic entry is analysed:
    const generics take the values used at workspace call sites; type parameters on which the body calls a
    workspace trait take every implementing type. [{}] if the function is not generic or nothing is known."""
    meta = prog.fns.get(body.raw_path)
    if not meta or not meta.get('generics'):
        return [{}]
    names = [g for g in meta['generics'] if not g.startswith("'")]
    if not names:
        return [{}]
    subs = [{}]
    # type parameters with workspace trait calls
    tparams = {}
    for blk in body.blocks:
        t = blk.term
        if t.k == 'call' and t.func is not None and t.func.const is not None:
            c = t.func.const
            if c.get('trait') and c.get('ga') and c['ga'][0] in names and not c.get('res') and \
                    c['trait'].split('::')[0] in ('lorawan', 'lorawan_device', 'lora_phy', 'lora_modulation'):
                tparams.setdefault(c['ga'][0], set()).add(c['trait'])
    for tp, traits in sorted(tparams.items()):
        tys = None
        for tr in traits:
            impls = set(im['self_ty'] for im in prog.impls if im.get('trait') == tr)
            tys = impls if tys is None else (tys & impls)
        if tys:
            subs = [dict(s, **{tp: ty}) for s in subs for ty in sorted(tys)]
    # const generics from call sites
    idx = call_site_generic_args(prog)
    seen = idx.get(body.path, set())
    allg = meta['generics']
    consts = set()
    for ga in seen:
        if len(ga) != len(allg):
            continue
        d = {}
        for n, v in zip(allg, ga):
            if n in names and v.replace('_', '').isdigit():
                d[n] = v
        if d:
            consts.add(tuple(sorted(d.items())))
    if consts:
        subs = [dict(s, **dict(cs)) for s in subs for cs in sorted(consts)]
    return subs


def mentions_unknown_tracked(prog, inv, body):
    for i in range(1, body.argc + 1):
        ty = body.locals[i]
        for head in inv.tracked:
            if head in ty and not inv.known(head):
                return head
    return None


def run_passes(prog, entries, crates, max_depth=7, max_passes=6, log=None, setup=None):
    inv = absint_inv.Invariants(prog, crates)
    # only types whose slice field is not `pub` can carry an inferred invariant
    for head in list(inv.tracked):
        adt = prog.adts[head]
        keep = []
        for (vi, fname) in inv.tracked[head]:
            f = [x for x in adt['variants'][vi]['fields'] if x['name'] == fname][0]
            if f['vis'] != 'Public':
                keep.append((vi, fname))
        if keep or inv.int_of.get(head):
            inv.tracked[head] = keep
        else:
            del inv.tracked[head]
    an = None
    skipped = {}
    for p in range(max_passes):
        an = absint_interp.new_analyzer(prog, max_depth=max_depth)
        absint_inv.install(an, inv)
        if setup:
            setup(an)
        skipped = {}
        t0 = time.time()
        for b in entries:
            h = mentions_unknown_tracked(prog, inv, b)
            if h is not None:
                skipped[b.path] = h
                continue
            is_async = (prog.fns.get(b.raw_path) or {}).get('async')
            for sub in instantiations(prog, b):
                if is_async:
                    fr, out = absint_interp.analyze_async_entry(an, b, subst=sub)
                else:
                    fr, out = an.analyze_entry(b, subst=sub)
                    inv.check_mut_self_exit(an, b, fr, out)
        ch = inv.merge_pass()
        if log:
            log('pass %d: %d entries analysed, %d skipped (type not yet constructed), %d obligations, invariants changed=%s, %.1fs' % (
                p + 1, len(entries) - len(skipped), len(skipped), len(an.obl), ch, time.time() - t0))
        if not ch:
            break
    else:
        raise CheckError('invariant inference did not stabilise in %d passes' % max_passes)
    return an, inv, skipped
